#!/usr/bin/env python3
"""refac_matrix.py <dir-with-N/patch.diff> ... : run all 17 checks on behaviour-preserving patches (scratch copies); every firing is a FALSE ALARM."""
import glob, json, os, sys, importlib.util
V = os.path.dirname(os.path.dirname(os.path.abspath(__file__)))
spec = importlib.util.spec_from_file_location("sm", os.path.join(V, "tools", "seed_matrix.py"))
src = open(os.path.join(V, "tools", "seed_matrix.py")).read().replace("\nmain()\n", "\n")
ns = {"__file__": os.path.join(V, "tools", "seed_matrix.py")}
exec(compile(src, "seed_matrix", "exec"), ns)
import concurrent.futures as cf
dirs = []
for a in sys.argv[1:]:
    dirs += sorted(d for d in glob.glob(os.path.join(a, "*")) if os.path.exists(os.path.join(d, "patch.diff")))
out = []
with cf.ThreadPoolExecutor(4) as ex:
    for d, r in zip(dirs, ex.map(ns["one"], dirs)):
        r["seed"] = d
        out.append(r)
        print(d, "SILENT" if not r.get("fired") and "error" not in r else ("ERR " + r.get("error", "") if "error" in r else "FALSE-ALARM %s" % r["fired"]), flush=True)
json.dump(out, open(os.path.join(V, ".work", "refac_results.json"), "w"), indent=1)

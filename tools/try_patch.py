#!/usr/bin/env python3
"""try_patch.py <patch.diff> <Cxx> [Cxx...] : apply a patch to a scratch copy of /repo and print the full FAIL lines of the named checks."""
import os, shutil, subprocess, sys
V = os.path.dirname(os.path.dirname(os.path.abspath(__file__)))
sys.path.insert(0, os.path.join(V, "engines", "rules"))
import thorough
s = thorough.scratch_copy()
try:
    r = subprocess.run("patch -p1 -s -f -d %s < %s" % (s, sys.argv[1]), shell=True)
    if r.returncode:
        sys.exit("patch does not apply")
    env = dict(os.environ, VERIF_REPO=s, VERIF_EVIDENCE_DIR=os.path.join(s, ".ev"), VERIF_TIER="quick")
    for p in sys.argv[2:]:
        r = subprocess.run([os.path.join(V, "check"), p, "quick"], env=env, cwd=V, capture_output=True, text=True)
        print("==", p, r.returncode)
        for l in (r.stdout + r.stderr).splitlines():
            if "ALPHA" in l or "FAIL" in l or "VIOLATION" in l or "Traceback" in l or "Error" in l:
                print(l[:1500])
finally:
    shutil.rmtree(s, ignore_errors=True)

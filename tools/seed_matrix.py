#!/usr/bin/env python3
"""seed_matrix.py [-j N] [seed names...] : every check against every kept seeded change.

Each seed is applied to its own scratch copy of /repo's current tree (outside /repo and /verif, removed afterwards), facts are
extracted there and all 17 checks run with VERIF_REPO pointing at the copy.  /repo itself is not touched.  Writes seeded/RESULTS.jsonl."""
import concurrent.futures as cf
import glob
import json
import os
import re
import shutil
import subprocess
import sys

V = os.path.dirname(os.path.dirname(os.path.abspath(__file__)))
sys.path.insert(0, os.path.join(V, "engines", "rules"))
import thorough  # noqa: E402

PROPS = os.environ["VERIF_PROPS"].split(",") if os.environ.get("VERIF_PROPS") else ["C%02d" % i for i in range(1, 18)]   # VERIF_PROPS=C01,C09: rerun only these checks


def one(sd):
    name = os.path.basename(sd)
    scratch = thorough.scratch_copy()
    try:
        r = subprocess.run("patch -p1 -s -f -d %s < %s" % (scratch, os.path.join(sd, "patch.diff")), shell=True, capture_output=True, text=True)
        if r.returncode != 0:
            return {"seed": name, "error": "patch does not apply"}
        fired = {}
        env = dict(os.environ, VERIF_REPO=scratch, VERIF_EVIDENCE_DIR=os.path.join(scratch, ".ev"), VERIF_TIER="quick")
        for p in PROPS:
            r = subprocess.run([os.path.join(V, "check"), p, "quick"], env=env, cwd=V, capture_output=True, text=True)
            if re.search(r"^VIOLATION", r.stdout, re.M):
                keys = [re.sub(r"^ *FAIL (\S+).*", r"\1", l) for l in r.stdout.splitlines() if l.strip().startswith("FAIL ")][:4]
                fired[p] = ";".join(keys)
        return {"seed": name, "fired": fired}
    finally:
        shutil.rmtree(scratch, ignore_errors=True)


def main():
    args = sys.argv[1:]
    j = 4
    if args[:1] == ["-j"]:
        j = int(args[1])
        args = args[2:]
    seeds = [os.path.join(V, "seeded", a) for a in args] or sorted(glob.glob(os.path.join(V, "seeded", "C*-*")))
    out = os.path.join(V, "seeded", "RESULTS.jsonl")
    old = {}
    if args and os.path.exists(out):
        for l in open(out):
            d = json.loads(l)
            old[d["seed"]] = d
    with cf.ThreadPoolExecutor(j) as ex:
        for d in ex.map(one, seeds):
            old[d["seed"]] = d
            own = d["seed"].split("-")[0]
            print(d["seed"], "own" if own in d.get("fired", {}) else ("cross" if d.get("fired") else ("ERR" if "error" in d else "MISSED")), sorted(d.get("fired", {})), flush=True)
    with open(out, "w") as f:
        for k in sorted(old):
            f.write(json.dumps(old[k]) + "\n")


main()

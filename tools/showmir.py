#!/usr/bin/env python3
"""showmir.py <unit> <fn-suffix> : pretty print the extracted MIR / HIR facts of one function (debug aid)."""
import sys, os, json
sys.path.insert(0, os.path.join(os.path.dirname(os.path.abspath(__file__)), "..", "engines", "rules"))
import common

def op(o):
    if 'copy' in o: return common.place_str(o['copy'])
    if 'move' in o: return 'move ' + common.place_str(o['move'])
    if 'c' in o: return 'const ' + o['c']
    if 'fn' in o: return 'fn ' + o['fn']
    return json.dumps(o)

def rv(r):
    k = r['k']
    if k == 'use': return op(r['op'])
    if k in ('ref', 'rawptr'): return ('&mut ' if r['mut'] else '&') + ('raw ' if k == 'rawptr' else '') + common.place_str(r['place'])
    if k == 'cast': return '%s as %s (%s)' % (op(r['op']), r['ty'], r['ck'])
    if k == 'bin': return '%s(%s, %s)' % (r['op'], op(r['l']), op(r['r']))
    if k == 'un': return '%s(%s)' % (r['op'], op(r['op1']))
    if k == 'discr': return 'discriminant(%s)' % common.place_str(r['place'])
    if k == 'agg': return '%s::%s{%s}%s' % (r.get('adt', r.get('agg')), r.get('variant', ''), ', '.join(op(x) for x in r['ops']), (' union_field=' + r['union_field']) if 'union_field' in r else '')
    return json.dumps(r)

def main():
    facts = common.ensure_facts()
    u = facts.unit(sys.argv[1])
    fs = [f for f in u.fn_list if f['path'].endswith(sys.argv[2])]
    for f in fs:
        print('fn', f['path'], f.get('inputs'), '->', f.get('output'), common.loc(f))
        if len(sys.argv) > 3 and sys.argv[3] == 'hir':
            print(json.dumps(f.get('hir'), indent=1))
            continue
        m = f.get('mir')
        if not m or 'blocks' not in m:
            print('  (no full mir)'); continue
        print('  names:', [(n['n'], common.place_str(n['p'])) for n in m['names']])
        for l in m['locals']: print('  let _%d: %s' % (l['l'], l['ty']))
        for b in m['blocks']:
            print('  bb%d%s:' % (b['id'], ' (cleanup)' if b.get('cleanup') else ''))
            for s in b['stmts']:
                if s['k'] == 'assign': print('    %s = %s' % (common.place_str(s['lhs']), rv(s['rv'])))
                elif s['k'] == 'copy_nonoverlapping': print('    copy_nonoverlapping(src=%s, dst=%s, count=%s)' % (op(s['src']), op(s['dst']), op(s['count'])))
                else: print('    ', json.dumps(s))
            t = b['term']
            if t['k'] == 'call':
                print('    %s = %s(%s) -> bb%s' % (common.place_str(t['dest']), common.mir_callee(t) or t['f'], ', '.join(op(a) for a in t['args']), t.get('t')))
            elif t['k'] == 'switch':
                print('    switch %s %s otherwise bb%d' % (op(t['discr']), t['targets'], t['otherwise']))
            elif t['k'] == 'drop':
                print('    drop(%s: %s) -> bb%d' % (common.place_str(t['place']), t['ty'], t['t']))
            else:
                print('    ', {k: v for k, v in t.items() if k != 'ln'})
main()

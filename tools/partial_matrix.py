#!/usr/bin/env python3
"""partial_matrix.py <listfile> <out.jsonl> [-j N] : run the checks named in VERIF_PROPS (default all) on the patch directories listed in <listfile>
(one directory per line, each holding patch.diff).  Used after a rule change that can only affect some checks / some files: the rest of the
corpus results stay as last measured.  For seeds, merge with tools/merge_partial.py."""
import json, os, sys
V = os.path.dirname(os.path.dirname(os.path.abspath(__file__)))
src = open(os.path.join(V, "tools", "seed_matrix.py")).read().replace("\nmain()\n", "\n")
ns = {"__file__": os.path.join(V, "tools", "seed_matrix.py")}
exec(compile(src, "seed_matrix", "exec"), ns)
import concurrent.futures as cf
dirs = [os.path.join(V, l.strip()) if not l.startswith("/") else l.strip() for l in open(sys.argv[1]) if l.strip()]
j = int(sys.argv[4]) if len(sys.argv) > 4 and sys.argv[3] == "-j" else 8
with open(sys.argv[2], "w") as out, cf.ThreadPoolExecutor(j) as ex:
    for d, r in zip(dirs, ex.map(ns["one"], dirs)):
        r["dir"] = d
        r["props"] = ns["PROPS"]
        out.write(json.dumps(r) + "\n")
        out.flush()
        print(d, r.get("error") or r.get("fired"), flush=True)

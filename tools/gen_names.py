#!/usr/bin/env python3
"""gen_names.py : (re)write spec/names/*.json -- the reference name table of the tree the rules were written against (run on the unchanged /repo
after a `fix:` commit or after a rule was re-anchored).  engines/rules/alpha.py uses it to recognise renamed private items."""
import json, os, sys
V = os.path.dirname(os.path.dirname(os.path.abspath(__file__)))
sys.path.insert(0, os.path.join(V, "engines", "rules"))
os.environ["VERIF_NO_ALPHA"] = "1"
import common as C, alpha
facts = C.ensure_facts()
os.makedirs(alpha.NAMES_DIR, exist_ok=True)
for u in C.UNIT_FLOORS:
    d = json.load(open(os.path.join(facts.dir, u + ".json")))   # the raw facts, as alpha.canonicalise sees them
    t = alpha.make_table(d)
    with open(os.path.join(alpha.NAMES_DIR, u + ".json"), "w") as f:
        json.dump(t, f, separators=(",", ":"), sort_keys=True)
    print(u, len(t["fns"]), "fns", len(t["adts"]), "adts")
with open(os.path.join(alpha.NAMES_DIR, "templates.json"), "w") as f:
    json.dump(alpha.tpl_table(C.REPO), f, indent=0, sort_keys=True)

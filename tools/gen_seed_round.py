#!/usr/bin/env python3
"""gen_seed_round.py <round-dir> [Cxx ...] : prepare a seeding round.

For every property: <round-dir>/<id>/{property.txt,prompt.txt,out/} and a scratch git worktree <round-dir>/<id>/wt of /repo HEAD.
The prompt contains ONLY the property text (from properties.jsonl) and, for later rounds, a one-line description of the sites earlier
rounds already changed (so the agent looks elsewhere) - nothing else from /verif."""
import glob
import json
import os
import re
import subprocess
import sys

V = os.path.dirname(os.path.dirname(os.path.abspath(__file__)))
root = sys.argv[1]
only = sys.argv[2:]
tmpl = open(os.path.join(V, "tools", "seed_prompt.tmpl")).read()
props = [json.loads(l) for l in open(os.path.join(V, "properties.jsonl"))]
for p in props:
    pid = p["id"]
    if only and pid not in only:
        continue
    d = os.path.join(root, pid)
    os.makedirs(os.path.join(d, "out"), exist_ok=True)
    text = "Property %s: %s\n\nStatement: %s\n\nHolds for (quantifier): %s\n\nWhy the existing tests cannot settle it: %s\n\nCode the property is anchored in: %s\nMechanisms meant to make it hold:\n%s\n" % (
        pid, p["title"], p["statement"], p["quantifier"]["text"], p["why_tests_cant"], ", ".join(p["anchors"]["files"]),
        "\n".join("  - %s (%s)" % (m["name"], m["where"]) for m in p["anchors"].get("mechanism", [])))
    open(os.path.join(d, "property.txt"), "w").write(text)
    prior = []
    for sd in sorted(glob.glob(os.path.join(V, "seeded", pid + "-*"))):
        try:
            files = re.findall(r"^\+\+\+ b/(.*)$", open(os.path.join(sd, "patch.diff")).read(), re.M)
            notes = open(os.path.join(sd, "notes.md")).read() if os.path.exists(os.path.join(sd, "notes.md")) else ""
            first = next((l.strip() for l in notes.splitlines() if len(l.strip()) > 30 and not l.startswith("#")), "")[:140]
            prior.append("  - %s  (%s)" % (", ".join(files), first))
        except OSError:
            pass
    pr = tmpl.replace("/tmp/seed/@ID@", d).replace("@ID@", pid).replace("@PROP@", text)
    if prior:
        extra = ("\n\nIMPORTANT - this is a later round. Earlier rounds already produced the changes below for this property; do NOT repeat them or close variants. "
                 "Find DIFFERENT mechanisms (other functions, other files, other backends, other templates, other clauses of the property statement):\n" + "\n".join(prior) +
                 "\nAlso note: the checkout contains recent upstream bug-fix commits (see `git log`); do not simply revert one of those fixes.\n")
        pr = pr.replace("\n----\n\nTask:", "\n----\n" + extra + "\nTask:", 1)
    open(os.path.join(d, "prompt.txt"), "w").write(pr)
    wt = os.path.join(d, "wt")
    if not os.path.isdir(wt):
        subprocess.run(["git", "-C", "/repo", "worktree", "add", "--detach", wt, "HEAD", "-q"], check=True)
    print("prepared", d)

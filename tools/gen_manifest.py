#!/usr/bin/env python3
"""Regenerate /verif/MANIFEST.json from the table below (claimed = a rules module exists and is listed here)."""
import json, os
V = os.path.dirname(os.path.dirname(os.path.abspath(__file__)))

CLAIMS = {
 "C12": dict(
   text="Static decision of the structural clauses of DiplomatWrite safety on the MIR of runtime/src/write.rs and of every macro-generated extern fn in the repo's bridges: bounded copy (every path to the copy passes the capacity test or a successful grow with the same operands), atomic failure edge, sticky flag, len advanced after the copy with needed_len, accessor gating, fixed writer reserves the NUL byte, Rust-owned grow protocol, flush-after-call, private bookkeeping fields / who-may-write. Path-exhaustive over the (loop-free) CFGs; decides these clauses for all inputs, not the behaviour under all chunk sequences.",
   note="Trusts rustc's MIR construction and the documented contract of foreign grow callbacks; C++ std::string writer template is checked by token queries only.",
   technique="MIR path enumeration + symbolic def-use terms; who-may-write inventory"),
}
NOT_YET = "rule module not built yet in this round (see DESIGN.md section 4 for the planned static rules)"

def main():
    props = [json.loads(l) for l in open(os.path.join(V, "properties.jsonl"))]
    checks = []
    na = []
    for p in props:
        pid = p["id"]
        if pid in CLAIMS and os.path.exists(os.path.join(V, "engines", "rules", pid.lower() + ".py")):
            c = CLAIMS[pid]
            checks.append({
                "property_id": pid,
                "quick_cmd": "./check %s quick" % pid,
                "thorough_cmd": "./check %s thorough" % pid,
                "evidence_file": "/verif/evidence/%s.json" % pid,
                "replay_cmd_template": "./check %s quick  # replay file {path} lists the violated rule instances" % pid,
                "engine": "dipfacts+rules",
                "level_claimed": {"category": "other", "text": c["text"], "design_ref": "DESIGN.md section 4 " + pid},
                "level_note": c["note"],
                "technique": "static analysis: " + c["technique"],
            })
        else:
            na.append({"property_id": pid, "reason": CLAIMS.get(pid, {}).get("na", NOT_YET)})
    m = {
        "version": 1,
        "setup_cmd": "./setup.sh",
        "hooks": {"guard": "rust_diplomat_diplomat_verif", "enable": "none needed: the checks analyse /repo's sources as they are (no instrumentation)",
                  "baseline_off_cmd": "cd /repo && cargo test --workspace --no-fail-fast --offline", "source_commits": [], "add_only": True},
        "engines": [
            {"name": "dipfacts", "path": "engines/dipfacts", "serves_properties": [c["property_id"] for c in checks],
             "kind_free_text": "rustc_private driver (RUSTC_WORKSPACE_WRAPPER under cargo +nightly check): typed/resolved HIR trees, MIR, ADT layouts as JSON facts"},
            {"name": "rules", "path": "engines/rules", "serves_properties": [c["property_id"] for c in checks],
             "kind_free_text": "Python rule modules over the facts: decision tables, MIR path rules, provenance/flow, template linter"},
        ],
        "checks": checks,
        "not_applicable": na,
        "notes": "All checks are static: nothing from /repo is executed. Facts are re-extracted whenever any source under /repo changes (hash-keyed).",
    }
    json.dump(m, open(os.path.join(V, "MANIFEST.json"), "w"), indent=1)
    print("claimed:", [c["property_id"] for c in checks], "na:", len(na))
main()

#!/usr/bin/env python3
"""Regenerate /verif/MANIFEST.json from the table below (claimed = a rules module exists and is listed here)."""
import json, os
V = os.path.dirname(os.path.dirname(os.path.abspath(__file__)))

CLAIMS = {
 "C12": dict(
   text="Static decision of the structural clauses of DiplomatWrite safety on the MIR of runtime/src/write.rs and of every macro-generated extern fn in the repo's bridges: bounded copy (every path to the copy passes the capacity test or a successful grow with the same operands), atomic failure edge, sticky flag, len advanced after the copy with needed_len, accessor gating, fixed writer reserves the NUL byte, Rust-owned grow protocol, flush-after-call, private bookkeeping fields / who-may-write. Path-exhaustive over the (loop-free) CFGs; decides these clauses for all inputs, not the behaviour under all chunk sequences.",
   note="Trusts rustc's MIR construction and the documented contract of foreign grow callbacks; C++ std::string writer template is checked by token queries only.",
   technique="MIR path enumeration + symbolic def-use terms; who-may-write inventory"),
 "C16": dict(
   text="Static decision, on the MIR of diplomat-runtime, that every raw-parts slice reconstruction takes (ptr,len) of one view and is reachable only through the non-null edge of that view's ptr.is_null() test (NULL+0 normalises to the empty slice; the null edge uses an element-aligned dangling pointer), that views are built field-wise from one source, that diplomat_is_str is exactly is_ok(from_utf8(from_raw_parts(ptr,size))) with no other branch or call, that from_utf8_unchecked is only applied to a validated view's bytes, that alloc/free build the same Layout, and that the view types are repr(C)/transparent with private fields. Covers all element types and lengths at once because the bodies are generic; does not run them.",
   note="core::str::from_utf8 and rustc's slice semantics are trusted; a hand-rolled UTF-8 fast path would be reported (not decidable by shape).",
   technique="MIR dominance / edge-cut reachability + symbolic operand terms"),
 "C03": dict(
   text="Static decision of the ownership-escape discipline: (R1) the inventory of unsafe ownership operations in diplomat-runtime equals a triaged table; (R2) path-sensitive typestate on MIR: after ManuallyDrop::take / ptr::read / Box::from_raw / Vec::from_raw_parts on part of a value whose drop glue releases that part, the value is not dropped on any continuing path (this found the double drop in From<DiplomatResult> for Result, repaired by a fix: commit); (R2b) Drop for DiplomatResult releases exactly the flagged arm once per path; (R3) create/destroy, into_raw/from_raw and callback-destructor pairing; (R4) in the macro output for the repo's own bridges the generated *_destroy(Box<T>){} is the only by-value consumer of an opaque; (R5) C++ operator delete / unique_ptr / heap-moved callbacks with c_delete. Decides these clauses, not arbitrary foreign call histories.",
   note="Foreign callers are assumed to call destroy once; corpus rules (R4) speak for the bridge shapes present in feature_tests/example; C++ text is token-checked, not type-resolved.",
   technique="who-may-call inventory + MIR typestate (take-then-drop reachability) + pairing rules"),
 "C01": dict(
   text="Static decision of the ABI-agreement clauses that are visible in the code's shape: (R1) the C primitive table, extracted as a decision table from the resolved program and compared cell by cell with rustc's own layouts, exhaustively over the 17 primitives; (R2) agreement of the derived-type name table with the MAKE_SLICES_AND_OPTIONS instantiations of capi.h (macro-expanded and parsed); (R3) field-kind sequences of the C mirrors vs the repr(C) runtime carriers and the per-method result record; (R4) argument order self->params->write in macro and C generator; (R5) on the repo's own bridges, every generated extern fn calls the user method exactly once on every MIR path, routes each parameter only into its own position and returns the call's result through the allowed conversions; bridge value types are repr(C); (R6) receiver passing mode agreement between gate, macro and C backend (found the enum `&self` mismatch, repaired by a fix: commit). Decides these clauses for all inputs; does not decide bit-for-bit value delivery.",
   note="rustc's extern \"C\" ABI lowering is trusted once both declarations agree; spec/foreign_types.json holds the C type facts; R5 is a corpus rule over feature_tests/example.",
   technique="decision-table extraction + rustc layout oracle + C declaration parsing + MIR path/flow rules"),
 "C11": dict(
   text="Static decision that (R1) every enum emitter prints the stored discriminant inside its variant loop (template token rules, positional shortcuts only under the contiguity flag, JS reads discriminants as signed i32), (R2) the three contiguity predicates are `all(|(i,v)| i as isize == v.discriminant)`, (R3) discriminant inference in ast::Enum::new is `explicit literal or previous+1, previous starts at -1, previous := value for every variant`, (R4) AST->HIR copies the value unchanged. Together these are necessary conditions for every binding to carry rustc's discriminants; agreement with rustc's own numbering rule is by the documented rule, not by running rustc on all enums.",
   note="Non-literal discriminant expressions are out of scope (the tool panics on them). Templates are token-checked.",
   technique="typed HIR tree pattern rules + template linter"),
 "C17": dict(
   text="Static decision of the configuration precedence: statement-order rules in main and gen (default -> read_file -> read_cli_settings -> #[diplomat::config] scan -> get_overridden -> consumers, nothing set afterwards, consumers use the overridden value), last-write-wins totality of every leaf setter arm (every path stores the incoming value into the field named by the key; only a type check of the value may skip; current state never consulted), routing of language prefixes and the override filter, alias targets reach their overrides (found py-nanobind, repaired by a fix: commit), snake-casing of every key part that reaches set. Exhaustive over the finite set of keys and sources because it is a property of the program text, not of particular assignments.",
   note="toml/heck/clap are trusted; the serde Deserialize path of Config is unused by main and not analysed.",
   technique="HIR statement-order and path-totality rules over setters"),
 "C13": dict(
   text="Static decision of the attribute-condition machinery: the evaluator's decision table over all 7 formula constructors with per-arm semantic checks (negation, first-true/first-false loops, constant true, is_backend, is_name_value with argument order), exact-equality is_backend, the 24-cell `supports =` table (each literal returns the flag of the same name, all flags covered), target->attr_support/run pairing in gen, parser keyword->constructor agreement, `disable` tested before lowering each method and first in every backend loop over types/traits, the proc macro never reads backend-conditional attributes (so exports cannot depend on them), `disable` inheritance and the parent-attribute source used by each type lowerer. Exhaustive over formula constructors and flags because the tables are finite.",
   note="Does not prove byte-identity of other backends' outputs; that follows from these rules plus C14 but is a behavioural statement.",
   technique="decision tables + HIR arm-semantics rules + who-may-read rule on the macro crate"),
 "C07": dict(
   text="Static decision that the Dart and Kotlin native declarations agree with the C ABI where this is visible in the generator's shape: primitive->native tables extracted as decision tables and compared with rustc's layouts (Dart: exact kind and width, 17 cells; Kotlin/JNA: width and pointer-sizedness for both the parameter and the struct-field table, default initialisers consistent with the native type, FFI wrapper class widths); helper-name tables consistent with them; result/option/slice record mirrors (field order, flag width) and @JvmField order == getFieldOrder() in every JNA Structure; parameter order self->params->write and the write parameter declared for every ReturnType(.., Write) shape (decision table over ReturnType); struct field order preserved; by-value/pointer categories; helper-record cache key at least as fine as the record's ABI shape.",
   note="JNA's Boolean parameter mapping and dart:ffi's own semantics are trusted (spec/foreign_types.json); per-program signatures are not enumerated.",
   technique="decision tables + rustc layout oracle + template mirrors + ordering/totality rules"),
 "C08": dict(
   text="Static decision of the JS layout clauses against rustc's own wasm32-unknown-unknown layouts (obtained by type-checking a #![no_core] probe crate with -Zprint-type-sizes, nothing executed): the primitive size/align table (17 cells, plus host==wasm32 for every Layout::new::<T>() the tool evaluates on the host), enum/pointer/slice cells, the DiplomatOption (size, align) formula evaluated as an extracted closed-form term for every primitive/slice/enum payload, the padding and trailing-padding formulas of struct_field_info evaluated exhaustively on a 5x65 (align, offset) grid plus the statement order offset-after-padding-before-size, the typed-array table, the runtime's pointer/flag/discriminant reads and option flag position, and the documented legacy-ABI padding threshold.",
   note="Does not decide struct_field_info's output for every field order nor the bytes written for all values (algorithm/behaviour); the formulas and tables it is built from are decided. Host must be a 64-bit little-endian target (stated in evidence).",
   technique="decision tables + rustc wasm32 layout oracle + extracted-formula evaluation on exhaustive grids"),
 "C05": dict(
   text="Static decision of the gate's accept/reject behaviour by abstract interpretation: the typed HIR trees of lower_type, lower_out_type, lower_return_type, lower_callback_param, the struct/out-struct field loops (including TypeName::is_ffi_safe and the position-specific TyPosition::build_* impls) are interpreted over a finite abstract domain of type shapes (constructor trees of ast::TypeName x kind of the named type x spelling x lifetime class), exploring every path of the loop-free match/if trees, for 5 positions and 5 backend support profiles; the resulting verdict table (accept / reject-with-error / panic) is compared cell by cell with spec/gate.json, which was written from the statement and the book, not from the code. Also: no silent rejects, error context set before lowering, struct/out-struct sibling agreement (found the missing FFI-safety check on out-struct fields, repaired by a fix: commit), validation on the accept path covering Ok and Err payloads (decision table of with_contained_types), write only as last parameter, and the documented is_ffi_safe table.",
   note="The shape domain is finite and chosen by the spec (54 shapes); unknown sub-expressions are over-approximated by exploring both branches; lifetime-bound validation itself (validate_ty_in_method's arithmetic) is not decided here.",
   technique="abstract interpretation of the lowering functions over a finite shape domain + spec table comparison"),
 "C10": dict(
   text="Static decision of the encoding-consistency clauses: (R1) type-graph non-interference: nothing reachable from hir::TypeContext can carry the std/diplomat spelling, and backends take only the TypeContext; (R2) by abstract interpretation of the gate, both spellings of every Option/Result payload lower to the same HIR value in every position or one spelling is rejected, and Option returns get the Nullable / optional-pointer return kind in both spellings; (R3) ffi_safe_version/is_ffi_safe canonicalisation tables and the macro's use of them; (R4) path-sensitive MIR rule on diplomat-runtime: union arm ok is accessed only where is_ok is known true (err: false), constructors pair the arm with the flag, unit arms are zero-sized in rustc's layouts; (R5) {union; bool is_ok} record shape in the C/Dart/Kotlin mirrors, the per-method C record emits the union iff a payload line is emitted, C++ conversions do not cross arms; (R6) macro return rewriting, confirmed on every generated body of the repo's bridges.",
   note="Value-level equality of behaviour for all payload values is not decided. JS receive-buffer arithmetic is reported as an observation only.",
   technique="type-graph reachability + abstract interpretation + MIR path rule + mirrors"),
 "C06": dict(
   text="Static decision that symbol names have one source and are used unmodified: (R1) the naming scheme abi_rename.apply(\"Type_method\") / abi_rename.apply(\"Type_destroy\") in the AST (the rename is applied to the complete name); (R2) intra-procedural provenance tracing over the typed HIR: the macro's export idents, the HIR fields and the symbol slot of every emitting backend (C, C++, Dart, JS, Kotlin; 9 struct slots + 2 Kotlin format sites) derive from abi_name / dtor_abi_name and from no other name field; (R3) every template prints that slot at its native-symbol position and no template assembles a symbol from a display name (76 template checks); (R4) the abi_rename inheritance decision table and its call contexts; (R5) the macro builds its AST before stripping attributes.",
   note="Equality with the linker's symbol table needs a build and is not decided; nanobind and demo_gen emit no native symbols themselves.",
   technique="provenance (def-use) tracing on typed HIR + template slot linting + decision tables"),
 "C09": dict(
   text="Static decision of the well-formedness preconditions that are visible in the generators: (R1) every #[diplomat::X] the AST gives meaning to is accepted by the macro (found opaque_mut, repaired by a fix: commit); (R2) for every syn node kind whose attributes the AST reads (computed from the resolved program), the macro strips that node's attributes (found impl blocks / traits / trait fns, repaired by a fix: commit); (R3) every arm that names a custom type records the include/forward for the same id through the formatter that names generated files, and C++ relative include paths are matched per path component; (R4) every emitted C/C++ parameter name passes through fmt_identifier and the table consulted in C (C++) mode covers the ISO C11 (C++17) keyword list.",
   note="That any generated file compiles is not decided (needs gcc/g++/node); spec/keywords.json holds the standard keyword lists.",
   technique="set agreement between AST readers and macro strippers over resolved types + pairing rules + keyword table coverage"),
 "C14": dict(
   text="Static effect analysis and container typing: (R1) every iteration over a hash container and every ambient read (time, env, pid, read_dir, fs reads, pointer formatting/casts) anywhere in diplomat_core + diplomat_tool - including the askama-generated render functions - must be in a triaged allow-list with an order-insensitivity reason (7 entries today); (R2) the containers whose iteration order reaches the output are BTreeMap/BTreeSet/Vec by type, every hash-typed struct field is in the lookup-only list, LookupId maps are keyed by AST node identity; (R3) every item-recording arm of ast::Module::from_syn is guarded by analyze_types, which is true only for the full attribute path diplomat::bridge, sub-modules and top-level modules are never forced, the config scan reads only top-level diplomat::config; (R4) duplicate file names are rejected.",
   note="std's determinism is trusted; the check decides the causes of non-determinism / non-locality, not byte-identity of directories.",
   technique="whole-program effect inventory (who-may-iterate/ambient-read) + type facts + guard rules"),
 "C15": dict(
   text="Static triage of crash sites selected by HIR shape: decision tables of every match / if-let / let-else on an HIR or backend-local enum in the backends and hir::methods give the set of real variants that select a panic!/unreachable!/unimplemented!/todo! arm (66 today); each is triaged as excluded-by-property, impossible-by-type, impossible-by-gate (cross-checked against the backend's attr_support flags and the gate), guarded or finding; an untriaged arm fails. Plus an inventory of unwrap/expect on Options derived from HIR data or parameters (36 keys), and a producer/consumer agreement rule for nanobind. Reading the tables found 8 genuine crashes (4 repaired by fix: commits, the rest recorded as known findings with their triggering bridge).",
   note="Does not prove absence of all panics: index/slice panics, arithmetic overflow and identifier-value-dependent rejections are not decided; the triage reasons are reviewed by hand.",
   technique="decision-table extraction of diverging arms + triage table + support-flag cross-check + unwrap provenance inventory"),
 "C02": dict(
   text="Static decision of the C++ clauses whose truth is structural: (R1) inside the parameter loop of gen_method_info the branch selecting Slice::Str(_, Utf8) pushes a self-contained `if (!diplomat_is_str(p.data(), p.size())) return Err<Utf8Error>()` onto the list that MethodInfo.param_validations receives unchanged (no later joining), and the return type is wrapped accordingly; (R2) the method template prints the validations before the native call; (R3) C++->C argument order self->params->write; (R4) ok/err arms of every result/option conversion literal are not crossed; (R5) runtime.hpp: the std::string writer publishes cap = length() after resize(requested), the bundled span's copy constructor and operator= copy every member, callback trampolines cast the stored std::function.",
   note="Does not decide that each of the ~40 conversion expressions preserves values, nor compilation under both C++ standards; C++ text is token-checked, not type-resolved.",
   technique="HIR statement/branch rules + template ordering + C++ token rules (member-wise copy completeness)"),
 "C04": dict(
   text="Static decision of the necessary conditions for sound borrow edges: (R1) each managed backend creates the visitor, visits the receiver and every parameter, and consumes the result after all visits; (R2) every lifetime-carrying hir::Type variant (decision table of Type::lifetimes) has an edge kind, options are unwrapped first (found the DiplomatOption crash/omission, repaired by a fix: commit), the only early exit of visit_param is `no lifetime used by the return type`, edges are selected by membership in all_longer_lifetimes, and the return type's lifetime set visits Ok and Err payloads of every ReturnType constructor (decision table); (R3) direction of the outlives graph through the whole chain: extend_bounds' paired pushes, implied bounds collected through &, Option and Result, AST->HIR copies, all_longer_lifetimes walks `longer`; (R4) validation compares use-site and def-site longer sets over lifetimes_all() (including the reference's own lifetime).",
   note="Exactness of the transitive closure for every signature is an algorithmic statement and is not decided.",
   technique="must-call / ordering rules on generators + decision tables + direction (pairing) rules on graph construction"),
}

# rules added in the second build session (after the independent second seeding round); appended to the claims above
ADD = {
 "C01": (" (R7/R8) the enum-value and NULL-slice clauses shared with C11/C16; (R9) the write parameter only in last position and the C destructor/method symbol slots, shared with C05/C06.", ""),
 "C02": (" (R6) every diplomat::result accessor touches only its own arm in both the value and the reference overloads, the six comparison operators each compare the comparator's result with 0 under their own relation, the bundled span default-constructs empty (found the SIZE_MAX default, repaired by a fix: commit), the enum wrapper prints stored discriminants (shared with C11).", " + sibling-overload agreement"),
 "C03": (" (R2c) a Vec/Box rebuilt from a buffer that a surviving owner still points at is never dropped on a non-cleanup path; (R5) also the std::string writer publishes a fresh buf after resize. Thorough tier: compile-fail witnesses (moves consume, owned views are not Clone, union private) and the same rules on the feature-less runtime build.", " + compile-fail witnesses with twins"),
 "C04": (" (R5) both sides of every zip pairing use-site and def-site lifetimes are order- and length-preserving, nanobind suppresses keep_alive only for string slices; (R6) lifetime indices are formatted with the environment they index.", " + branded-index provenance"),
 "C05": (" Error-context setters of ErrorStore are unconditional stores.", ""),
 "C06": (" (R3) also the control statements enclosing each symbol slot in the templates are inventoried; (R6) nested plain modules are not analysed and abi_rename accumulators are per impl block (shared with C14/C13).", " + template guard inventory"),
 "C07": (" Kotlin FFI wrapper classes and .toUxxx() conversions have the primitive's width; a parameter loop over a reordered or filtered copy of the parameters is reported.", ""),
 "C08": (" (R4) list-view tags and the runtime's element sizes per tag (found the \"u16\" tag for u32 chars, repaired by a fix: commit); (R3) accumulators start neutral and are written only by the analysed statements; (R7) the reader used for each type kind read out of memory and the field offset applied exactly once.", ""),
 "C09": (" (R5) both payloads of the C result union pass the zero-sized-struct filter, the JS self-import is removed under the emitted name, every extern fn template of the macro carries #[no_mangle] and #cfg; (R6) callback arguments: converting arms of param_conversion convert toward the FFI type (found the Option direction bug, repaired by a fix: commit) and every C++ argument wrapper the cpp backend prints for an accepted callback parameter is one fn_traits::replace handles (three open findings).", " + producer/consumer agreement between gate table, formatter and runtime template"),
 "C10": (" (R7) is_ffi_safe, ffi_safe_version and the macro's return arm split Option payloads into nullable pointer vs record at the same set {&T, Box<T>}; is_ffi_safe table and option-record cache key shared with C05/C07.", " + sibling classification agreement"),
 "C11": (" The JS generator reads an enum stored in memory with the signed reader.", ""),
 "C12": (" (R8) who-may-write inventory: the functions that store the bookkeeping fields or write through buf are exactly the analysed ones. Thorough tier: compile-fail witnesses (fields private, writer cannot be forged) and the same rules on the feature-less runtime build.", " + compile-fail witnesses with twins"),
 "C13": (" (R7) attribute state is not carried from one sibling item to the next: ast::Attrs accumulators and the auto flag are bound inside the loops that use them, and nothing but attribute evaluation happens for a method before its disable test.", " + loop-carried-state analysis"),
 "C14": (" (R5) a scratch buffer that one item loop of a backend's run() resets per item is reset in its sibling loops too.", " + sibling-loop agreement"),
 "C15": (" (R5) the JS generator supplies an allocator for every parameter type whose conversion arm unwraps one; lifetime indices are looked up in the environment they index (shared with C04).", " + producer/consumer agreement"),
 "C16": (" diplomat_is_str is `true` on the null edge and the unmodified core validator otherwise (found the NULL+0 abort, repaired by a fix: commit); diplomat_alloc returns the allocator's pointer on every path and diplomat_free deallocates on every path. Thorough tier: compile-fail witnesses (views cannot be forged, outlive their borrow or be duplicated mutably) and the same rules on the feature-less runtime build.", " + compile-fail witnesses with twins"),
 "C17": (" (R5) CLI and attribute values are parsed as TOML values; (R6) the scan for #[diplomat::config] is exhaustive (no short-circuiting adaptor, break or early return).", ""),
}

# rules added after the third seeding round and the false-alarm (refactoring) corpus
ADD3 = {
 "C01": " (R5) the macro's `repr` flag is set for the `repr` attribute only; (R10) strings written through DiplomatWrite arrive whole (exact capacity test, shared with C12).",
 "C02": " (R4) every return shape with SuccessType::Write yields the written string; a std::function is heap-moved with c_delete (shared C03.R5); include guards come from the full path (shared C09.R3).",
 "C03": " (R3) the callback destructor runs on every path on which it is present; the fixed writer never touches a byte beyond the buffer (shared C12.R6).",
 "C04": " (R1) the receiver is visited for every lifetime-carrying receiver kind, optional slice fields are allocated like plain ones; (R3) the outlives worklist runs until the queue is empty.",
 "C05": " (R3) the macro's struct-field check runs for every non-opaque struct; lifetime traversal rules shared with C04.",
 "C06": " (R1) the rename pattern keeps prefix and suffix; the AST inheritance table of attribute lists (shared C13.R6).",
 "C07": " (R2) a pre-joined getFieldOrder list must derive from the declarations' collection through order-preserving steps; fallible Dart returns are the result record.",
 "C08": " (R8) generated diplomatRuntime call literals agree with the runtime's parameter lists; (R2) the receive buffer is sized for both payloads.",
 "C09": " (R3) types are never named against a throw-away header, include guards use the full path; (R5) Send/Sync emitted independently; fragment-balance analysis of the JS slice conversion over (context x ABI).",
 "C10": " (R5) JS result buffer and option helpers (shared C08).",
 "C11": " (R1) no positional enum conversion in Kotlin generator literals or the JS non-contiguous branch.",
 "C12": " (R1) the capacity test is exactly len + n > cap.",
 "C13": " (R8) inherited attribute lists are append-only, extra backend names are triaged; (R6) AST-level inheritance table.",
 "C14": " (R4) output files are written whole (truncating); sibling-item leakage rule shared with C13.",
 "C15": " (R1) every panic-family site is triaged (variant-selected arms and condition-guarded sites); (R3) `.id().unwrap()` only on custom types; (R6) length guards of first()/last() unwraps evaluated for lengths 0..3, Dart allocator lookups see through DiplomatOption.",
 "C16": " (R1) the empty slice is produced only on the NULL edge.",
 "C17": " (R6) every loop that applies a configuration source runs to completion.",
}
NOT_YET = "rule module not built yet in this round (see DESIGN.md section 4 for the planned static rules)"

ADD4 = {
 "C01": " (R5) the enum template spells #[repr(C)] itself; (R3) the C/C++ struct generators walk every field in order; C/C++ enum templates print every stored discriminant (shared C11.R1).",
 "C02": " (R5) the callback trampoline calls the stored std::function, never a copy; (R3) struct methods are generated after the field phase.",
 "C03": " (R6) every access of a DiplomatResult union arm is dominated by the matching edge of a test of the same object's is_ok (MIR, crate-wide); (R3) generated wrapper closures own the whole DiplomatCallback; alloc/free use the caller's layout (shared C16.R4).",
 "C04": " (R2) lifetime-map entries are recorded under conditions on the lifetimes at hand only; (R3) MIR worklist-exhaustion and selector-table direction rules; (R6) use-lifetime sets consumed whole, Dart typed-list views keep their edges, def-site lifetimes never formatted in a user environment.",
 "C05": " (R3) every test for the name Option reads the same path segment; (R4) where-clause lifetime predicates reach the bounds unconditionally.",
 "C06": " (R1) a symbol is renamed with the item's own merged attributes; (R4) Attrs::add_attr records every attribute kind unconditionally.",
 "C07": " (R2) struct field lists are walked completely and in order (no filter/skip/rev/sort between StructDef.fields and its consumer).",
 "C08": " (R6) scalar count equals the arity of the layout tuple; (R8) size/align locals come from the accessor of the same name; (R9) Struct/OutStruct symmetry; (R3) prev_align is the alignment of the field just laid out.",
 "C09": " (R5) every conversion arm of the JS dispatcher is bracket-balanced under each (context, ABI); (R7) const-qualifier table for &self / self / &mut self, field-phase window of the C++ struct generator, where-clause bounds in the LifetimeEnv (shared C05.R4).",
 "C10": " (R5) the error payload handed to gen_result_ty does not depend on the success type; option reader/writer call positions (shared C08.R8).",
 "C11": " (R1) no enumerator without its value, the loop position is never compared with the discriminant, JS discriminant keys are computed keys; Dart passes enums as Int32 (shared C07.R4).",
 "C12": " (R6) the NUL terminator is stored on every path; (R7) DiplomatWrite::flush runs the installed callback on every path.",
 "C13": " (R4) all type lowerers skip the methods of a disabled type, nothing but bookkeeping precedes a backend loop's disable test, the C formatter applies rename only under is_for_cpp.",
 "C15": " (R1) panic arms narrowed by caller context (a helper's catch-all is selected by what its callers' arms let through); JS layout assertions rest on C08.R3, which is part of this check.",
 "C17": " (R3) the keys a language prefix may override are exactly the keys SharedConfig::set understands.",
}

ADD5 = {
 "C01": " (R3) type ids are positions in unfiltered definition vectors; (R2) accepted Option<non-pointer> parameters keep the DiplomatOption wrapper (abstract interpretation, shared C10.R2).",
 "C02": " (R6) C++ operator names agree with SpecialMethod::operator_str; (R4) per return shape the is_ok flag is tested exactly for fallible and nullable shapes, early returns included.",
 "C03": " (R5) a returned &T / Option<&T> is recorded as borrowed, Box<T> as owned (by the arm that matched); MIR rules run on the function with its private helpers spliced in.",
 "C04": " (R1) every nanobind registration arm passes lifetime_args, the borrow info of every visited value is used (js, dart); (R6) the struct lifetime map is consumed whole, JS struct template reaches fields through the instance.",
 "C08": " (R6) padding is left to the caller iff scalar_count == Scalars(2) (resolved through locals/parameters); (R8) a Layout's size/align goes to the runtime parameter of the same name, append-array spreads tolerate a missing entry; (R9) bool-valued type classifications never look at unwrap_option().",
 "C09": " (R7) every fmt_c_* of the C++ formatter delegates to the C formatter; a C++ header includes its own declaration header first; JS enum keys are computed keys (shared C11.R1).",
 "C10": " (R2) the lowered value of an accepted Option<non-pointer> is DiplomatOption(..), of a pointer the optional opaque (abstract interpretation).",
 "C11": " (R1) Kotlin variant numbers are the variant's discriminant or the position bound with its own name.",
 "C12": " (R7) runtime types are recognised through is_runtime_type in the whole chain of TypeName::from_syn (qualified DiplomatWrite stays a write parameter); paths are filtered for feasibility.",
 "C13": " (R6) every AST constructor adds the item's own attributes; (R3) the condition parser never takes a parsed formula apart; (R7) whole Attrs values are not carried from one module to the next; target routing read from dispatch tables.",
 "C14": " (R2) positional ids; (R1) one spelling per shared config key (shared C17); (R5) module attributes not carried over (shared C13.R7).",
 "C15": " (R3) Result unwraps in the backends are of triaged infallible kinds; (R4) the attribute validator's parameter-count / receiver checks are unconditional within their arm.",
 "C16": " (R7) the JS runtime measures UTF-8 length per code point; (R4) DiplomatOwnedSlice::drop releases as a Box, nothing in the runtime calls diplomat_alloc/free.",
 "C17": " (R5) the value of a #[diplomat::config] entry is the expression's token text (a quoted value stays a string).",
}

ADD6 = {
 "C01": " (R2) the macro leaves a parameter unconverted only if its type already is the C-compatible one (shared C10.R3).",
 "C02": " (R4) the encoding-dependent string-view spellings occur only in the formatter's encoding table; (R6) decl / impl header paths are built alike (shared C09.R3); diplomat_is_str accepts exactly UTF-8 (shared C16.R3).",
 "C03": " (R3) write_str's failed-grow edge and the capacity a new Rust-owned writer publishes (shared C12.R1-R3, R10).",
 "C04": " (R6) a function given the enclosing item's LifetimeEnv names lifetimes through that parameter only; (R1) the JS arena choice for struct fields looks at the option-peeled type.",
 "C05": " (R4) validate_ty_in_method restates the bounds of every lifetime of a type (shared C04.R4).",
 "C06": " (R1) RenameAttr::apply returns a pattern-built name on every path with a pattern; (R2) a generator fills its symbol slot before any return other than the disabled-item one.",
 "C07": " (R1) Dart's string element type is read from wherever gen_slice_element_ty takes it (type-name table or code-unit IntType).",
 "C08": " (R8) size / alignment given to new DiplomatReceiveBuf are Layout::size() / align(), combined by max and + 1 only; (R7) JS enum contiguity (shared C11).",
 "C09": " (R3) fmt_decl_header_path / fmt_impl_header_path apply the same operations; (R6) the macro uses both parts of SelfParam.reference where it takes it apart.",
 "C10": " (R5) option record size formula (shared C08.R2) and the C++ flag tests per return shape (shared C02.R4).",
 "C11": " (R3) an explicit discriminant never falls back to previous + 1; (R1) C++ FromFFI's per-variant switch is unconditional in the template.",
 "C12": " (R10) the capacity published by diplomat_buffer_write_create is the capacity it allocated (symbolic terms).",
 "C13": " (R4) a name formatter that applies attrs.rename applies it on every path (operator names exempt); (R6) attrs_for_inheritance is called with the flag of the field it is called on.",
 "C14": " (R5) a collection created before an item loop and filled inside it is not read inside it.",
 "C15": " (R2) an auto-gated special-method marker is stored only after the backend's support record was asked (and the predicate answers every variant with a flag); (R5) the flattened-list conversion of struct fields is requested under WasmABI::Legacy only; panic-site keys are independent of placeholder spelling.",
 "C16": " (R7) the JS typed-array table has kind and width of the element's wasm32 type (shared C08.R4).",
 "C17": " (R3) nothing removes entries from the language override table.",
}

ADD7 = {
 "C01": " (R3) the C mirror of a trait's vtable lists every trait method (no filter).",
 "C02": " (R1) the UTF-8 validation branch is taken under the type test alone; the validation list reaches the template slot through returned records (provenance); (R6) path_diff, own-declaration-first, enum values (shared C09, C11.R3).",
 "C03": " (R5) a class of the C++ runtime that releases a member in its destructor is not member-wise copyable.",
 "C04": " (R1) a dart/js conversion that recurses into an option's payload forwards its StructBorrowContext; (R6) does_type_use_lifetime_from_set asks Type::lifetimes() only.",
 "C05": " (R4) Param::is_write is true for `&mut DiplomatWrite` only.",
 "C07": " (R2) Kotlin declares every fallible/nullable return as an Option../Result.. record; the JNA vtable mirror lists every trait method (known finding: it filters disabled ones).",
 "C08": " (R3) padding cells = padding / cell width; accumulators recognised by role; (R6) the three ForcePaddingStatus values print three texts; (R8) _intoFFI and _fromFFI consult the same representation flags.",
 "C09": " (R3) one `../` per remaining directory level; rm_forward touches the type's own namespace table; (R2) repr(C) is added exactly when the struct has no repr (shared C01.R5).",
 "C10": " (R5) the C++ option record's flag is x.has_value() alone; diplomat::result accessors (shared C02.R6).",
 "C12": " (R7) lower_return_type writes SuccessType::Unit only where write-or-unit is computed.",
 "C13": " (R4) every walk over all_types()/all_traits() outside the item loop filters on disable; renamed comparators are called by their renamed name (shared C02.R6).",
 "C14": " (R4) fmt_file_name keeps the type name as it is.",
 "C15": " (R3) docs links: trailing path elements reserved = elements taken, per DocType; str::split(..).next_back().unwrap() is not data-dependent; (R1) file names injective (shared C14.R4).",
 "C16": " (R7) runtime.hpp builds a view from a C {data, len} record with both members.",
 "C17": " (R1) gen reads nothing from the configuration before the last source is applied; (R3) SharedConfig::set matches on the key parameter itself.",
}

ADD8 = {
 "C01": " (R3) lower_trait keeps every AST trait method; the C result union leaves out zero-field structs only (shared C09.R5); (R10) every generated writer method flushes (shared C12.R7).",
 "C02": " (R6) the C++ keyword table covers the C++20 reserved words; special members call the generated member by its generated name; the result union filter (shared C09.R4/R5).",
 "C03": " (R4) no template of the macro contains ManuallyDrop / mem::forget / Box::leak.",
 "C04": " (R1) a JS runtime function forwarding a rest parameter of edge arrays spreads it; (R3) is_self = true is passed to lower_generics outright only when lowering a receiver.",
 "C05": " (R3) no arm of lower_self_param reads the backend support profile; (R4) a definition that stores its fields builds its lifetime environment from them.",
 "C06": " (R1) the rename pattern is read after add_attrs was called on the attribute set; (R3) the Kotlin JNA interface declares every generated method (selected on disable only).",
 "C07": " (R2) lower_trait keeps every method; each member of the Kotlin result union is guarded by its own side.",
 "C08": " (R6) every List(<constant status>) site of a top-level argument says NoForce; (R8) _fromFFI stores the raw scalar into a field only under the ownership flag.",
 "C09": " (R5) an import named through fmt_type_name sits next to the disabled-type test (fixed finding 06fe4ce); C++ special members call {{m.method_name}} (fixed finding 2f7f8eb); compound-assignment members are unqualified; `exactly N` checks are inequalities; (R6) the annotated conversion is emitted under a test of the whole type only; (R4) keyword tables are the statics fmt_identifier names.",
 "C10": " (R4/R5) DiplomatOption found by name in any module; union-iff-payload reads a tuple match.",
 "C17": " (R2) a stored value may come from a binding of a pattern matched against the incoming value.",
}

def main():
    props = [json.loads(l) for l in open(os.path.join(V, "properties.jsonl"))]
    checks = []
    na = []
    for p in props:
        pid = p["id"]
        if pid in CLAIMS and os.path.exists(os.path.join(V, "engines", "rules", pid.lower() + ".py")):
            c = CLAIMS[pid]
            checks.append({
                "property_id": pid,
                "quick_cmd": "./check %s quick" % pid,
                "thorough_cmd": "./check %s thorough" % pid,
                "evidence_file": "/verif/evidence/%s.json" % pid,
                "replay_cmd_template": "./check %s quick  # replay file {path} lists the violated rule instances" % pid,
                "engine": "dipfacts+rules",
                "level_claimed": {"category": "other", "text": c["text"] + ADD.get(pid, ("", ""))[0] + ADD3.get(pid, "") + ADD4.get(pid, "") + ADD5.get(pid, "") + ADD6.get(pid, "") + ADD7.get(pid, "") + ADD8.get(pid, ""), "design_ref": "DESIGN.md section 4 " + pid},
                "level_note": c["note"],
                "technique": "static analysis: " + c["technique"] + ADD.get(pid, ("", ""))[1],
            })
        else:
            na.append({"property_id": pid, "reason": CLAIMS.get(pid, {}).get("na", NOT_YET)})
    m = {
        "version": 1,
        "setup_cmd": "./setup.sh",
        "hooks": {"guard": "rust_diplomat_diplomat_verif", "enable": "none needed: the checks analyse /repo's sources as they are (no instrumentation)",
                  "baseline_off_cmd": "cd /repo && cargo test --workspace --no-fail-fast --offline", "source_commits": [], "add_only": True},
        "engines": [
            {"name": "dipfacts", "path": "engines/dipfacts", "serves_properties": [c["property_id"] for c in checks],
             "kind_free_text": "rustc_private driver (RUSTC_WORKSPACE_WRAPPER under cargo +nightly check): typed/resolved HIR trees, MIR, ADT layouts as JSON facts"},
            {"name": "rules", "path": "engines/rules", "serves_properties": [c["property_id"] for c in checks],
             "kind_free_text": "Python rule modules over the facts: decision tables, MIR path/dominance rules on inlined bodies with path feasibility, provenance/flow, loop-carried-state analysis, caller-context narrowing, fragment-balance evaluation, template linter"},
            {"name": "witness", "path": "witness", "serves_properties": ["C03", "C12", "C16"],
             "kind_free_text": "compile-fail doctests with compiling twins (cargo +nightly test --doc), run by the thorough tier"},
        ],
        "checks": checks,
        "not_applicable": na,
        "notes": "All checks are static: nothing from /repo is executed. Facts are re-extracted whenever any source under /repo changes (hash-keyed). The thorough tier adds compile-fail witnesses (C03, C12, C16), a second pass over the feature-less runtime build, and a checker self-test that replays every kept seeded change of the property in a scratch copy of the current tree (informational; it never produces a VIOLATION line).",
    }
    json.dump(m, open(os.path.join(V, "MANIFEST.json"), "w"), indent=1)
    print("claimed:", [c["property_id"] for c in checks], "na:", len(na))
main()

#!/usr/bin/env python3
"""Copy confirmed sub-agent seeds from /tmp/seed into /verif/seeded/<PROP>-<N>/ (patch.diff, demo/, notes.md, meta.json)."""
import json, os, shutil, glob, re, sys
ROOT = os.environ.get("SEEDROOT", "/tmp/seed")
OFFSET = int(os.environ.get("SEED_OFFSET", "0"))
V = os.path.dirname(os.path.dirname(os.path.abspath(__file__)))
for cj in sorted(glob.glob(ROOT + "/C*/out/[0-9]/confirm.json")):
    c = json.load(open(cj))
    src = os.path.dirname(cj)
    if not c.get("confirmed"):
        print("skip (not confirmed on current HEAD):", src)
        continue
    dst = os.path.join(V, "seeded", "%s-%d" % (c["property"], c["mutant"] + OFFSET))
    if os.path.isdir(dst):
        if os.environ.get("SEED_KEEP_EXISTING"):
            continue
        shutil.rmtree(dst)
    os.makedirs(dst)
    shutil.copy(os.path.join(src, "patch.diff"), dst)
    if os.path.exists(os.path.join(src, "notes.md")):
        shutil.copy(os.path.join(src, "notes.md"), dst)
    # demo: skip build outputs / big files
    def ign(d, names):
        return [n for n in names if n in ("target", "work", "node_modules") or n.endswith((".o", ".a", ".so", ".rlib", ".wasm")) or (os.path.isfile(os.path.join(d, n)) and os.path.getsize(os.path.join(d, n)) > 300_000)]
    shutil.copytree(os.path.join(src, "demo"), os.path.join(dst, "demo"), ignore=ign)
    notes = open(os.path.join(src, "notes.md")).read() if os.path.exists(os.path.join(src, "notes.md")) else ""
    files = re.findall(r"^\+\+\+ b/(.*)$", open(os.path.join(src, "patch.diff")).read(), re.M)
    first_para = next((p.strip() for p in notes.split("\n\n") if len(p.strip()) > 40 and not p.startswith("#")), "")[:600]
    meta = {
        "breaks_property": c["property"],
        "files_touched": files,
        "what_it_needs_to_manifest": first_para,
        "confirmed_by_me": {
            "how": "tools/confirm_seed.sh in a fresh scratch worktree of /repo HEAD: demo on clean checkout, git apply, cargo build --workspace, cargo test --workspace, demo with patch",
            "base_commit": c["base_commit"], "patch_applies": bool(c["patch_applies"]), "build_rc": c["build_rc"],
            "tests_passed": c["tests_passed"], "tests_failed": c["tests_failed"],
            "demo_rc_clean": c["demo_rc_clean"], "demo_rc_with_patch": c["demo_rc_with_patch"],
        },
        "origin": "independent sub-agent given only the property text and a scratch worktree",
    }
    json.dump(meta, open(os.path.join(dst, "meta.json"), "w"), indent=1)
    print("imported", dst)

#!/usr/bin/env python3
"""One-off helper that produced spec/panic_arms.json from the extracted inventory plus the triage rules below.
The resulting file is what the check reads; it is frozen and reviewed by hand (this script is kept for provenance)."""
import json, re, sys, os
rows = [json.loads(l[6:]) for l in open(sys.argv[1])]
RULES = [
 # (fn regex, enum, values regex, class, why, needs)
 (r".", "PrimitiveType", r"^Int128$", "excluded-by-property", "128-bit integers are excluded by the property (documented as unsupported)", None),
 (r".", "Slice", r"^Primitive\(_,Int128\)$", "excluded-by-property", "128-bit integer slices are excluded by the property", None),
 (r"dart::.*gen_slice$", "Slice", r"Primitive\(_,Byte\)", "finding", "Dart: `&[DiplomatByte]` reaches fmt_primitive_alloc_in(Byte) = unreachable!(\"custom handling\") / this arm unless a `&[u8]` helper was generated earlier (the helper cache key is shared)", None),
 (r"dart::formatter::DartFormatter::fmt_primitive_alloc_in$", "PrimitiveType", r"^Byte$", "finding", "Dart: gen_slice calls fmt_primitive_alloc_in for DiplomatByte slices: `pub fn f(&self, x: &[DiplomatByte])` alone panics with \"custom handling\"", None),
 (r"(dart|js)::", "MaybeStatic", r"^Static$", "finding", "`&'static Opaque` in a signature (e.g. `pub fn global() -> &'static Foo`) passes lowering (only 'static *slices* are gated by static_slices) and this backend panics with \"'static not supported\"", None),
 (r"c::formatter::CFormatter::fmt_optional_type_name$", "StringEncoding", r"^Utf8$", "finding", "`Option<&[DiplomatUtf8StrSlice]>` parameter: unimplemented!(\"Utf8 StringEncoding unsupported\") in the C, C++ and nanobind backends", None),
 (r"c::formatter::CFormatter::fmt_optional_type_name$", "Type", r".", "impossible-by-gate", "the gate never builds DiplomatOption around Opaque (optional opaques are Opaque{Optional(true)}), another DiplomatOption, a callback or a trait (C05 cells opt(opt), opt(named:Q), opt(fn) = reject)", None),
 (r"c::ty::TyGenContext::gen_ty_name$", "Type", r"^Callback$", "guarded", "gen_ty_decl intercepts Type::Callback before calling gen_ty_name; the other callers pass struct-field, out or callback-parameter types, which cannot be callbacks (C05: fn only in param position)", None),
 (r"cpp::ty::TyGenContext::gen_c_to_cpp_for_type$", "Type", r".", "impossible-by-gate", "output position: callbacks/traits are input-only by type (NoCallback/NoTraitPath) and Slice::Strs is rejected in outputs (C05 ret/ofield strs = reject)", None),
 (r"cpp::|nanobind::", "Type", r"^ImplTrait$", "impossible-by-gate", "traits = false for this backend: lower_type pushes \"Traits are not supported by this backend\"", {"flag": "traits", "value": False}),
 (r"(dart|js)::", "Type", r"^Callback\+ImplTrait$", "impossible-by-gate", "callbacks = false and traits = false for this backend (and out/field positions cannot hold them by type)", {"flag": "callbacks", "value": False}),
 (r"demo_gen::", "Type", r"^Callback\+ImplTrait$", "impossible-by-gate", "demo_gen declares callbacks = false and traits = false", {"flag": "callbacks", "value": False}),
 (r"(dart|js)::.*", "TypeDef", r"^Enum\+Opaque$", "impossible-by-type", "the id comes from a StructPath / struct TypeId: resolve_type returns Struct or OutStruct", None),
 (r"js::.*gen_c_to_js_deref_for_type$", "TypeId", r"^Enum\+Opaque$", "impossible-by-type", "the id is StructPathLike::id() of a struct path", None),
 (r"js::layout::type_size_alignment_and_scalar_count$", "TypeDef", r"^Enum\+Opaque$", "impossible-by-type", "the id is StructPathLike::id() of a struct path", None),
 (r"js::layout::type_size_alignment_and_scalar_count$", "Type", r"^Callback\+ImplTrait$", "impossible-by-gate", "callbacks = false and traits = false for js", {"flag": "callbacks", "value": False}),
 (r"js::.*", "JsToCConversionContext", r"^SlicePrealloc$", "guarded", "SlicePrealloc is only passed by gen_js_to_c_for_type for primitive/str slices of list parameters; structs, options and write-wrapping are never generated in that mode (call sites pass List/WriteToBuffer)", None),
 (r"(dart::TyGenContext::gen_method_info::alloc_name|js::gen::TyGenContext::generate_method)$", "ParamBorrowInfo", r".", "guarded", "visit_param returns only TemporarySlice/BorrowedSlice for slice types, also under DiplomatOption after fix a190f3f (C04.R2)", None),
 (r"js::.*gen_c_to_js_for_return_type$", "ReturnType", r".", "guarded", "nested match under an outer arm that already selected Fallible/Nullable: the remaining values cannot occur in the inner match", None),
 (r"kotlin::", "Type", r"DiplomatOption", "impossible-by-gate", "kotlin declares option = false: Option<primitive/struct/enum/slice> is rejected during lowering (slices since fix e9bd5e6); callbacks/traits cannot occur in fields/outputs by type", {"flag": "option", "value": False}),
 (r"kotlin::TyGenContext::gen_return_type_name_ffi$", "ReturnType", r".", "impossible-by-gate", "kotlin option = false rejects DiplomatOption payloads; callbacks/traits are input-only", {"flag": "option", "value": False}),
 (r"kotlin::TyGenContext::gen_return_type_name_ffi$", "SuccessType", r".", "guarded", "inner match under an outer arm that matched Nullable(OutType(Struct|Enum|Primitive))", None),
 (r"kotlin::TyGenContext::gen_slice_return_conversion$", "Slice", r"^Strs$", "impossible-by-gate", "Slice::Strs is rejected in output position (C05 ret strs = reject)", None),
 (r"kotlin::TyGenContext::(gen_method|gen_trait_method_info)$", "Type", r"Slice\(Str\)", "finding", "Kotlin: a callback / trait-method parameter of type &str (`impl Fn(&str)`) is accepted by lowering (lower_out_type accepts borrowed str) and panics with \"Non-primitive slices are not allowed as callback args\"", None),
 (r"kotlin::TyGenContext::gen_method$", "ReturnType", r"^Fallible$", "finding", "Kotlin: `#[diplomat::attr(auto, indexer)] pub fn get(&self, i: usize) -> Result<u8, ()>` passes validation (Indexer only needs a non-unit value) and panics with \"non_option_type_name should only be called for a return type that is optional\"", None),
 (r"core::|diplomat_core::hir::methods::borrowing_param", "Type", r".", "guarded", "after fix a190f3f `ty` is unwrap_option()ed; only Slice/Opaque/Struct carry lifetimes (Type::lifetimes yields nothing for the other variants), nested options are rejected by the gate", None),
]
out = {}
for e in rows:
    key = "%s/%s/%s" % (e["fn"], e["enum"], "+".join(e["values"]))
    vals = "+".join(e["values"])
    hit = None
    for fr, en, vr, cls, why, needs in RULES:
        if re.search(fr, e["fn"]) and en == e["enum"] and re.search(vr, vals):
            hit = {"class": cls, "why": why}
            if needs:
                hit["needs"] = needs
            break
    if not hit:
        hit = {"class": "UNTRIAGED", "why": ""}
    hit["macro"] = e["macro"]
    out[key] = hit
json.dump({"comment": "Triage of every panic!/unreachable!/unimplemented!/todo! arm in the backends (and hir::methods) that is selected by a real variant of an HIR or backend-local enum. class: excluded-by-property | impossible-by-type | impossible-by-gate | guarded | finding. `needs` names the backend support flag that R2 cross-checks.", "arms": out}, open(os.path.join(os.path.dirname(__file__), "..", "spec", "panic_arms.json"), "w"), indent=1, sort_keys=True)
print(sum(1 for v in out.values() if v["class"] == "UNTRIAGED"), "untriaged of", len(out))
for k, v in out.items():
    if v["class"] == "UNTRIAGED": print(" ", k)

#!/bin/bash
# seed_matrix.sh [seed dirs...] : run every check against every seeded change (apply to /repo, run, undo); writes seeded/RESULTS.json
cd /verif
out=/verif/seeded/RESULTS.jsonl; : > $out
seeds=${@:-$(ls -d /verif/seeded/C*-*)}
for s in $seeds; do
  name=$(basename $s)
  if ! git -C /repo diff --quiet; then echo "repo dirty"; exit 2; fi
  if ! git -C /repo apply $s/patch.diff 2>/dev/null; then echo "{\"seed\":\"$name\",\"error\":\"patch does not apply\"}" >> $out; continue; fi
  line="{\"seed\":\"$name\",\"fired\":{"
  first=1
  for i in 01 02 03 04 05 06 07 08 09 10 11 12 13 14 15 16 17; do
    r=$(./check C$i quick 2>&1)
    if echo "$r" | grep -q "^VIOLATION"; then
      keys=$(echo "$r" | grep "FAIL" | sed -E 's/^ *FAIL ([^ ]+).*/\1/' | head -4 | tr '\n' ';' | sed 's/"/\\"/g')
      [ $first = 0 ] && line="$line,"; first=0
      line="$line\"C$i\":\"$keys\""
    fi
  done
  line="$line}}"
  echo "$line" >> $out
  git -C /repo apply -R $s/patch.diff; git -C /repo checkout -- .
  echo "$name done"
done

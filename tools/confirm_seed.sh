#!/bin/bash
# confirm_seed.sh <PROP> <N> : independently confirm a sub-agent's seeded change in a fresh scratch worktree of /repo HEAD:
#   patch applies, workspace builds, unedited test suite passes, demo fails WITH the patch and passes WITHOUT it.
# Writes $SEEDROOT/<PROP>/out/<N>/confirm.json (SEEDROOT defaults to /tmp/seed) ; removes the scratch worktree afterwards.
set -u
P=$1; N=$2
SEEDROOT=${SEEDROOT:-/tmp/seed}
SRC=$SEEDROOT/$P/out/$N
WT=/tmp/seedconfirm/$P-$N
LOG=$SRC/confirm.log
mkdir -p /tmp/seedconfirm
rm -rf "$WT"; git -C /repo worktree prune
git -C /repo worktree add --detach "$WT" HEAD -q || exit 2
: > "$LOG"
res() { echo "$1" >> "$LOG"; }
cd "$WT"; mkdir -p "$WT/target"
export CARGO_NET_OFFLINE=true
# 1. demo on the clean checkout
( bash "$SRC/demo/run.sh" "$WT" ) >> "$LOG" 2>&1; clean_rc=$?
res "DEMO_CLEAN_RC=$clean_rc"
# 2. apply patch
if git apply "$SRC/patch.diff" >> "$LOG" 2>&1; then applies=1; else applies=0; fi
res "APPLIES=$applies"
build_rc=-1; test_pass=-1; test_fail=-1; mut_rc=-1
if [ $applies = 1 ]; then
  cargo build --workspace --offline -j 8 >> "$LOG" 2>&1; build_rc=$?
  cargo test --workspace --no-fail-fast --offline -j 8 > "$LOG.tests" 2>&1
  test_pass=$(grep -E "^test result" "$LOG.tests" | awk '{p+=$4} END {print p+0}')
  test_fail=$(grep -E "^test result" "$LOG.tests" | awk '{f+=$6} END {print f+0}')
  ( bash "$SRC/demo/run.sh" "$WT" ) >> "$LOG" 2>&1; mut_rc=$?
fi
res "BUILD_RC=$build_rc TEST_PASS=$test_pass TEST_FAIL=$test_fail DEMO_MUTANT_RC=$mut_rc"
head_sha=$(git -C /repo rev-parse --short HEAD)
cat > "$SRC/confirm.json" <<J
{"property": "$P", "mutant": $N, "base_commit": "$head_sha", "patch_applies": $applies, "build_rc": $build_rc,
 "tests_passed": $test_pass, "tests_failed": $test_fail, "demo_rc_clean": $clean_rc, "demo_rc_with_patch": $mut_rc,
 "confirmed": $( [ $applies = 1 ] && [ $build_rc = 0 ] && [ "$test_fail" = 0 ] && [ "$test_pass" -ge 69 ] && [ $clean_rc = 0 ] && [ $mut_rc != 0 ] && echo true || echo false )}
J
cd /
git -C /repo worktree remove --force "$WT"
cat "$SRC/confirm.json"

#!/bin/bash
# seedtest.sh <patch.diff> <prop> [<prop>...] : apply a seeded change to /repo, run the named checks, undo it.
set -u
patch="$1"; shift
cd /repo || exit 2
if ! git diff --quiet; then echo "repo dirty; refusing"; exit 2; fi
git apply "$patch" || { echo "patch does not apply"; exit 2; }
trap 'git -C /repo apply -R "$patch"; git -C /repo checkout -- . ; git -C /repo status --short | head -3' EXIT
cd /verif
for p in "$@"; do
  ./check "$p" quick 2>&1 | grep -E "FAIL|VIOLATION|OK —|violations" | cut -c1-400
done

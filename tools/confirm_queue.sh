#!/bin/bash
# confirm_queue.sh : confirm every not-yet-confirmed seed under $SEEDROOT (two at a time)
export SEEDROOT=${SEEDROOT:-/tmp/seed2}
todo=()
for d in $SEEDROOT/C*/out/[0-9]; do
  [ -f $d/patch.diff ] && [ -f $d/demo/run.sh ] && [ ! -f $d/confirm.json ] && todo+=("$d")
done
printf '%s\n' "${todo[@]}" | xargs -P 2 -I{} bash -c 'd={}; p=$(basename $(dirname $(dirname $d))); n=$(basename $d); /verif/tools/confirm_seed.sh $p $n > /dev/null 2>&1; echo "$p-$n $(grep -o "\"confirmed\": [a-z]*" $d/confirm.json)"'

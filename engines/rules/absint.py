"""Abstract interpreter for diplomat's lowering gate.

Interprets the typed HIR trees of `lower_type`, `lower_out_type`, `lower_return_type`, `lower_self_param`,
`lower_callback_param`, `TypeName::is_ffi_safe` … over a finite abstract domain of type shapes
(constructor trees of ast::TypeName, the kind of a named custom type, stdlib/diplomat spelling, a few flags).
It enumerates every path of the loop-free match/if tree for a given abstract input and reports whether an error
is pushed (reject), `Ok` is produced without an error (accept), or a panic is reached.  Nothing is executed:
the functions' bodies are walked as data; unknown sub-expressions evaluate to `unk` and make both branches explored.
"""
import re
import common as C

UNK = ("unk",)
TN = "diplomat_core::ast::types::TypeName"
SOD = "diplomat_core::ast::types::StdlibOrDiplomat"
CT = "diplomat_core::ast::types::CustomType"
OPT = "core::option::Option"
RES = "core::result::Result"


def E(adt, variant, *subs):
    return ("enum", adt, variant, tuple(subs))


def B(v):
    return ("bool", bool(v))


def some(x):
    return E(OPT, "Some", x)


NONE = E(OPT, "None")


def ok(x=UNK):
    return E(RES, "Ok", x)


ERR = E(RES, "Err", ("tuple", ()))


def cust(kind):
    """&ast::Struct / &OpaqueType / &Enum with the attributes the gate looks at.  kind: S struct, Z zero-field struct, O out struct, Q opaque, N enum"""
    return ("cust", kind)


def path(kind):
    return ("path", kind)


# ---- TypeName constructors (abstract)
def t_prim():
    return E(TN, "Primitive", UNK)


def t_named(kind):
    return E(TN, "Named", path(kind))


def t_selfty(kind):
    return E(TN, "SelfType", path(kind))


def t_ref(inner, static=False):
    return E(TN, "Reference", ("lt", "static" if static else "named"), UNK, inner)


def t_box(inner):
    return E(TN, "Box", inner)


def t_opt(inner, std=True):
    return E(TN, "Option", inner, E(SOD, "Stdlib" if std else "Diplomat"))


def t_res(okv, errv, std=True):
    return E(TN, "Result", okv, errv, E(SOD, "Stdlib" if std else "Diplomat"))


def t_str(lt="named", std=True):
    return E(TN, "StrReference", NONE if lt is None else some(("lt", lt)), UNK, E(SOD, "Stdlib" if std else "Diplomat"))


def t_strs(std=True):
    return E(TN, "StrSlice", UNK, E(SOD, "Stdlib" if std else "Diplomat"))


def t_pslice(lt="named", std=True):
    return E(TN, "PrimitiveSlice", NONE if lt is None else some(("tuple", (("lt", lt), UNK))), UNK, E(SOD, "Stdlib" if std else "Diplomat"))


def t_fn(inputs, out):
    return E(TN, "Function", ("list", tuple(inputs)), out, UNK)


T_UNIT = E(TN, "Unit")
T_WRITE = E(TN, "Write")
T_ORD = E(TN, "Ordering")


def t_trait():
    return E(TN, "ImplTrait", path("T"))


def show(v):
    if v[0] == "enum":
        name = v[2]
        if v[1] == SOD:
            return "std" if name == "Stdlib" else "dip"
        if v[1] == OPT:
            return "None" if name == "None" else "Some(%s)" % show(v[3][0])
        subs = [show(s) for s in v[3] if s != UNK]
        return name + ("(" + ",".join(subs) + ")" if subs else "")
    if v[0] == "path":
        return {"S": "struct", "Z": "zst", "O": "outstruct", "Q": "opaque", "N": "enum", "T": "trait"}.get(v[1], v[1])
    if v[0] == "lt":
        return "'" + v[1]
    if v[0] == "list":
        return "[" + ",".join(show(x) for x in v[1]) + "]"
    if v[0] == "tuple":
        return "(" + ",".join(show(x) for x in v[1] if x != UNK) + ")"
    if v[0] == "bool":
        return str(v[1])
    return "_"


class Outcome:
    __slots__ = ("val", "pushes", "ctl", "notes")

    def __init__(self, val, pushes=(), ctl=None, notes=()):
        self.val = val
        self.pushes = tuple(pushes)
        self.ctl = ctl
        self.notes = tuple(notes)

    def key(self):
        return (self.val, self.pushes, self.ctl, self.notes)


class Interp:
    def __init__(self, unit, support=None, cfg=None, depth_limit=12):
        self.unit = unit
        self.support = support or {}
        self.cfg = cfg or {}
        self.default_support = True
        self.memo = {}
        self.depth_limit = depth_limit
        self.trace_unknown = set()
        self.closures = {}
        self.position = "InputOnly"

    # ------------------------------------------------------------ function calls
    def call(self, fn_suffix, args, depth=0):
        """args: list of abstract values for the fn's parameters *after* self (positional)."""
        key = (fn_suffix, tuple(args))
        if key in self.memo:
            return self.memo[key]
        if depth > self.depth_limit:
            return [Outcome(UNK, notes=("depth",))]
        f = self.unit.fn(fn_suffix)
        params = f["hir"]["params"]
        env = {}
        vals = list(args)
        pi = 0
        for i, p in enumerate(params):
            if p.get("k") == "bind" and p.get("n") == "self":
                if f.get("impl_self", "").endswith("TypeName") or "TypeName" in (f.get("inputs") or [""])[0]:
                    # method on TypeName: first arg is self
                    env[p["id"]] = vals[pi] if pi < len(vals) else UNK
                    pi += 1
                else:
                    env[p["id"]] = ("selfctx",)
                continue
            v = vals[pi] if pi < len(vals) else UNK
            pi += 1
            self.bind(p, v, env)
        outs = self.ev(f["hir"]["body"], env, depth)
        res = []
        for o, _ in outs:
            if o.ctl == "return":
                res.append(Outcome(o.val, o.pushes, None, o.notes))
            elif o.ctl in ("break", "continue"):
                res.append(Outcome(UNK, o.pushes, None, o.notes + ("stray-" + o.ctl,)))
            else:
                res.append(o)
        res = self.dedupe_o(res)
        self.memo[key] = res
        return res

    @staticmethod
    def dedupe_o(outs):
        seen = {}
        for o in outs:
            seen.setdefault(o.key(), o)
        return list(seen.values())

    @staticmethod
    def dedupe(pairs):
        seen = {}
        for o, env in pairs:
            k = (o.key(), tuple(sorted((k_, repr(v)) for k_, v in env.items())))
            seen.setdefault(k, (o, env))
        return list(seen.values())

    # ------------------------------------------------------------ patterns
    def bind(self, p, v, env):
        """bind pattern p to value v assuming it matches"""
        st, b = self.pmatch(p, v)
        env.update(b)

    def pmatch(self, p, v):
        """-> (status in 'yes'|'no'|'maybe', bindings)"""
        k = p.get("k")
        if k == "wild" or k is None:
            return "yes", {}
        if k == "bind":
            b = {p["id"]: v}
            if p.get("sub"):
                st, b2 = self.pmatch(p["sub"], v)
                b.update(b2)
                return st, b
            return "yes", b
        if k == "ref":
            return self.pmatch(p["sub"], v)
        if k == "or":
            maybe = None
            for a in p["alts"]:
                st, b = self.pmatch(a, v)
                if st == "yes":
                    return st, b
                if st == "maybe" and maybe is None:
                    maybe = b
            if maybe is not None:
                return "maybe", maybe
            return "no", {}
        if k == "tuple":
            if v[0] != "tuple":
                b = {}
                for s in p["sub"]:
                    _, bb = self.pmatch(s, UNK)
                    b.update(bb)
                return ("maybe" if v == UNK else "maybe"), b
            subs = list(v[1])
            return self._match_seq(p["sub"], subs, p.get("dd"))
        if k == "variant":
            if v[0] == "cust" or v[0] == "path":
                # struct pattern on an opaque abstract object
                b = {}
                for s in p.get("sub", []):
                    b.update(self.pmatch(s, UNK)[1])
                for f in p.get("fields", []):
                    b.update(self.pmatch(f["p"], UNK)[1])
                return "maybe", b
            if v[0] != "enum":
                b = {}
                for s in p.get("sub", []):
                    b.update(self.pmatch(s, UNK)[1])
                for f in p.get("fields", []):
                    b.update(self.pmatch(f["p"], UNK)[1])
                return "maybe", b
            if not p.get("enum"):
                # struct (non-enum) pattern: always matches structurally
                b = {}
                for s in p.get("sub", []):
                    b.update(self.pmatch(s, UNK)[1])
                return "yes", b
            if p.get("v") != v[2]:
                return "no", {}
            subs = list(v[3])
            if "fields" in p and p["fields"]:
                b = {}
                st = "yes"
                for f in p["fields"]:
                    idx = int(f["n"]) if f["n"].isdigit() else None
                    sv = subs[idx] if idx is not None and idx < len(subs) else UNK
                    s2, b2 = self.pmatch(f["p"], sv)
                    b.update(b2)
                    if s2 == "no":
                        return "no", {}
                    if s2 == "maybe":
                        st = "maybe"
                return st, b
            return self._match_seq(p.get("sub", []), subs, p.get("dd"))
        if k in ("lit", "constpat", "range", "slice"):
            return "maybe", {}
        return "maybe", {}

    def _match_seq(self, pats, subs, dd):
        if dd is None:
            pairs = list(zip(pats, subs + [UNK] * (len(pats) - len(subs))))
        else:
            tail = len(pats) - dd
            pairs = list(zip(pats[:dd], subs[:dd])) + (list(zip(pats[dd:], subs[len(subs) - tail:])) if tail else [])
        st = "yes"
        b = {}
        for pp, sv in pairs:
            s2, b2 = self.pmatch(pp, sv)
            b.update(b2)
            if s2 == "no":
                return "no", {}
            if s2 == "maybe":
                st = "maybe"
        return st, b

    # ------------------------------------------------------------ evaluation
    def seq(self, nodes, env, depth):
        """evaluate nodes in order; returns list of (Outcome(last value), env)"""
        states = [(Outcome(("tuple", ())), env)]
        for n in nodes:
            nxt = []
            for o, e in states:
                if o.ctl:
                    nxt.append((o, e))
                    continue
                for o2, e2 in self.ev(n, e, depth):
                    nxt.append((Outcome(o2.val, o.pushes + o2.pushes, o2.ctl, o.notes + o2.notes), e2))
            states = self.dedupe(nxt)
            if len(states) > 400:
                states = states[:400]
        return states

    def ev_args(self, nodes, env, depth):
        """evaluate argument expressions left to right -> list of (vals tuple, pushes, ctl, notes, env)"""
        states = [((), (), None, (), env)]
        for n in nodes:
            nxt = []
            for vals, pushes, ctl, notes, e in states:
                if ctl:
                    nxt.append((vals, pushes, ctl, notes, e))
                    continue
                for o2, e2 in self.ev(n, e, depth):
                    nxt.append((vals + (o2.val,), pushes + o2.pushes, o2.ctl, notes + o2.notes, e2))
            states = nxt[:400]
        return states

    def truth(self, v):
        if v[0] == "bool":
            return v[1]
        return None

    def ev(self, n, env, depth=0):
        """-> list of (Outcome, env)"""
        if not isinstance(n, dict):
            return [(Outcome(UNK), env)]
        k = n.get("k")
        if k == "macro":
            name = n.get("name")
            if name in ("panic", "unreachable", "unimplemented", "todo"):
                return [(Outcome(UNK, (), "panic", ("%s!: %s" % (name, (C.macro_strings(n) or [""])[0][:60]),)), env)]
            if name == "matches":
                return self.ev(n["inner"], env, depth)
            if name in ("format", "vec", "write", "writeln", "println", "eprintln", "debug_assert", "assert", "assert_eq", "debug_assert_eq"):
                return [(Outcome(UNK), env)]
            return self.ev(n["inner"], env, depth)
        if k == "lit":
            if n.get("t") == "bool":
                return [(Outcome(B(n["v"])), env)]
            return [(Outcome(UNK), env)]
        if k == "local":
            return [(Outcome(env.get(n["id"], UNK)), env)]
        if k in ("addr", "use", "type", "semi"):
            return self.ev(n["e"], env, depth)
        if k == "un":
            if n.get("op") == "Deref":
                return self.ev(n["e"], env, depth)
            res = []
            for o, e in self.ev(n["e"], env, depth):
                if o.ctl:
                    res.append((o, e))
                    continue
                if n.get("op") == "Not":
                    t = self.truth(o.val)
                    res.append((Outcome(B(not t) if t is not None else UNK, o.pushes, None, o.notes), e))
                else:
                    res.append((Outcome(UNK, o.pushes, None, o.notes), e))
            return res
        if k == "block":
            items = list(n.get("s") or [])
            states = self.seq(items, env, depth)
            if n.get("e") is None:
                return [(Outcome(("tuple", ()) if not o.ctl else o.val, o.pushes, o.ctl, o.notes), e) for o, e in states]
            res = []
            for o, e in states:
                if o.ctl:
                    res.append((o, e))
                    continue
                for o2, e2 in self.ev(n["e"], e, depth):
                    res.append((Outcome(o2.val, o.pushes + o2.pushes, o2.ctl, o.notes + o2.notes), e2))
            return self.dedupe(res)
        if k == "letst":
            if n.get("init") is None:
                return [(Outcome(("tuple", ())), env)]
            res = []
            for o, e in self.ev(n["init"], env, depth):
                if o.ctl:
                    res.append((o, e))
                    continue
                st, b = self.pmatch(n["pat"], o.val)
                if n.get("els") is not None and st != "yes":
                    # let-else: the else block diverges
                    for o3, e3 in self.ev(n["els"], e, depth):
                        res.append((Outcome(o3.val, o.pushes + o3.pushes, o3.ctl or "panic", o.notes + o3.notes), e3))
                    if st == "no":
                        continue
                e2 = dict(e)
                e2.update(b)
                res.append((Outcome(("tuple", ()), o.pushes, None, o.notes), e2))
            return res
        if k == "ret":
            if n.get("e") is None:
                return [(Outcome(("tuple", ()), (), "return"), env)]
            return [(Outcome(o.val, o.pushes, o.ctl or "return", o.notes), e) for o, e in self.ev(n["e"], env, depth)]
        if k == "break":
            return [(Outcome(UNK, (), "break"), env)]
        if k == "continue":
            return [(Outcome(UNK, (), "continue"), env)]
        if k == "try":
            res = []
            for o, e in self.ev(n["e"], env, depth):
                if o.ctl:
                    res.append((o, e))
                    continue
                v = o.val
                if v[0] == "enum" and v[1] == RES:
                    if v[2] == "Ok":
                        res.append((Outcome(v[3][0] if v[3] else UNK, o.pushes, None, o.notes), e))
                    else:
                        res.append((Outcome(ERR, o.pushes, "return", o.notes), e))
                elif v[0] == "enum" and v[1] == OPT:
                    if v[2] == "Some":
                        res.append((Outcome(v[3][0], o.pushes, None, o.notes), e))
                    else:
                        res.append((Outcome(NONE, o.pushes, "return", o.notes), e))
                else:
                    res.append((Outcome(UNK, o.pushes, None, o.notes), e))
                    res.append((Outcome(ERR, o.pushes, "return", o.notes + ("?-on-unknown",)), e))
            return res
        if k == "if":
            c = C.strip_keep_macro(n["c"])
            if isinstance(c, dict) and c.get("k") == "let":
                res = []
                for o, e in self.ev(c["init"], env, depth):
                    if o.ctl:
                        res.append((o, e))
                        continue
                    st, b = self.pmatch(c["pat"], o.val)
                    if st in ("yes", "maybe"):
                        e2 = dict(e)
                        e2.update(b)
                        for o2, e3 in self.ev(n["t"], e2, depth):
                            res.append((Outcome(o2.val, o.pushes + o2.pushes, o2.ctl, o.notes + o2.notes), e3))
                    if st in ("no", "maybe"):
                        if n.get("e") is not None:
                            for o2, e3 in self.ev(n["e"], e, depth):
                                res.append((Outcome(o2.val, o.pushes + o2.pushes, o2.ctl, o.notes + o2.notes), e3))
                        else:
                            res.append((Outcome(("tuple", ()), o.pushes, None, o.notes), e))
                return self.dedupe(res)
            res = []
            for o, e in self.ev(n["c"], env, depth):
                if o.ctl:
                    res.append((o, e))
                    continue
                t = self.truth(o.val)
                if t is None:
                    self.trace_unknown.add("if@%s" % n.get("ln"))
                if t in (True, None):
                    for o2, e2 in self.ev(n["t"], e, depth):
                        res.append((Outcome(o2.val, o.pushes + o2.pushes, o2.ctl, o.notes + o2.notes), e2))
                if t in (False, None):
                    if n.get("e") is not None:
                        for o2, e2 in self.ev(n["e"], e, depth):
                            res.append((Outcome(o2.val, o.pushes + o2.pushes, o2.ctl, o.notes + o2.notes), e2))
                    else:
                        res.append((Outcome(("tuple", ()), o.pushes, None, o.notes), e))
            return self.dedupe(res)
        if k == "match":
            res = []
            for o, e in self.ev(n["s"], env, depth):
                if o.ctl:
                    res.append((o, e))
                    continue
                matched = False
                for arm in n["arms"]:
                    st, b = self.pmatch(arm["pat"], o.val)
                    if st == "no":
                        continue
                    e2 = dict(e)
                    e2.update(b)
                    gstates = [(Outcome(B(True)), e2)]
                    if arm.get("g"):
                        gstates = self.ev(arm["g"], e2, depth)
                    definite = False
                    for go, ge in gstates:
                        t = self.truth(go.val)
                        if t is False:
                            continue
                        for o2, e3 in self.ev(arm["b"], ge, depth):
                            res.append((Outcome(o2.val, o.pushes + go.pushes + o2.pushes, o2.ctl, o.notes + o2.notes), e3))
                        if t is True and st == "yes":
                            definite = True
                    if definite:
                        matched = True
                        break
                if not matched and not any(True for _ in res):
                    res.append((Outcome(UNK, o.pushes, None, o.notes + ("no-arm",)), e))
            return self.dedupe(res)
        if k == "bin":
            op = n.get("op")
            if op in ("And", "Or"):
                res = []
                for o, e in self.ev(n["l"], env, depth):
                    if o.ctl:
                        res.append((o, e))
                        continue
                    t = self.truth(o.val)
                    if (op == "And" and t is False) or (op == "Or" and t is True):
                        res.append((o, e))
                        continue
                    for o2, e2 in self.ev(n["r"], e, depth):
                        t2 = self.truth(o2.val)
                        if t is None:
                            if op == "And":
                                v = B(False) if t2 is False else UNK
                            else:
                                v = B(True) if t2 is True else UNK
                        else:
                            v = o2.val if t2 is not None else UNK
                        res.append((Outcome(v, o.pushes + o2.pushes, o2.ctl, o.notes + o2.notes), e2))
                return res
            if op in ("Eq", "Ne"):
                res = []
                for vals, pushes, ctl, notes, e in self.ev_args([n["l"], n["r"]], env, depth):
                    if ctl:
                        res.append((Outcome(UNK, pushes, ctl, notes), e))
                        continue
                    a, b = vals
                    v = UNK
                    if a[0] == "enum" and b[0] == "enum" and a[1] == b[1] and not a[3] and not b[3]:
                        v = B((a[2] == b[2]) == (op == "Eq"))
                    res.append((Outcome(v, pushes, None, notes), e))
                return res
            return self._effects([n["l"], n["r"]], env, depth)
        if k == "def":
            ctor = n.get("ctor")
            if ctor and n.get("dk", "").startswith("Ctor"):
                adt, var = ctor.rsplit("::", 1)
                if not n.get("dk", "").startswith("Ctor(Variant"):
                    return [(Outcome(UNK), env)]
                return [(Outcome(E(adt, var)), env)]
            return [(Outcome(UNK), env)]
        if k == "tup":
            res = []
            for vals, pushes, ctl, notes, e in self.ev_args(n["a"], env, depth):
                res.append((Outcome(("tuple", vals) if not ctl else UNK, pushes, ctl, notes), e))
            return res
        if k == "field":
            res = []
            for o, e in self.ev(n["e"], env, depth):
                v = UNK
                if o.val[0] == "cust" and n["n"] == "fields":
                    v = ("fields_of", o.val[1])
                elif o.val[0] == "rec":
                    v = dict(o.val[1]).get(n["n"], UNK)
                elif o.val[0] == "selfctx" or o.val[0] == "ctxfield":
                    v = ("ctxfield", n["n"])
                elif o.val[0] == "tuple" and n["n"].isdigit() and int(n["n"]) < len(o.val[1]):
                    v = o.val[1][int(n["n"])]
                res.append((Outcome(v, o.pushes, o.ctl, o.notes), e))
            return res
        if k == "call":
            return self.ev_call(n, env, depth)
        if k == "mcall":
            return self.ev_mcall(n, env, depth)
        if k == "for":
            return self.ev_for(n, env, depth)
        if k == "closure":
            cid = len(self.closures)
            self.closures[cid] = (n, dict(env))
            return [(Outcome(("closure", cid), (), None), env)]
        if k == "struct":
            return self._effects([f["e"] for f in n.get("fields", [])], env, depth)
        if k == "cast":
            return self._effects([n["e"]], env, depth)
        if k == "assign":
            res = []
            for o, e in self.ev(n["r"], env, depth):
                l = C.strip(n["l"])
                e2 = e
                if isinstance(l, dict) and l.get("k") == "local" and not o.ctl:
                    e2 = dict(e)
                    e2[l["id"]] = o.val
                res.append((Outcome(("tuple", ()), o.pushes, o.ctl, o.notes), e2))
            return res
        if k == "let":
            # bare `let` in a chain: treat as unknown condition, bind pattern
            res = []
            for o, e in self.ev(n["init"], env, depth):
                st, b = self.pmatch(n["pat"], o.val)
                e2 = dict(e)
                e2.update(b)
                res.append((Outcome(B(True) if st == "yes" else (B(False) if st == "no" else UNK), o.pushes, o.ctl, o.notes), e2))
            return res
        if k == "loop":
            return [(Outcome(UNK, (), None, ("loop",)), env)]
        # default: evaluate children for effects
        return self._effects(list(C.children(n)), env, depth)

    def _effects(self, nodes, env, depth):
        res = []
        for vals, pushes, ctl, notes, e in self.ev_args(nodes, env, depth):
            res.append((Outcome(UNK, pushes, ctl, notes), e))
        return res or [(Outcome(UNK), env)]

    # ------------------------------------------------------------ calls
    def ev_call(self, n, env, depth):
        ctor = n.get("ctor")
        p = C.callee(n) or ""
        res = []
        for vals, pushes, ctl, notes, e in self.ev_args(n.get("a", []), env, depth):
            if ctl:
                res.append((Outcome(UNK, pushes, ctl, notes), e))
                continue
            if ctor:
                adt, var = ctor.rsplit("::", 1)
                fdk = (n.get("f") or {}).get("dk", "")
                if fdk.startswith("Ctor(Variant"):
                    res.append((Outcome(E(adt, var, *vals), pushes, None, notes), e))
                else:
                    res.append((Outcome(UNK, pushes, None, notes), e))
                continue
            mpos = re.search(r"TyPosition::(build_callback|build_trait_path|build_struct_path)$", p)
            if mpos:
                fpath = "<diplomat_core::hir::ty_position::%s as diplomat_core::hir::ty_position::TyPosition>::%s" % (self.position, mpos.group(1))
                for o in self.call(fpath, list(vals), depth + 1):
                    res.append((Outcome(o.val, pushes + o.pushes, o.ctl, notes + o.notes), e))
                continue
            if p.endswith("::Borrow::new") and len(vals) == 2:
                res.append((Outcome(("rec", (("lifetime", vals[0]), ("mutability", vals[1]))), pushes, None, notes), e))
                continue
            if p.endswith("boxed::Box::new") or p.endswith("convert::From::from") or p.endswith("convert::Into::into"):
                res.append((Outcome(vals[0] if vals else UNK, pushes, None, notes), e))
                continue
            res.append((Outcome(UNK, pushes, None, notes), e))
        return res

    INTERP_METHODS = ("lower_type", "lower_out_type", "lower_callback_param", "is_ffi_safe", "ffi_safe_version", "lower_many_callback_params")

    def ev_mcall(self, n, env, depth):
        m = n["m"]
        p = C.callee(n) or ""
        res = []
        for vals, pushes, ctl, notes, e in self.ev_args([n["recv"]] + list(n.get("a", [])), env, depth):
            if ctl:
                res.append((Outcome(UNK, pushes, ctl, notes), e))
                continue
            recv, args = vals[0], vals[1:]
            out_vals = None  # list of (value, pushes, notes)
            if m == "push" and p.endswith("ErrorStore::push"):
                msg = " | ".join(C.str_lits(n["a"][0]))[:160]
                res.append((Outcome(("tuple", ()), pushes + (msg,), None, notes), e))
                continue
            if m in ("as_ref", "as_mut", "as_deref", "clone", "borrow", "iter", "iter_mut", "into_iter", "deref", "as_str", "to_owned", "copied", "cloned"):
                out_vals = [(recv, (), ())]
            elif m == "resolve" and recv[0] == "path":
                kind = recv[1]
                var = {"S": "Struct", "Z": "Struct", "O": "Struct", "Q": "Opaque", "N": "Enum"}.get(kind)
                out_vals = [(E(CT, var, cust(kind)) if var else UNK, (), ())]
            elif m == "is_empty" and recv[0] == "fields_of":
                out_vals = [(B(recv[1] == "Z"), (), ())]
            elif m in ("resolve_struct", "resolve_out_struct", "resolve_opaque", "resolve_enum") and args and args[0][0] == "cust":
                kind = args[0][1]
                yes = {"resolve_struct": kind in ("S", "Z"), "resolve_out_struct": kind == "O", "resolve_opaque": kind == "Q", "resolve_enum": kind == "N"}[m]
                out_vals = [(some(UNK) if yes else NONE, (), ())]
            elif m in ("is_some", "is_none") and recv[0] == "enum" and recv[1] == OPT:
                out_vals = [(B((recv[2] == "Some") == (m == "is_some")), (), ())]
            elif m in ("expect", "unwrap") and recv[0] == "enum" and recv[1] in (OPT, RES):
                if recv[2] in ("Some", "Ok"):
                    out_vals = [(recv[3][0] if recv[3] else UNK, (), ())]
                else:
                    res.append((Outcome(UNK, pushes, "panic", notes + ("%s on %s" % (m, recv[2]),)), e))
                    continue
            elif m == "unwrap_or" and recv[0] == "enum" and recv[1] == OPT:
                out_vals = [((recv[3][0] if recv[2] == "Some" else args[0]), (), ())]
            elif m == "map" and recv[0] == "enum" and recv[1] in (RES, OPT):
                if recv[2] in ("Ok", "Some"):
                    inner = UNK
                    if args and args[0][0] == "closure" and args[0][1] in self.closures:
                        cn, cenv = self.closures[args[0][1]]
                        e2 = dict(cenv)
                        e2.update(e)
                        if cn.get("params"):
                            e2.update(self.pmatch(cn["params"][0], recv[3][0] if recv[3] else UNK)[1])
                        couts = self.ev(cn["body"], e2, depth + 1)
                        out_vals = [(E(recv[1], recv[2], co.val), co.pushes, co.notes) for co, _ in couts if not co.ctl]
                        if not out_vals:
                            out_vals = [(E(recv[1], recv[2], UNK), (), ())]
                    elif args and args[0][0] == "enum" and not args[0][3]:
                        # mapping with a tuple-variant constructor used as a function: Ok(x).map(Variant) = Ok(Variant(x))
                        out_vals = [(E(recv[1], recv[2], E(args[0][1], args[0][2], recv[3][0] if recv[3] else UNK)), (), ())]
                    else:
                        out_vals = [(E(recv[1], recv[2], UNK), (), ())]
                else:
                    out_vals = [(recv, (), ())]
            elif m == "lower_lifetime" and args and args[0][0] == "lt":
                MS = "diplomat_core::hir::lifetimes::MaybeStatic"
                out_vals = [((E(MS, "Static") if args[0][1] == "static" else E(MS, "NonStatic", UNK)), (), ())]
            elif m == "lifetimes" and recv[0] == "enum" and recv[1].endswith("hir::types::Type"):
                out_vals = [(("lifetimes_of", recv), (), ())]
            elif m == "any" and recv[0] == "lifetimes_of":
                hl = self.has_lifetime(recv[1])
                out_vals = [((B(hl) if hl is not None else UNK), (), ())]
            elif m == "attrs_supported":
                out_vals = [(("support",), (), ())]
            elif m in self.INTERP_METHODS:
                fn_map = {"lower_type": "hir::lowering::LoweringContext::lower_type", "lower_out_type": "hir::lowering::LoweringContext::lower_out_type",
                          "lower_callback_param": "hir::lowering::LoweringContext::lower_callback_param", "is_ffi_safe": "ast::types::TypeName::is_ffi_safe", "ffi_safe_version": "ast::types::TypeName::ffi_safe_version",
                          "lower_many_callback_params": "hir::lowering::LoweringContext::lower_many_callback_params"}
                cargs = list(args) if m not in ("is_ffi_safe", "ffi_safe_version") else [recv]
                outs = self.call(fn_map[m], cargs, depth + 1)
                out_vals = [(o.val, o.pushes, o.notes + (("panic:" + "/".join(o.notes),) if False else ())) if o.ctl != "panic" else None for o in outs]
                for o in outs:
                    if o.ctl == "panic":
                        res.append((Outcome(UNK, pushes + o.pushes, "panic", notes + o.notes), e))
                out_vals = [x for x in out_vals if x is not None]
            elif m == "unsafe_references_in_callbacks":
                out_vals = [(UNK, (), ())]
            if out_vals is None:
                out_vals = [(UNK, (), ())]
            for v, p2, n2 in out_vals:
                res.append((Outcome(v, pushes + tuple(p2), None, notes + tuple(n2)), e))
        # field access on `support` pseudo value handled in `field`; emulate here for chained `.attrs_supported().option`
        return res

    def has_lifetime(self, tyv):
        """does a (partially known) hir::Type value carry a non-static lifetime?  None = unknown"""
        if tyv[0] != "enum":
            return None
        v = tyv[2]
        if v in ("Primitive", "Enum"):
            return False
        if v == "DiplomatOption" and tyv[3]:
            return self.has_lifetime(tyv[3][0])
        return None

    def ev_for(self, n, env, depth):
        res = []
        for o, e in self.ev(n["iter"], env, depth):
            if o.ctl:
                res.append((o, e))
                continue
            items = list(o.val[1]) if o.val[0] == "list" else None
            if items is None:
                # unknown collection: zero or one abstract iteration
                res.append((Outcome(("tuple", ()), o.pushes, None, o.notes), e))
                items_iter = [UNK]
                states = [(Outcome(("tuple", ()), o.pushes, None, o.notes + ("for-unknown",)), e)]
            else:
                items_iter = items
                states = [(Outcome(("tuple", ()), o.pushes, None, o.notes), e)]
            for it in items_iter:
                nxt = []
                for so, se in states:
                    if so.ctl:
                        nxt.append((so, se))
                        continue
                    e2 = dict(se)
                    e2.update(self.pmatch(n["pat"], it)[1])
                    for o2, e3 in self.ev(n["body"], e2, depth):
                        ctl = o2.ctl if o2.ctl not in ("continue",) else None
                        if o2.ctl == "break":
                            ctl = "loopbreak"
                        nxt.append((Outcome(("tuple", ()), so.pushes + o2.pushes, ctl, so.notes + o2.notes), e3))
                states = self.dedupe(nxt)
            for so, se in states:
                res.append((Outcome(so.val, so.pushes, None if so.ctl == "loopbreak" else so.ctl, so.notes), se))
        return self.dedupe(res)


def field_hook(interp):
    """`attrs_supported().<flag>` and `self.cfg.<flag>`: resolved from the interpreter's configuration."""
    orig = interp.ev

    def ev(n, env, depth=0):
        if isinstance(n, dict) and n.get("k") == "field":
            inner = C.strip(n["e"])
            if isinstance(inner, dict) and inner.get("k") == "mcall" and inner.get("m") == "attrs_supported":
                v = interp.support.get(n["n"], interp.default_support)
                return [(Outcome(B(v) if v is not None else UNK), env)]
            if isinstance(inner, dict) and inner.get("k") == "field" and inner.get("n") == "cfg":
                v = interp.cfg.get(n["n"])
                return [(Outcome(B(v) if v is not None else UNK), env)]
        return orig(n, env, depth)
    interp.ev = ev
    return interp


def verdict(outs):
    """accept / reject / panic / conditional from a list of outcomes"""
    kinds = set()
    for o in outs:
        if o.ctl == "panic":
            kinds.add("panic")
        elif o.pushes:
            kinds.add("reject")
        elif o.val[0] == "enum" and o.val[1] == RES and o.val[2] == "Err":
            kinds.add("reject-silent")
        else:
            kinds.add("accept")
    if len(kinds) == 1:
        return next(iter(kinds))
    return "conditional:" + "+".join(sorted(kinds))

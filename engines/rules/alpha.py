"""Alpha-renaming of private names back to the names the rules were written against.

The rules anchor on function paths, type paths, field names and -- in a few places -- local variable and template variable names.  A
behaviour-preserving rename of any of those is not a violation of any property, so before a rule sees the facts of the current tree, names
that *vanished* relative to the reference name table (spec/names/<unit>.json, produced by `tools/gen_names.py` from the tree the rules were
written against) are matched against names that are *new* in the current tree, and the new names are rewritten to the old ones everywhere
in the facts (typed HIR, MIR, ADT tables) and in the askama templates.

Matching is conservative: a vanished name is only matched with a new name (never with a name that exists on both sides), the pair has to
be the unique best match under a structural fingerprint (types / position / literals / callees), and anything that cannot be matched is
left alone -- the rule then sees the tree exactly as it would have without this module.  The table is only ever used to *find* a renamed
anchor; no rule compares the tree against it."""
import difflib
import json
import os
import re

VERIF = os.path.dirname(os.path.dirname(os.path.dirname(os.path.abspath(__file__))))
NAMES_DIR = os.path.join(VERIF, "spec", "names")

_GEN_RE = re.compile(r"::<[^<>]*(?:<[^<>]*(?:<[^<>]*>[^<>]*)*>[^<>]*)*>")


def npath(p):
    """path without generic argument lists"""
    prev = None
    while prev != p:
        prev = p
        p = _GEN_RE.sub("", p)
    return p


def _walk(n):
    st = [n]
    while st:
        x = st.pop()
        if isinstance(x, dict):
            yield x
            st.extend(reversed([v for k, v in x.items() if k != "cm"]))   # "cm": a view attached at load time, not part of the tree
        elif isinstance(x, list):
            st.extend(reversed(x))


_STR_RE = re.compile(r'"((?:[^"\\]|\\.)*)"', re.S)
_PH_RE = re.compile(r"\{[^{}]*\}")


def fn_fingerprint(f):
    binds, lits, callees, size = [], set(), set(), 0
    h = f.get("hir")
    if h:
        for x in _walk(h):
            size += 1
            k = x.get("k")
            if k == "bind":
                binds.append([x.get("id"), x.get("n")])
            elif k == "lit" and x.get("t") == "str" and isinstance(x.get("v"), str):
                lits.add(_PH_RE.sub("{}", x["v"])[:80])
            elif k == "macro":
                for mm in _STR_RE.finditer(x.get("src") or ""):
                    lits.add(_PH_RE.sub("{}", mm.group(1))[:80])
            elif k in ("call", "mcall", "def") and x.get("p"):
                callees.add(npath(x["p"]))
    return {"file": f.get("file"), "sig": list(f.get("inputs") or []) + [f.get("output") or ""], "binds": binds, "lits": sorted(lits)[:60], "callees": sorted(callees)[:80], "size": size}


def adt_shape(a):
    return {"kind": a.get("kind"), "variants": [{"name": v["name"], "fields": [[fl["name"], fl["ty"]] for fl in v.get("fields") or []]} for v in a.get("variants") or []]}


TPL_BIND_RES = [
    re.compile(r"^for\s+(.+?)\s+in\b"),
    re.compile(r"^(?:let|set)\s+(?:mut\s+)?(.+?)\s*(?:=|$)"),
    re.compile(r"^when\s+[\w:]+\s+with\s*\((.*)\)\s*$"),
    re.compile(r"^when\s+[\w:]+\s*\((.*)\)\s*$"),
    re.compile(r"^(?:if|else\s+if|elif)\s+let\s+[\w:]+\s*\((.*?)\)\s*="),
    re.compile(r"^macro\s+\w+\s*\((.*)\)"),
]
TPL_TAG_RE = re.compile(r"(\{\{-?.*?-?\}\}|\{%-?.*?-?%\})", re.S)


def tpl_binds(text):
    out = []
    for t in TPL_TAG_RE.findall(text):
        if not t.startswith("{%"):
            continue
        body = t[2:-2].strip("-+~").strip()
        for r in TPL_BIND_RES:
            m = r.match(body)
            if m:
                for name in re.findall(r"[A-Za-z_]\w*", m.group(1)):
                    if name not in ("mut", "ref", "_", "Some", "None", "Ok", "Err"):
                        out.append(name)
                break
    return out


def tpl_table(repo):
    out = {}
    base = os.path.join(repo, "tool", "templates")
    for d, _, fs in os.walk(base):
        for fn_ in sorted(fs):
            p = os.path.join(d, fn_)
            try:
                txt = open(p, encoding="utf-8").read()
            except (OSError, UnicodeDecodeError):
                continue
            out[os.path.relpath(p, base)] = tpl_binds(txt)
    return out


def make_table(data):
    return {
        "fns": {f["path"]: fn_fingerprint(f) for f in data["fns"] if f.get("dk") != "Closure" and not re.search(r"\{closure#\d+\}$", f["path"])},
        "adts": {a["path"]: adt_shape(a) for a in data["adts"]},
    }


def load_table(unit_name):
    p = os.path.join(NAMES_DIR, unit_name + ".json")
    if not os.path.exists(p):
        return None
    with open(p) as f:
        return json.load(f)


# --------------------------------------------------------------------------- matching


def _jacc(a, b):
    a, b = set(a), set(b)
    if not a and not b:
        return None
    return len(a & b) / float(len(a | b))


def _best_unique(scores, thr, margin=0.08):
    """scores: {(old, new): s}.  Greedy one-to-one assignment; a pair is kept when it is the best for both sides by `margin`."""
    out = {}
    pairs = sorted(scores.items(), key=lambda kv: -kv[1])
    used_o, used_n = set(), set()
    for (o, n), s in pairs:
        if s < thr or o in used_o or n in used_n:
            continue
        rivals = [s2 for (o2, n2), s2 in scores.items() if (o2 == o) != (n2 == n) and o2 not in used_o and n2 not in used_n]
        if rivals and max(rivals) > s - margin:
            continue
        out[o] = n
        used_o.add(o)
        used_n.add(n)
    return out


class Alias:
    def __init__(self):
        self.adt = {}      # new adt path -> old adt path
        self.fn = {}       # new fn raw path -> old fn raw path
        self.field = {}    # (old adt path, new field) -> old field
        self.local = {}    # old fn raw path -> {binding id: (new name, old name)}
        self.log = []

    def empty(self):
        return not (self.adt or self.fn or self.field or self.local)


def _mask(ty, names):
    for n in names:
        if n in ty:
            ty = re.sub(r"(?<![\w:])" + re.escape(n) + r"(?!\w)", "§", ty)
    return ty


def match_adts(base, cur, al):
    van = [p for p in base if p not in cur]
    fresh = [p for p in cur if p not in base]
    if not van or not fresh:
        return
    mask_names = van + fresh
    scores = {}
    for o in van:
        bo = base[o]
        for n in fresh:
            cn = cur[n]
            if bo["kind"] != cn["kind"] or o.split("::")[0] != n.split("::")[0] or len(bo["variants"]) != len(cn["variants"]):
                continue
            if bo["kind"] == "enum":
                vn = _jacc([v["name"] for v in bo["variants"]], [v["name"] for v in cn["variants"]]) or 0.0
                ar = sum(1 for a, b in zip(bo["variants"], cn["variants"]) if len(a["fields"]) == len(b["fields"])) / float(max(1, len(bo["variants"])))
                s = 0.7 * vn + 0.3 * ar
            else:
                fo = [fl for v in bo["variants"] for fl in v["fields"]]
                fn_ = [fl for v in cn["variants"] for fl in v["fields"]]
                if len(fo) != len(fn_):
                    continue
                to = sorted(_mask(t, mask_names) for _, t in fo)
                tn = sorted(_mask(t, mask_names) for _, t in fn_)
                ty_ok = 1.0 if to == tn else 0.0
                nm = _jacc([x for x, _ in fo], [x for x, _ in fn_])
                s = 0.6 * ty_ok + 0.4 * (nm if nm is not None else 1.0)
                if not fo:
                    s = 0.5
            same_mod = o.rsplit("::", 1)[0] == n.rsplit("::", 1)[0]
            scores[(o, n)] = s + (0.15 if same_mod else 0.0)
    for o, n in _best_unique(scores, 0.6).items():
        al.adt[n] = o
        al.log.append("type %s -> %s" % (n, o))


def match_fields(base, cur, al):
    inv = {o: n for n, o in al.adt.items()}
    mask_names = list(al.adt) + list(al.adt.values())
    for o, bo in base.items():
        n = inv.get(o, o)
        cn = cur.get(n)
        if not cn or len(bo["variants"]) != len(cn["variants"]):
            continue
        for i, bv in enumerate(bo["variants"]):
            cv = next((v for v in cn["variants"] if v["name"] == bv["name"]), None) or cn["variants"][i]
            bnames = [x for x, _ in bv["fields"]]
            cnames = [x for x, _ in cv["fields"]]
            van = [x for x in bnames if x not in cnames]
            fresh = [x for x in cnames if x not in bnames]
            if not van or not fresh or len(bnames) != len(cnames):
                continue
            bt = {x: _mask(t, mask_names) for x, t in bv["fields"]}
            ct = {x: _mask(t, mask_names) for x, t in cv["fields"]}
            scores = {}
            for a in van:
                for b in fresh:
                    if bt[a] != ct[b]:
                        continue
                    scores[(a, b)] = 0.7 + (0.3 if bnames.index(a) == cnames.index(b) else 0.0)
            got = _best_unique(scores, 0.7, margin=0.01)
            # what is left over after the type-directed pass: a field that was renamed AND retyped (`name: String` -> `class_name: &str`) keeps its position
            rest_o = [x for x in van if x not in got]
            rest_n = [x for x in fresh if x not in got.values()]
            if rest_o and len(rest_o) == len(rest_n) and [bnames.index(x) for x in rest_o] == [cnames.index(x) for x in rest_n]:
                for a, b in zip(rest_o, rest_n):
                    got[a] = b
            # all-or-nothing per variant would be too strict: keep what is unambiguous
            for a, b in got.items():
                al.field[(o, b)] = a
                al.log.append("field %s.%s -> %s" % (o, b, a))


def _fn_owner(p):
    return npath(p).rsplit("::", 1)[0]


def match_fns(base, cur_fns, al):
    """base: {raw path: fp}; cur_fns: {raw path: fn json}"""
    def canon(p):
        q = npath(p)
        for n, o in al.adt.items():
            if n in q:
                q = re.sub(r"(?<![\w:])" + re.escape(n) + r"(?!\w)", o, q)
        return q
    base_n = {}
    for p in base:
        base_n.setdefault(npath(p), p)
    cur_n = {}
    for p in cur_fns:
        cur_n.setdefault(canon(p), p)
    van = [q for q in base_n if q not in cur_n]
    fresh = [q for q in cur_n if q not in base_n]
    if not van or not fresh:
        return
    mask_names = list(al.adt) + list(al.adt.values())
    van_last = {q.rsplit("::", 1)[-1] for q in van}
    fresh_last = {q.rsplit("::", 1)[-1] for q in fresh}
    fps = {}
    scores = {}
    for o in van:
        bo = base[base_n[o]]
        for n in fresh:
            if o.rsplit("::", 1)[0] != n.rsplit("::", 1)[0]:
                continue
            if n not in fps:
                fps[n] = fn_fingerprint(cur_fns[cur_n[n]])
            cn = fps[n]
            if len(bo["sig"]) != len(cn["sig"]):
                continue
            sig_ok = [_mask(t, mask_names) for t in bo["sig"]] == [_mask(t, mask_names) for t in cn["sig"]]
            lj = _jacc(bo["lits"], cn["lits"])

            def strip_renamed(cs, lasts):
                return {c for c in cs if c.rsplit("::", 1)[-1] not in lasts}
            cj = _jacc(strip_renamed(bo["callees"], van_last), strip_renamed(cn["callees"], fresh_last))
            sz = min(bo["size"], cn["size"]) / float(max(1, max(bo["size"], cn["size"])))
            parts = [(0.35, 1.0 if sig_ok else 0.0), (0.15, sz)]
            if lj is not None:
                parts.append((0.25, lj))
            if cj is not None:
                parts.append((0.25, cj))
            s = sum(w * v for w, v in parts) / sum(w for w, _ in parts)
            scores[(o, n)] = s
    got = _best_unique(scores, 0.62)
    # second pass: a function that also changed its owner (an associated fn that became a free fn, a nested fn hoisted out of its parent, a move into a
    # sibling module of the same file's crate directory): same source file or same parent module, stricter threshold, parameter types (self aside) agree
    left_o = [o for o in van if o not in got]
    left_n = [n for n in fresh if n not in got.values()]
    scores2 = {}
    for o in left_o:
        bo = base[base_n[o]]
        for n in left_n:
            f_n = cur_fns[cur_n[n]]
            if o.split("::")[0] != n.split("::")[0]:
                continue
            same_file = bo.get("file") and bo.get("file") == f_n.get("file")
            common = 0
            for a_, b_ in zip(o.split("::"), n.split("::")):
                if a_ != b_:
                    break
                common += 1
            same_name = o.rsplit("::", 1)[-1] == n.rsplit("::", 1)[-1]
            if not same_file and common < 3 and not (same_name and common >= 2):     # (a plain move into a new submodule keeps the name)
                continue
            if n not in fps:
                fps[n] = fn_fingerprint(f_n)
            cn = fps[n]
            def nonself(sig):
                return sorted(_mask(t, mask_names) for t in sig[:-1] if "self" not in t.lower() and not re.match(r"^&(mut )?[\w:]+(<.*>)?$", t) or True)
            so, sn = [_mask(t, mask_names) for t in bo["sig"]], [_mask(t, mask_names) for t in cn["sig"]]
            if so[-1] != sn[-1]:
                continue
            # the parameter type multisets agree up to one receiver
            ro, rn = list(so[:-1]), list(sn[:-1])
            for t in list(ro):
                if t in rn:
                    ro.remove(t)
                    rn.remove(t)
            if len(ro) + len(rn) > 1:
                continue
            lj = _jacc(bo["lits"], cn["lits"])
            cj = _jacc({c for c in bo["callees"] if c.rsplit("::", 1)[-1] not in van_last}, {c for c in cn["callees"] if c.rsplit("::", 1)[-1] not in fresh_last})
            sz = min(bo["size"], cn["size"]) / float(max(1, max(bo["size"], cn["size"])))
            parts = [(0.3, 1.0), (0.2, sz)]
            if lj is not None:
                parts.append((0.25, lj))
            if cj is not None:
                parts.append((0.25, cj))
            scores2[(o, n)] = sum(w * v for w, v in parts) / sum(w for w, _ in parts)
    got2 = _best_unique(scores2, 0.72, margin=0.1)
    got.update(got2)
    for o, n in got.items():
        al.fn[cur_n[n]] = base_n[o]
        al.log.append("fn %s -> %s" % (cur_n[n], base_n[o]))


def _align_names(bb, cn, taken=()):
    """{new: old} for two binding sequences.  The new spelling must be new to the scope.  Pairs whose old spelling vanished altogether are
    trusted first; pairs whose old spelling is still bound elsewhere (one of several shadowing bindings was renamed) only fill what is left.
    One new name stands for one old name throughout."""
    bset, cset = set(bb), set(cn)
    strict, relaxed = {}, {}
    sm = difflib.SequenceMatcher(a=bb, b=cn, autojunk=False)
    for tag, i1, i2, j1, j2 in sm.get_opcodes():
        if tag != "replace" or (i2 - i1) != (j2 - j1):
            continue
        for k in range(i2 - i1):
            o, n = bb[i1 + k], cn[j1 + k]
            if n in bset or o == n or n in taken:
                continue
            (strict if o not in cset else relaxed).setdefault(n, set()).add(o)
    amap = {n: next(iter(os_)) for n, os_ in strict.items() if len(os_) == 1}
    for n, os_ in relaxed.items():
        if n not in strict and len(os_) == 1:
            amap[n] = next(iter(os_))
    return amap


def match_locals(base, cur_fns, al):
    inv = {o: n for n, o in al.fn.items()}
    for bp, bo in base.items():
        f = cur_fns.get(inv.get(bp, bp))
        if f is None or not f.get("hir"):
            continue
        bb = [n for _, n in bo["binds"]]
        cb = []
        for x in _walk(f["hir"]):
            if x.get("k") == "bind":
                cb.append((x.get("id"), x.get("n")))
        cn = [n for _, n in cb]
        if bb == cn:
            continue
        amap = _align_names(bb, cn)
        if amap:
            al.local[bp] = amap
            al.log.append("locals of %s: %s" % (npath(bp), ", ".join("%s->%s" % kv for kv in sorted(amap.items()))))


# --------------------------------------------------------------------------- rewriting


def _compile_paths(m):
    if not m:
        return None
    alts = sorted(m, key=len, reverse=True)
    return re.compile(r"(?<![\w:])(" + "|".join(re.escape(a) for a in alts) + r")(?!\w)")


def _adt_of_ty(ty):
    """ADT path a type string denotes after peeling references / Box"""
    t = ty or ""
    prev = None
    while prev != t:
        prev = t
        t = re.sub(r"^&(?:'\w+\s+)?(?:mut\s+)?", "", t.strip())
        m = re.match(r"^alloc::boxed::Box<(.*)>$", t)
        if m:
            t = m.group(1)
    return npath(re.sub(r"<.*$", "", t))


def apply(data, al):
    path_map = dict(al.adt)
    path_map.update(al.fn)
    pre = _compile_paths(path_map)
    quick = [k.rsplit("::", 1)[-1] for k in path_map]
    fn_last = {n.rsplit("::", 1)[-1]: o.rsplit("::", 1)[-1] for n, o in al.fn.items()}
    adt_last = {n.rsplit("::", 1)[-1]: o.rsplit("::", 1)[-1] for n, o in al.adt.items()}
    fields_by_adt = {}
    for (adt, n), o in al.field.items():
        fields_by_adt.setdefault(adt, {})[n] = o
    # a field name is rewritten in untyped positions (MIR projections, macro source) only when no other field of any type has the new name
    all_field_names = {}
    for a in data["adts"]:
        for v in a.get("variants") or []:
            for fl in v.get("fields") or []:
                all_field_names[fl["name"]] = all_field_names.get(fl["name"], 0) + 1
    glob_field = {}
    for (adt, n), o in al.field.items():
        if all_field_names.get(n, 0) == 1 and glob_field.get(n, o) == o:
            glob_field[n] = o

    def fix_str(s):
        if pre is None or not any(q in s for q in quick):
            return s
        return pre.sub(lambda m: path_map[m.group(1)], s)

    def fix_code(out, lmap):
        for n, o in lmap.items():
            out = re.sub(r"(?<![\w.:])" + re.escape(n) + r"(?!\w|\(|::)", o, out)
        for n, o in glob_field.items():
            out = re.sub(r"(?<=\.)" + re.escape(n) + r"(?![\w(])", o, out)
        for n, o in fn_last.items():
            out = re.sub(r"(?<![\w])" + re.escape(n) + r"(?=\s*(?:::<[^()]*>)?\()", o, out)
        for n, o in adt_last.items():
            out = re.sub(r"(?<![\w])" + re.escape(n) + r"(?![\w])", o, out)
        return out

    def fix_src(src, lmap):
        # code outside string literals: identifiers; inside a string literal only the `{..}` placeholders are code (inline captures), the rest is text
        parts = re.split(r'("(?:[^"\\]|\\.)*")', src)
        for i_, seg in enumerate(parts):
            if i_ % 2 == 0:
                parts[i_] = fix_code(seg, lmap)
            elif lmap:
                out_, j_ = [], 0
                while j_ < len(seg):
                    if seg.startswith("{{", j_) or seg.startswith("}}", j_):
                        out_.append(seg[j_:j_ + 2])
                        j_ += 2
                    elif seg[j_] == "{":
                        e_ = seg.find("}", j_)
                        if e_ < 0:
                            out_.append(seg[j_:])
                            break
                        inner = seg[j_ + 1:e_]
                        nm_, sep_, spec_ = inner.partition(":")
                        out_.append("{" + lmap.get(nm_.strip(), nm_) + sep_ + spec_ + "}")
                        j_ = e_ + 1
                    else:
                        out_.append(seg[j_])
                        j_ += 1
                parts[i_] = "".join(out_)
        return "".join(parts)

    def rewrite(root, lmap):
        st = [root]
        while st:
            x = st.pop()
            if isinstance(x, list):
                for i, v in enumerate(x):
                    if isinstance(v, str):
                        x[i] = fix_str(v)
                    elif isinstance(v, (dict, list)):
                        st.append(v)
                continue
            k = x.get("k")
            for key, v in x.items():
                if isinstance(v, str):
                    if key == "src" and k == "macro":
                        x[key] = fix_src(v, lmap)
                    elif key not in ("k", "n", "m", "src"):
                        x[key] = fix_str(v)
                elif isinstance(v, (dict, list)):
                    st.append(v)
            if k == "mcall" and x.get("p"):
                last = npath(x["p"]).rsplit("::", 1)[-1]
                if x.get("m") in fn_last and fn_last[x["m"]] == last:
                    x["m"] = last
            elif k == "field":
                fm = fields_by_adt.get(_adt_of_ty(x.get("bty")))
                if fm and x.get("n") in fm:
                    x["n"] = fm[x["n"]]
            elif k in ("struct", "variant") and x.get("fields"):
                fm = fields_by_adt.get(npath(x.get("adt") or ""))
                if fm:
                    for fl in x["fields"]:
                        if isinstance(fl, dict) and fl.get("n") in fm:
                            fl["n"] = fm[fl["n"]]
            elif k in ("bind", "local") and lmap and x.get("n") in lmap:
                x["n"] = lmap[x["n"]]

    def field_ty(adt, variant, name):
        a = adt_by_path.get(adt)
        if not a:
            return None
        vs = a.get("variants") or []
        v = next((x for x in vs if x["name"] == variant), None) if variant else (vs[0] if vs else None)
        if not v:
            return None
        return next((fl["ty"] for fl in v.get("fields") or [] if fl["name"] == name), None)

    def deref_ty(t):
        t = (t or "").strip()
        m_ = re.match(r"^&(?:'\w+\s+)?(?:mut\s+)?(.*)$", t) or re.match(r"^\*(?:const|mut)\s+(.*)$", t) or re.match(r"^alloc::boxed::Box<(.*)>$", t)
        return m_.group(1) if m_ else None

    def rewrite_places(m):
        """field projections of MIR places and field names of aggregates, resolved through the types of the locals"""
        ltypes = {l_["l"]: l_.get("ty") for l_ in m.get("locals") or [] if isinstance(l_, dict)}
        st = [m]
        while st:
            x = st.pop()
            if isinstance(x, list):
                st.extend(v for v in x if isinstance(v, (dict, list)))
                continue
            if isinstance(x.get("l"), int) and isinstance(x.get("p"), list):
                ty, variant = ltypes.get(x["l"]), None
                for i_, e_ in enumerate(x["p"]):
                    if not isinstance(e_, str) or ty is None:
                        break
                    if e_ == "*":
                        ty = deref_ty(ty)
                    elif e_.startswith("@"):
                        variant = e_[1:]
                    elif e_.startswith("."):
                        adt = npath(re.sub(r"<.*$", "", ty.strip()))
                        fm = fields_by_adt.get(adt)
                        nm_ = e_[1:]
                        if fm and nm_ in fm:
                            nm_ = fm[nm_]
                            x["p"][i_] = "." + nm_
                        ty, variant = field_ty(adt, variant, nm_), None
                    else:
                        ty = None
            if x.get("k") == "agg" and isinstance(x.get("fnames"), list):
                fm = fields_by_adt.get(npath(re.sub(r"<.*$", "", x.get("adt") or "")))
                if fm:
                    x["fnames"] = [fm.get(n_, n_) for n_ in x["fnames"]]
            st.extend(v for v in x.values() if isinstance(v, (dict, list)))

    def rewrite_mir(m, lmap):
        if not isinstance(m, dict):
            return
        for nm in m.get("names") or []:
            if isinstance(nm, dict) and nm.get("n") in lmap:
                nm["n"] = lmap[nm["n"]]
        if fields_by_adt and m.get("blocks"):
            rewrite_places(m)
            return
        if glob_field:
            fr = re.compile(r"\.(" + "|".join(re.escape(n) for n in glob_field) + r")(?!\w)")
            st = [m]
            while st:
                x = st.pop()
                if isinstance(x, dict):
                    for key, v in x.items():
                        if isinstance(v, str):
                            if "." in v and fr.search(v):
                                x[key] = fr.sub(lambda mm: "." + glob_field[mm.group(1)], v)
                        elif isinstance(v, (dict, list)):
                            st.append(v)
                elif isinstance(x, list):
                    for i, v in enumerate(x):
                        if isinstance(v, str):
                            if "." in v and fr.search(v):
                                x[i] = fr.sub(lambda mm: "." + glob_field[mm.group(1)], v)
                        elif isinstance(v, (dict, list)):
                            st.append(v)

    # ADT tables (paths first so that field maps keyed by old paths apply)
    for a in data["adts"]:
        rewrite(a, {})
        fm = fields_by_adt.get(npath(a["path"]))
        if fm:
            for v in a.get("variants") or []:
                for fl in v.get("fields") or []:
                    if fl["name"] in fm:
                        fl["name"] = fm[fl["name"]]
            for lay in a.get("layouts") or []:
                for fl in (lay.get("layout") or {}).get("fields") or []:
                    if fl.get("name") in fm:
                        fl["name"] = fm[fl["name"]]
    adt_by_path = {npath(a["path"]): a for a in data["adts"]}
    for f in data["fns"]:
        old_raw = al.fn.get(f["path"], f["path"])
        lmap = dict(al.local.get(old_raw) or {})
        if not lmap:
            # closures / nested items share the enclosing function's bindings
            for bp, mp in al.local.items():
                newp = next((n for n, o in al.fn.items() if o == bp), bp)
                if f["path"].startswith(newp + "::"):
                    lmap = dict(mp)
                    break
        if f["path"] in al.fn:
            f["name"] = npath(al.fn[f["path"]]).rsplit("::", 1)[-1]
        if f.get("params") and lmap:
            f["params"] = [lmap.get(p, p) if isinstance(p, str) else p for p in f["params"]]
        rewrite(f, lmap)
        rewrite_mir(f.get("mir"), lmap)


# --------------------------------------------------------------------------- entry points

TEMPLATE_ALIASES = {}   # backend dir -> {new: old}  (fields of the tool's template structs)
LOG = []
GLOBAL = Alias()        # aliases of every unit canonicalised so far: a crate's renamed items are referenced from its dependants' facts too
DEPS = {   # units whose items a unit's facts can mention (they are canonicalised first)
    "diplomat_tool.lib": ["diplomat_runtime.lib", "diplomat_core.lib+hir"],
    "diplomat_tool.bin": ["diplomat_runtime.lib", "diplomat_core.lib+hir", "diplomat_tool.lib"],
    "diplomat.lib": ["diplomat_core.lib"],
    "diplomat_feature_tests.lib": ["diplomat_runtime.lib"],
    "diplomat_example.lib": ["diplomat_runtime.lib"],
}


def canonicalise(unit_name, data):
    base = load_table(unit_name)
    if base is None:
        return None
    cur_adts = {a["path"]: adt_shape(a) for a in data["adts"]}
    cur_fns = {f["path"]: f for f in reversed(data["fns"]) if f.get("dk") != "Closure" and not re.search(r"\{closure#\d+\}$", f["path"])}
    al = Alias()
    match_adts(base["adts"], cur_adts, al)
    match_fields(base["adts"], cur_adts, al)
    match_fns(base["fns"], cur_fns, al)
    match_locals(base["fns"], cur_fns, al)
    for l in al.log:
        LOG.append("%s: %s" % (unit_name, l))
    crate = data.get("crate") or ""
    # paths and fields of items defined in other crates (already canonicalised: see DEPS) are spelled back here as well
    for n, o in GLOBAL.adt.items():
        if not n.startswith(crate + "::"):
            al.adt.setdefault(n, o)
    for n, o in GLOBAL.fn.items():
        if not n.startswith(crate + "::"):
            al.fn.setdefault(n, o)
    for k_, o in GLOBAL.field.items():
        if not k_[0].startswith(crate + "::"):
            al.field.setdefault(k_, o)
    if not al.empty():
        apply(data, al)
    GLOBAL.adt.update(al.adt)
    GLOBAL.fn.update(al.fn)
    GLOBAL.field.update(al.field)
    if unit_name == "diplomat_tool.lib":
        for (adt, n), o in al.field.items():
            segs = adt.split("::")
            if len(segs) >= 3:
                TEMPLATE_ALIASES.setdefault(segs[1], {}).setdefault(n, set()).add(o)
    return al


_TPL_LOCAL_CACHE = {}


def tpl_local_aliases(repo):
    """{dir: {new: old}} for template-local variables (for / let / when / if-let bindings), by position"""
    if repo in _TPL_LOCAL_CACHE:
        return _TPL_LOCAL_CACHE[repo]
    out = {}
    p = os.path.join(NAMES_DIR, "templates.json")
    if os.path.exists(p):
        base = json.load(open(p))
        cur = tpl_table(repo)
        per_dir_old = {}
        for rel, names in base.items():
            per_dir_old.setdefault(os.path.dirname(rel), set()).update(names)
        cand = {}
        for rel, bb in base.items():
            cn = cur.get(rel)
            if cn is None or cn == bb:
                continue
            d = os.path.dirname(rel)
            for n, o in _align_names(bb, cn, taken=per_dir_old.get(d, ())).items():
                cand.setdefault(d, {}).setdefault(n, set()).add(o)
        for d, mp in cand.items():
            out[d] = {n: next(iter(os_)) for n, os_ in mp.items() if len(os_) == 1}
    _TPL_LOCAL_CACHE[repo] = out
    return out


def template_text(rel, text, repo, facts=None):
    """`text` of tool/templates/<rel> with renamed template-struct fields and template locals spelled as in the reference tree"""
    d = os.path.dirname(rel)
    if facts is not None:
        try:
            facts.tool   # loads + canonicalises the tool unit, filling TEMPLATE_ALIASES
        except Exception:
            pass
    fmap = {n: next(iter(os_)) for n, os_ in (TEMPLATE_ALIASES.get(d) or {}).items() if len(os_) == 1}
    lmap = tpl_local_aliases(repo).get(d) or {}
    if not fmap and not lmap:
        return text
    bound_here = set(tpl_binds(text))

    def fix_tag(m):
        t = m.group(0)
        for n, o in lmap.items():
            t = re.sub(r"(?<![\w.\"])" + re.escape(n) + r"(?![\w(\"])", o, t)
        for n, o in fmap.items():
            if n in bound_here and n not in lmap:
                # a template local of that name exists here: only rewrite field accesses
                t = re.sub(r"(?<=\.)" + re.escape(n) + r"(?![\w(])", o, t)
            else:
                t = re.sub(r"(?<![\w\"])" + re.escape(n) + r"(?![\w(\"])", o, t)
        return t
    return TPL_TAG_RE.sub(fix_tag, text)

"""C04 — borrow edges keep alive everything a returned value may borrow from (structural clauses)."""
import re
import common as C
import flow
import tables as T
import json as _json


def json_dumps(x):
    return _json.dumps(x)


RT = "diplomat_core::hir::methods::ReturnType"


def is_local(n, name):
    n = C.strip(n)
    return isinstance(n, dict) and n.get("k") == "local" and n.get("n") == name


def def_brand_misuse(body):
    """Lifetimes that are the definition-site half of a linked pair (`link_lifetimes(..).lifetimes_def_only()` / `lifetimes_all()` yield (use-site, def-site)) index the
    definition's environment.  -> [(name, line)] of such lifetimes handed to `fmt_lifetime` of an environment that is not the link's `def_env()` / a StructBorrowInfo's `env`."""
    bad = []
    def_ids = set()

    def chain_has_pairs(e):
        e = C.strip(e)
        while isinstance(e, dict) and e.get("k") == "mcall":
            if e.get("m") in ("lifetimes_def_only", "lifetimes_all"):
                return True
            e = C.strip(e["recv"])
        return False
    for n in C.walk(body):
        pats = []
        if n.get("k") == "for" and chain_has_pairs(n.get("iter")):
            pats.append(n.get("pat"))
        if n.get("k") == "mcall" and chain_has_pairs(n.get("recv")):
            for a in n.get("a", []):
                a = C.strip(a)
                if isinstance(a, dict) and a.get("k") == "closure":
                    pats += a.get("params", [])
        for p in pats:
            if isinstance(p, dict) and p.get("k") == "tuple" and len(p.get("sub") or []) == 2:
                def_ids |= C.pat_bind_ids(p["sub"][1])
    if not def_ids:
        return bad
    for x in C.walk(body):
        if x.get("k") == "mcall" and x.get("m") == "fmt_lifetime" and x.get("a"):
            a = C.strip(x["a"][0])
            if a.get("k") == "local" and a.get("id") in def_ids:
                rc = C.strip(x["recv"])
                is_def_env = (rc.get("k") == "mcall" and rc.get("m") == "def_env") or (rc.get("k") == "field" and rc.get("n") == "env" and "StructBorrowInfo" in (rc.get("bty") or ""))
                if not is_def_env:
                    bad.append((a.get("n"), x.get("ln")))
    return bad


_BRAND_SAMPLE = {"k": "block", "s": [], "e": {"k": "mcall", "m": "filter_map", "recv": {"k": "mcall", "m": "lifetimes_def_only", "recv": {"k": "mcall", "m": "link_lifetimes", "recv": {"k": "local", "n": "strct", "id": 1}, "a": []}, "a": []},
                 "a": [{"k": "closure", "params": [{"k": "tuple", "sub": [{"k": "bind", "n": "use_lt", "id": 2}, {"k": "bind", "n": "def_lt", "id": 3}]}],
                        "body": {"k": "mcall", "m": "fmt_lifetime", "recv": {"k": "local", "n": "lifetime_env", "id": 4}, "a": [{"k": "local", "n": "def_lt", "id": 3}], "ln": 1}}]}}


def run(ck, facts):
    core, tool = facts.core, facts.tool
    adts = facts.all_adts()
    ck.units += ["diplomat_core.lib+hir (hir::methods, hir::lifetimes, ast::lifetimes, hir::lowering, hir::type_context)", "diplomat_tool.lib (js, dart, kotlin, nanobind)"]
    ck.rule("R1", "every managed backend's method generator creates the borrow visitor, visits self and every parameter unconditionally, and consumes borrow_map() of the same visitor into what the template renders")
    ck.rule("R6", "lifetime indices are formatted with the environment they index: keys of borrowed_struct_lifetime_map (definition-site lifetimes of the struct) with StructBorrowInfo.env, "
                  "the values (use-site lifetimes) with the using method's / outer struct's environment")
    ck.rule("R5", "use-site and def-site lifetimes are paired positionally: both sides of every zip in hir::lifetimes are order- and length-preserving chains; "
                  "nanobind omits keep_alive only for outputs its caster copies (string slices)")
    ck.rule("R2", "shape coverage: every hir::Type variant that can carry lifetimes gets an edge kind without panicking (options are unwrapped first); the only early exit of visit_param is `no lifetime is used by the return type`; the return type's lifetime set covers Ok and Err payloads of every ReturnType constructor", exhaustive=True)
    ck.rule("R3", "graph construction direction: `'long: 'short` is recorded as short.longer += long and long.shorter += short; implied bounds are added for references reached through &, Option and Result; AST->HIR copies longer->longer, shorter->shorter; the visitor asks for all_longer_lifetimes, which walks the `longer` edges")
    ck.rule("R4", "validation restates implied bounds: validate_ty_in_method compares use-site and def-site `longer` sets and reports a missing bound")
    ck.not_decided += ["that the reported edge set is exactly the semantic outlives-closure for every signature (algorithmic statement over inputs)"]

    js_runtime_rest_rule(ck, "R1")
    # `is_self = true` tells lower_generics to substitute the lifetimes cached for `Self`: only the functions that lower a receiver may say so outright; every
    # type lowerer passes what the type itself says (`ty.is_self()`), or a parameter's lifetimes are replaced by the receiver's and its borrow edges vanish
    nlg = 0
    for f in core.fn_list:
        if "hir" not in f or "::hir::lowering::" not in f["path"] or f.get("dk") == "Closure":
            continue
        for n in C.walk(C.fn_body(f)):
            if n.get("k") == "mcall" and n.get("m") == "lower_generics" and len(n.get("a") or []) >= 3:
                nlg += 1
                a2 = C.strip(n["a"][2])
                if a2.get("k") == "lit" and str(a2.get("v")).lower() == "true":
                    recv_fn = any("SelfParam" in str(t_) for t_ in (f.get("inputs") or []))
                    ck.expect(recv_fn, "R3", "%s/is_self-literal-only-for-receivers#%d" % (C.norm_path(f["path"]).split("::")[-1], sum(1 for i in ck.instances if "/is_self-literal-only-for-receivers#" in i["key"])),
                              "receiver lowering", "%s passes `is_self = true` to lower_generics although it does not lower a receiver: the lifetimes written on the type are replaced by the "
                              "ones cached for Self, and the borrow edges from that parameter to the output are lost" % C.norm_path(f["path"]).split("::")[-1], C.loc(f, n.get("ln")))
    if nlg < 10:
        ck.bad("R3", "lower_generics/floor", "only %d lower_generics call sites found in hir::lowering (13 counted)" % nlg)
    # ---------------- R1
    gens = [("js::gen::TyGenContext::generate_method", "js"), ("dart::TyGenContext::gen_method_info", "dart"), ("kotlin::TyGenContext::gen_method", "kotlin"),
            ("nanobind::ty::TyGenContext::gen_method_info", "nanobind")]
    import order as _order

    def _has_visitor(g_):
        return any(n.get("k") == "letst" and n.get("init") and C.strip(n["init"]).get("k") == "mcall" and C.strip(n["init"]).get("m") == "borrowing_param_visitor" for n in C.walk(C.fn_body(g_)))
    for path, label in gens:
        f = _order.holder(tool, tool.fn(path), _has_visitor)     # the generator, or the phase function it delegates the borrow analysis to
        body = C.fn_body(f)
        vis = [n for n in C.walk(body) if n.get("k") == "letst" and n.get("init") and C.strip(n["init"]).get("k") == "mcall" and C.strip(n["init"]).get("m") == "borrowing_param_visitor"]
        if len(vis) != 1:
            ck.bad("R1", label + "/visitor", "expected one `method.borrowing_param_visitor(..)` binding, found %d" % len(vis), C.loc(f))
            continue
        vname, vid = vis[0]["pat"].get("n"), vis[0]["pat"].get("id")
        visits = [n for n in C.walk(body) if n.get("k") == "mcall" and n.get("m") == "visit_param" and C.strip(n["recv"]).get("id") == vid]
        # self visit: a visit_param whose type argument derives from param_self
        self_visit = [n for n in visits if any(x.get("k") == "field" and x.get("n") == "param_self" for x in C.walk(n["a"][0])) or any(x.get("k") == "local" and x.get("n") in ("param_self", "s", "self_param") for x in C.walk(n["a"][0]))]
        # or: a visit lexically inside a match / if-let / closure over the receiver (`match self_type { Some(st @ ..) => visitor.visit_param(&st..) }`)
        for n in C.walk(body):
            scr = None
            if n.get("k") == "match":
                scr = n["s"]
            elif n.get("k") == "if" and C.strip(n["c"]).get("k") == "let":
                scr = C.strip(n["c"])["init"]
            elif n.get("k") == "mcall" and n.get("m") in ("map", "for_each"):
                scr = n["recv"]
            if scr is not None and any((x.get("k") == "field" and x.get("n") == "param_self") or (x.get("k") == "local" and x.get("n") in ("self_type", "self_param", "param_self")) for x in C.walk(scr)):
                self_visit += [v for v in visits if any(v is x for x in C.walk(n)) and v not in self_visit]
        # when the receiver is dispatched by kind (`match self_type { Some(SelfType::Opaque(..)) => .., Some(SelfType::Struct(..)) => .. }`),
        # every lifetime-carrying kind (opaque, struct) must visit it
        for n in C.walk(body):
            if n.get("k") != "match" or not any((x.get("k") == "local" and x.get("n") in ("self_type", "self_param", "param_self")) or (x.get("k") == "field" and x.get("n") == "param_self") for x in C.walk(n["s"])):
                continue
            kinds_seen = {}
            for arm in n["arms"]:
                vs = set()

                def pv(p_):
                    if isinstance(p_, dict):
                        if p_.get("v") and "SelfType" in (p_.get("adt") or p_.get("v") or ""):
                            vs.add(p_["v"].split("::")[-1])
                        for q in (p_.get("alts") or []) + ([p_["sub"]] if isinstance(p_.get("sub"), dict) else (p_.get("sub") or [] if isinstance(p_.get("sub"), list) else [])):
                            pv(q.get("p") if isinstance(q, dict) and "p" in q and "k" not in q else q)
                pv(arm["pat"])
                for v_ in vs:
                    kinds_seen[v_] = any(x.get("k") == "mcall" and x.get("m") == "visit_param" for x in C.walk(arm["b"]))
            need = {k_: v_ for k_, v_ in kinds_seen.items() if k_ in ("Opaque", "Struct")}
            if need and any(kinds_seen.values()):   # this match is where the receiver gets visited
                ck.expect(all(need.values()), "R1", label + "/visits-self-per-kind", str(need),
                          "the receiver is dispatched by kind but only %s visit it (%s): a value returned by a method of the other kind that borrows from `self` gets no edge" % ([k_ for k_, v_ in need.items() if v_], need), C.loc(f, n.get("ln")))
        # param visit inside a loop over method.params
        fdefs = flow.defs_of(f)
        KEEP_ALL = {"iter", "collect", "clone", "to_vec", "into_iter", "sort", "sort_by", "sort_by_key", "sort_unstable", "sort_unstable_by_key", "rev", "copied", "cloned",
                    "as_slice", "iter_mut", "enumerate", "peekable", "by_ref", "to_owned", "as_ref", "deref"}

        def all_params(e, depth=0):
            """does expression e denote ALL of method.params (possibly copied / reordered, never filtered)?"""
            e = C.strip(e)
            if not isinstance(e, dict) or depth > 8:
                return False
            if e.get("k") == "field" and e.get("n") == "params":
                return True
            if e.get("k") == "mcall":
                return e.get("m") in KEEP_ALL and all_params(e["recv"], depth + 1)
            if e.get("k") == "local":
                d = fdefs.get(e.get("id"))
                return bool(d) and d[0] == "expr" and all_params(d[1], depth + 1)
            if e.get("k") in ("addr", "deref", "paren"):
                return all_params(list(C.children(e))[0], depth + 1)
            return False
        loops = [n for n in C.walk(body) if n.get("k") == "for" and (any(x.get("k") == "field" and x.get("n") == "params" for x in C.walk(n["iter"])) or all_params(n["iter"]))]
        maps = [n for n in C.walk(body) if n.get("k") == "mcall" and n.get("m") in ("map", "for_each", "extend") and any(x.get("k") == "field" and x.get("n") == "params" for x in C.walk(n["recv"] if n.get("m") != "extend" else n["a"][0]))]
        in_loop = []
        uncond = False
        for lp in loops:
            for v in visits:
                if any(v is x for x in C.walk(lp["body"])):
                    in_loop.append(v)
                    # unconditional w.r.t. the parameter's type: a direct statement of the loop body, or only under a `match param.ty` that visits in every lifetime-carrying arm
                    items = lp["body"].get("s", []) + ([lp["body"]["e"]] if lp["body"].get("e") else [])
                    for it in items:
                        inner = C.strip(it)
                        if inner is v or (inner.get("k") == "letst" and any(v is x for x in C.walk(inner.get("init") or {})) and not any(x.get("k") in ("if", "match") and any(v is y for y in C.walk(x)) for x in C.walk(inner.get("init") or {}))):
                            uncond = True
                        if inner.get("k") == "semi" and C.strip(inner["e"]) is v:
                            uncond = True
        for mp in maps:
            for v in visits:
                if any(v is x for x in C.walk(mp)):
                    in_loop.append(v)
                    uncond = True
        typed_match_ok = False
        if in_loop and not uncond:
            # kotlin: visit inside `match param.ty` arms - require arms for Struct/Opaque/Slice all to visit
            for lp in loops:
                for n in C.walk(lp["body"]):
                    if n.get("k") == "match" and (n.get("sadt") or "").endswith("hir::types::Type"):
                        covered = set()
                        for a in n["arms"]:
                            if any(x.get("k") == "mcall" and x.get("m") == "visit_param" for x in C.walk(a["b"])):
                                pv = a["pat"]
                                covered |= {q.get("v") for q in ([pv] if pv.get("k") != "or" else pv["alts"])}
                        if covered >= {"Struct", "Opaque", "Slice"}:
                            typed_match_ok = True
        ck.expect(bool(self_visit), "R1", label + "/visits-self", "", "the receiver is not passed to visit_param: a returned value borrowing from `self` gets no edge", C.loc(f))
        ck.expect(bool(in_loop) and (uncond or typed_match_ok), "R1", label + "/visits-every-param", "unconditional" if uncond else "in every lifetime-carrying arm",
                  "parameters are not all passed to visit_param (visit inside the params loop: %s, unconditional: %s)" % (bool(in_loop), uncond), C.loc(f))
        bm = [n for n in C.walk(body) if n.get("k") == "mcall" and n.get("m") == "borrow_map" and C.strip(n["recv"]).get("id") == vid]
        # borrow_map consumed after the visits (statement order at top level)
        items = body.get("s", []) + ([body["e"]] if body.get("e") else [])
        def idx_of(node):
            for i, it in enumerate(items):
                if any(node is x for x in C.walk(it)):
                    return i
            return None
        ok_order = bool(bm) and all((idx_of(v) is None or idx_of(bm[0]) is None or idx_of(v) <= idx_of(bm[0])) for v in visits)
        if not bm:
            # nanobind style: the ParamBorrowInfo returned by every visit is collected and turned into keep_alive arguments
            coll = [n for n in C.walk(body) if n.get("k") == "letst" and n.get("init") and any(v is x for v in visits for x in C.walk(n["init"]))]
            ids_ = {bid for n in coll for bid in C.pat_bind_ids(n["pat"])}
            # (the collected infos feed the list of `nb::keep_alive<..>` arguments, whatever that list is called)
            used_later = any(x.get("k") == "local" and x.get("id") in ids_ for n in C.walk(body) if n.get("k") == "mcall" and n.get("m") in ("extend", "push") and
                             any("keep_alive" in l_ for l_ in C.str_lits(n)) for x in C.walk(n))
            ok_order = bool(coll) and used_later
        if True:
            ck.expect(ok_order, "R1", label + "/borrow_map-after-visits", "", "borrow_map() of the visitor is not consumed after all visit_param calls (%d consumers)" % len(bm), C.loc(f))

    # the backends that copy slice fields of a struct into arenas (js, dart) use the borrow information of EVERY visited value -- receiver included: the
    # ParamBorrowInfo returned by visit_param is bound and inspected for its Struct case (whose lifetime map selects the arenas tied to the output)
    for path, label in gens[:2]:
        f = tool.fn(path)
        holders = C.fns_inl(tool, f, depth=1)
        nv = 0
        for g_ in holders:
            gb = C.fn_body(g_)
            bound_inits = {id(C.strip(n["init"])): n for n in C.walk(gb) if n.get("k") == "letst" and n.get("init") is not None}
            for n in C.walk(gb):
                if not (n.get("k") == "mcall" and n.get("m") == "visit_param"):
                    continue
                nv += 1
                is_self = any(l_ in ("this", "self") for l_ in C.str_lits(n["a"][1])) if len(n.get("a") or []) > 1 else False
                let = bound_inits.get(id(n))
                used = False

                def inspects_struct(fn_, lid_, depth=0):
                    """fn_ looks at the ParamBorrowInfo held in local lid_ for its Struct case -- itself, or by handing it to a helper that does"""
                    fb_ = C.fn_body(fn_)
                    for x in C.walk(fb_):
                        pats = []
                        if x.get("k") == "if":
                            c_ = C.strip_keep_macro(x["c"])
                            if isinstance(c_, dict) and c_.get("k") == "let" and any(y.get("k") == "local" and y.get("id") == lid_ for y in C.walk(c_.get("init"))):
                                pats.append(c_.get("pat"))
                        if x.get("k") == "match" and any(y.get("k") == "local" and y.get("id") == lid_ for y in C.walk(x.get("s"))):
                            pats += [a_["pat"] for a_ in x["arms"]]
                        if x.get("k") == "letst" and x.get("els") is not None and x.get("init") is not None and any(y.get("k") == "local" and y.get("id") == lid_ for y in C.walk(x["init"])):
                            pats.append(x.get("pat"))
                        for p_ in pats:
                            for q in C.walk(p_) if isinstance(p_, dict) else []:
                                if q.get("k") == "variant" and q.get("v") == "Struct" and "ParamBorrowInfo" in (q.get("adt") or ""):
                                    return True
                        if depth < 2 and x.get("k") in ("call", "mcall"):
                            args = ([x["recv"]] + list(x.get("a") or [])) if x.get("k") == "mcall" else list(x.get("a") or [])
                            cal = tool.norm.get(C.norm_path(x.get("p") or C.callee(x) or ""))
                            if cal and "hir" in cal and cal is not fn_:
                                for j_, a_ in enumerate(args):
                                    if any(y.get("k") == "local" and y.get("id") == lid_ for y in C.walk(a_)):
                                        ps_ = cal["hir"].get("params") or []
                                        if j_ < len(ps_) and isinstance(ps_[j_], dict) and ps_[j_].get("id") is not None and inspects_struct(cal, ps_[j_]["id"], depth + 1):
                                            return True
                    return False
                if let is not None and let["pat"].get("k") == "bind":
                    lid = let["pat"].get("id")
                    used = inspects_struct(g_, lid)
                    for x in []:
                        pats = []
                        if x.get("k") == "if":
                            c_ = C.strip_keep_macro(x["c"])
                            if isinstance(c_, dict) and c_.get("k") == "let" and any(y.get("k") == "local" and y.get("id") == lid for y in C.walk(c_.get("init"))):
                                pats.append(c_.get("pat"))
                        if x.get("k") == "match" and any(y.get("k") == "local" and y.get("id") == lid for y in C.walk(x.get("s"))):
                            pats += [a_["pat"] for a_ in x["arms"]]
                        for p_ in pats:
                            for q in C.walk(p_) if isinstance(p_, dict) else []:
                                if q.get("k") == "variant" and q.get("v") == "Struct" and "ParamBorrowInfo" in (q.get("adt") or ""):
                                    used = True
                key = "%s/%s-borrow-info-used" % (label, "self" if is_self else "param")
                ck.expect(used, "R1", key, "Struct case inspected", "%s discards (or never inspects the Struct case of) the borrow information visit_param returns for %s: slice fields of a struct the output borrows from are "
                          "copied into the call's temporary arena and released while the returned value still points into them" % (label, "the receiver" if is_self else "a parameter"), C.loc(g_, n.get("ln")))
        if nv < 2:
            ck.bad("R1", label + "/visit_param-floor", "only %d visit_param calls found (2 counted: self, params)" % nv, C.loc(f))

    # JS struct template: a struct's own field is always reached through the instance (`this.#f`, `structObj.f`), never as a bare identifier -- the lifetime-edge getters are
    # ordinary class members, a bare `f._fieldsForLifetimeA` is a ReferenceError the first time a method borrowing from a nested struct parameter is called
    import tmpl as _t
    fl_js = _t.strip_stmts(_t.flat_file("js/struct.js.jinja", resolve_includes=False))
    nuse, bare = 0, []
    for m_ in re.finditer(r"⟦\s*(?:\w+\.)?field_name\s*⟧", fl_js):
        pre, post = fl_js[:m_.start()].rstrip(" "), fl_js[m_.end():].lstrip(" ")
        nuse += 1
        line = fl_js[fl_js.rfind("\n", 0, m_.start()) + 1:m_.start()]
        in_str = line.count('"') % 2 == 1 or line.count("'") % 2 == 1 or line.count("`") % 2 == 1
        if pre.endswith("..."):
            bare.append(fl_js[max(0, m_.start() - 10):m_.end() + 12].strip())
        elif pre[-1:] in "#.\"'`" or in_str or re.search(r"\b(get|set|const|let|static|var)$", pre) or re.match(r"\??\s*:", post) or pre[-1:] in "\n{;":
            continue
        else:
            bare.append(fl_js[max(0, m_.start() - 10):m_.end() + 12].strip())
    ck.expect(nuse >= 10 and not bare, "R6", "js/struct.js.jinja/fields-through-instance", "%d uses of a field name" % nuse,
              "the JS struct template uses a field as a bare identifier (%s): inside the class that name is not in scope, the lifetime-edge getter throws instead of listing what the struct borrows from" % bare[:2], "tool/templates/js/struct.js.jinja")

    # ---------------- R2
    tl = core.fn("hir::types::Type::lifetimes")
    mt = next((n for n in C.walk(C.fn_body(tl)) if n.get("k") == "match" and (n.get("sadt") or "").endswith("hir::types::Type")), None)
    carriers = set()
    if mt:
        for v, hits in C.decision_table(mt, adts, "diplomat_core::hir::types::Type"):
            arm = next((i for i, c in hits if not c), None)
            if arm is None:
                continue
            b = C.strip(mt["arms"][arm]["b"])
            empty = any((C.callee(x) or "").endswith("iter::sources::empty::empty") or (x.get("k") == "mcall" and x.get("m") == "iter" and C.strip(x["recv"]).get("k") == "array" and not C.strip(x["recv"]).get("a")) for x in C.walk(b)) and not any(x.get("k") == "mcall" and x.get("m") in ("lifetimes", "lifetime") for x in C.walk(b))
            if not empty:
                carriers.add(v.variant)
    ck.expect(carriers == {"Opaque", "Struct", "Slice", "DiplomatOption"}, "R2", "Type::lifetimes/carriers", str(sorted(carriers)), "hir::Type variants that can carry lifetimes are now %s; visit_param's edge kinds must be re-triaged" % sorted(carriers), C.loc(tl))
    vp = core.fn("hir::methods::borrowing_param::BorrowingParamVisitor::visit_param")
    body = C.fn_body(vp)
    items = body.get("s", []) + ([body["e"]] if body.get("e") else [])
    unwrap_idx = next((i for i, s in enumerate(items) if s.get("k") == "letst" and s["pat"].get("n") == "ty" and C.strip(s["init"]).get("k") == "mcall" and C.strip(s["init"]).get("m") == "unwrap_option"), None)
    first_match = next((i for i, s in enumerate(items) if any(x.get("k") in ("match",) or (x.get("k") == "if" and C.strip(x["c"]).get("k") == "let") for x in C.walk(s))), None)
    ck.expect(unwrap_idx is not None and (first_match is None or unwrap_idx < first_match), "R2", "visit_param/options-unwrapped-first", "", "visit_param matches on the outer type without unwrapping DiplomatOption first: optional struct/slice parameters get no edge (or hit unreachable!)", C.loc(vp))
    kinds = {}
    vp_nodes = [x for b_ in C.bodies_inl(core, body, depth=1, exclude=[vp["path"]]) for x in C.walk(b_)]     # visit_param and the per-shape phases it may be split into
    for n in vp_nodes:
        if n.get("k") == "match" and (n.get("sadt") or "").endswith("hir::types::Type"):
            for a in n["arms"]:
                ctors = [x.get("ctor", "").split("::")[-1] for x in C.walk(a["b"]) if x.get("k") == "def" and "LifetimeEdgeKind" in (x.get("ctor") or "")]
                pv = a["pat"]
                for q in ([pv] if pv.get("k") != "or" else pv["alts"]):
                    if ctors:
                        kinds[q.get("v")] = ctors[0]
    struct_edge = any(x.get("k") == "call" and (x.get("ctor") or "").endswith("LifetimeEdgeKind::StructLifetime") for x in vp_nodes)
    ck.expect(kinds.get("Slice") == "SliceParam" and kinds.get("Opaque") == "OpaqueParam" and struct_edge, "R2", "visit_param/edge-kinds", "%s + StructLifetime" % kinds, "edge kinds per shape changed: %s (struct edge: %s)" % (kinds, struct_edge), C.loc(vp))
    rets = [n for n in C.walk(body) if n.get("k") == "ret"]
    first_if = next((C.strip(s) for s in items if C.strip(s).get("k") == "if"), None)
    ok_ret = first_if is not None and C.strip(first_if["c"]).get("k") == "mcall" and C.strip(first_if["c"]).get("m") == "is_empty" and any(x.get("k") == "field" and x.get("n") == "used_method_lifetimes" for x in C.walk(first_if["c"])) \
        and all(any(r is x for x in C.walk(first_if["t"])) for r in rets)
    ck.expect(ok_ret, "R2", "visit_param/only-early-exit", "%d returns, all under used_method_lifetimes.is_empty()" % len(rets),
              "visit_param has an early return that is not `used_method_lifetimes.is_empty()`: parameters whose lifetime merely outlives a used lifetime (via bounds) would be skipped", C.loc(vp))
    # the longer-set test is what selects an edge
    contains = [n for n in vp_nodes if n.get("k") == "mcall" and n.get("m") == "contains" and any(x.get("k") == "field" and x.get("n") == "all_longer_lifetimes" for x in C.walk(n["recv"]))]
    ck.expect(len(contains) >= 2, "R2", "visit_param/uses-longer-closure", "%d tests" % len(contains), "edges are no longer selected by membership in all_longer_lifetimes", C.loc(vp))
    # used_method_lifetimes covers ok and err payloads
    um = core.fn("hir::methods::ReturnType::used_method_lifetimes")
    mt = next((n for n in C.walk(C.fn_body(um)) if n.get("k") == "match" and "ReturnType" in (n.get("sty") or "")), None)
    if not mt:
        ck.bad("R2", "used_method_lifetimes/table", "match on ReturnType not found (the helper must inspect Ok and Err payloads of every constructor)", C.loc(um))
    else:
        m2 = dict(mt)
        m2["sadt"] = RT
        bad = []
        n = 0
        for v, hits in C.decision_table(m2, adts, RT):
            arm = next((i for i, c in hits if not c), None)
            succ = v.subs[0] if v.subs else None
            err = v.subs[1] if v.subs and len(v.subs) > 1 else None
            need_ok = succ is not None and succ.variant == "OutType"
            need_err = v.variant == "Fallible"
            if arm is None:
                bad.append(v.show())
                continue
            b = mt["arms"][arm]["b"]
            adds = sum(1 for x in C.walk(b) if x.get("k") == "call" and C.strip(x["f"]).get("k") == "local" and C.strip(x["f"]).get("n") == "add_to_set")
            n += 1
            if v.variant == "Fallible":
                if adds < 2:
                    bad.append("%s: %d payload visits (Ok and Err are both needed)" % (v.show(), adds))
            elif need_ok and adds < 1:
                bad.append("%s: Ok payload not visited" % v.show())
        ck.expect(not bad and n >= 3, "R2", "used_method_lifetimes/table", "%d cells" % n, "the set of lifetimes used by the return type ignores %s: inputs borrowed only by that payload get no edge" % bad[:3], C.loc(um))
    bn = core.fn("hir::methods::borrowing_param::BorrowingParamVisitor::new")
    okn = any(x.get("k") == "mcall" and x.get("m") == "used_method_lifetimes" and any(y.get("k") == "field" and y.get("n") == "output" for y in C.walk(x["recv"])) for x in C.walk(C.fn_body(bn))) \
        and any(x.get("k") == "mcall" and x.get("m") == "all_longer_lifetimes" for x in C.walk(C.fn_body(bn)))
    ck.expect(okn, "R2", "BorrowingParamVisitor::new/closure-per-used-lifetime", "", "the visitor no longer computes all_longer_lifetimes for each lifetime used by method.output", C.loc(bn))

    # ---------------- R3
    eb = core.fn("ast::lifetimes::LifetimeEnv::extend_bounds")
    body = C.fn_body(eb)
    pushes = [n for n in C.walk(body) if n.get("k") == "mcall" and n.get("m") == "push"]
    rec = {}
    for p in pushes:
        r = C.strip(p["recv"])
        if r.get("k") == "field" and C.strip(r["e"]).get("k") == "index":
            idx = C.strip(C.strip(r["e"])["i"])
            rec[r["n"]] = (idx.get("n"), C.strip(p["a"][0]).get("n"))
    # which local is the `long` one: bound from id(<outer loop variable>)
    defs = flow.defs_of(eb)
    outer = next((n for n in C.walk(body) if n.get("k") == "for"), None)
    long_ok = False
    if outer and outer["pat"].get("k") == "tuple":
        lt_name = outer["pat"]["sub"][0].get("n")
        bounds_name = outer["pat"]["sub"][1].get("n")
        long_let = next((n for n in C.walk(body) if n.get("k") == "letst" and n["pat"].get("n") == "long"), None)
        short_let = next((n for n in C.walk(body) if n.get("k") == "letst" and n["pat"].get("n") == "short"), None)
        if long_let and short_let:
            long_src = {x.get("n") for x in C.walk(long_let["init"]) if x.get("k") == "local"}
            short_src = {x.get("n") for x in C.walk(short_let["init"]) if x.get("k") == "local"}
            inner = next((n for n in C.walk(outer["body"]) if n.get("k") == "for"), None)
            inner_var = inner["pat"].get("n") if inner else None
            inner_iter_ok = inner is not None and is_local(inner["iter"], bounds_name)
            long_ok = lt_name in long_src and inner_var in short_src and inner_iter_ok
    ck.expect(long_ok and rec.get("longer") == ("short", "long") and rec.get("shorter") == ("long", "short"), "R3", "extend_bounds/direction", "nodes[short].longer.push(long); nodes[long].shorter.push(short)",
              "`'long: 'short` is recorded as %s (long derives from the bounded lifetime: %s)" % (rec, long_ok), C.loc(eb))
    ei = core.fn("ast::lifetimes::LifetimeEnv::extend_implicit_lifetime_bounds")
    mt = next((n for n in C.walk(C.fn_body(ei)) if n.get("k") == "match" and (n.get("sadt") or "").endswith("ast::types::TypeName")), None)
    if not mt:
        ck.bad("R3", "extend_implicit_lifetime_bounds/table", "match on TypeName not found", C.loc(ei))
    else:
        rec_by = {}
        for v, hits in C.decision_table(mt, adts, "diplomat_core::ast::types::TypeName"):
            arm = next((i for i, c in hits if not c), None)
            if arm is None:
                continue
            calls = [x for x in C.walk(mt["arms"][arm]["b"]) if x.get("k") == "mcall" and x.get("m") == "extend_implicit_lifetime_bounds"]
            rec_by[v.variant] = len(calls)
        # constructors through which a reference to a lifetime-carrying type is reachable in accepted signatures (C05: &T, Option<&T>, Result<&T, &E>)
        want = {"Reference": 1, "Option": 1, "Result": 2}
        for k, nrec in want.items():
            ck.expect(rec_by.get(k, 0) >= nrec, "R3", "extend_implicit_lifetime_bounds/recurses-into-" + k, "%d recursive calls" % rec_by.get(k, 0),
                      "implied bounds are not collected through TypeName::%s (%d recursive calls, %d needed): `%s` would contribute no `'b: 'a` bound" % (k, rec_by.get(k, 0), nrec, {"Reference": "&'a T<'b>", "Option": "Option<&'a T<'b>>", "Result": "Result<&'a T<'b>, _>"}[k]), C.loc(ei))
        # Named arm: (path_lifetime, Some(borrow_lifetime)) -> the type's lifetime is the longer one
        named = next((a for a in mt["arms"] if a["pat"].get("v") == "Named"), None)
        okt = False
        if named:
            defs_ei = dict(flow.defs_of(ei))
            ei_params = [p_.get("id") for p_ in ei["hir"].get("params", []) if isinstance(p_, dict)]
            borrow_param = ei_params[-1] if ei_params else None      # (&mut self, typ, behind_ref)

            def from_param(e_, pid, depth=0):
                for y in C.walk(e_):
                    if y.get("k") == "local":
                        if y.get("id") == pid:
                            return True
                        d_ = defs_ei.get(y.get("id"))
                        if d_ and d_[0] in ("expr", "destructure") and d_[1] is not None and depth < 4 and from_param(d_[1], pid, depth + 1):
                            return True
                return False

            def chain_has_lifetimes(e_, depth=0):
                # the iterator a closure parameter ranges over comes from the named type's own `lifetimes`
                for y in C.walk(e_):
                    if y.get("k") == "field" and y.get("n") == "lifetimes":
                        return True
                    if y.get("k") == "local" and depth < 5:
                        d_ = defs_ei.get(y.get("id"))
                        if d_ and d_[0] in ("expr", "destructure", "iter") and d_[1] is not None and chain_has_lifetimes(d_[1], depth + 1):
                            return True
                        # a vector filled by `push` in a loop: what is pushed
                        for pz in C.walk(C.fn_body(ei)):
                            if pz.get("k") == "mcall" and pz.get("m") in ("push", "extend", "insert") and C.strip(pz["recv"]).get("k") == "local" and C.strip(pz["recv"]).get("id") == y.get("id") \
                                    and any(chain_has_lifetimes(a_, depth + 1) for a_ in pz.get("a") or []):
                                return True
                return False
            for mc in C.walk(named["b"]):
                if mc.get("k") != "mcall" or not mc.get("a"):
                    continue
                for x in mc["a"]:
                    x = C.strip(x)
                    if x.get("k") != "closure":
                        continue
                    t = C.strip(x["body"])
                    if t.get("k") == "tup" and len(t["a"]) == 2:
                        a0 = C.strip(t["a"][0])
                        a1 = C.strip(t["a"][1])
                        cparams = set()
                        for p_ in x.get("params", []):
                            cparams |= set(C.pat_bind_ids(p_))
                        okt = okt or (a0.get("k") == "local" and a0.get("id") in cparams and chain_has_lifetimes(mc["recv"]) and from_param(a1, borrow_param) and not from_param(a0, borrow_param))
        ck.expect(okt, "R3", "extend_implicit_lifetime_bounds/pair-order", "(a lifetime of the named type, Some(the borrow's lifetime))", "the implied bound for &'a T<'b> is not recorded as 'b: 'a (type lifetime longer than the borrow)", C.loc(ei))
    ln = core.fn("hir::lowering::LoweringContext::lower_named_lifetime")
    def ctor_field_sources(fn_, adt_sfx, fld):
        """like flow.struct_field_sources, for a value built through a constructor function `T::new(a, b, c)` whose body is `T { f: a, .. }`"""
        out = []
        defs_ = flow.defs_of(fn_)
        for x in C.walk(C.fn_body(fn_)):
            if x.get("k") != "call":
                continue
            cal = core.norm.get(C.norm_path(x.get("p") or C.callee(x) or ""))
            if not cal or "hir" not in cal:
                continue
            lit = next((y for y in C.walk(C.fn_body(cal)) if y.get("k") == "struct" and (y.get("adt") or "").endswith(adt_sfx)), None)
            if lit is None:
                continue
            ps_ = [p_.get("id") for p_ in cal["hir"].get("params") or [] if isinstance(p_, dict)]
            for fl_ in lit.get("fields") or []:
                e_ = C.strip(fl_["e"])
                if fl_["n"] == fld and e_.get("k") == "local" and e_.get("id") in ps_ and ps_.index(e_["id"]) < len(x.get("a") or []):
                    out.append((x, flow.trace(x["a"][ps_.index(e_["id"])], defs_)))
        return out
    for fld in ("longer", "shorter"):
        res = flow.struct_field_sources(ln, "BoundedLifetime", fld) or ctor_field_sources(ln, "BoundedLifetime", fld)
        ok = bool(res) and all({l[1] for l in leaves if l[0] == "field" and l[1] in ("longer", "shorter")} == {fld} for _, leaves in res)
        ck.expect(ok, "R3", "lower_named_lifetime/" + fld, "%s <- %s" % (fld, fld), "HIR BoundedLifetime.%s is not copied from the AST node's `%s` list" % (fld, fld), C.loc(ln))
    # the selector value all_longer_lifetimes / all_shorter_lifetimes hand to the transitive iterator is the one under which the iterator
    # (or the helper it delegates to) walks `.longer` / `.shorter`: a bool flag tested by `if`, or an enum matched on
    it = core.fn("<diplomat_core::hir::lifetimes::LifetimeTransitivityIterator<'env> as core::iter::traits::iterator::Iterator>::next")

    def edge_fields(n_):
        return {y.get("n") for y in C.walk(n_) if y.get("k") == "field" and y.get("n") in ("longer", "shorter") and "BoundedLifetime" in (y.get("bty") or "BoundedLifetime")}
    sel_map = {}
    for b_ in C.bodies_inl(core, C.fn_body(it), depth=2):
        for x in C.walk(b_):
            if x.get("k") == "if" and x.get("e") is not None and C.strip(x["c"]).get("k") in ("field", "local") and len(edge_fields(x["t"])) == 1 and len(edge_fields(x["e"])) == 1:
                sel_map.setdefault(True, set()).update(edge_fields(x["t"]))
                sel_map.setdefault(False, set()).update(edge_fields(x["e"]))
            if x.get("k") == "match" and all(len(edge_fields(a_["b"])) == 1 for a_ in x["arms"]) and len(x["arms"]) >= 2:
                for a_ in x["arms"]:
                    pv = a_["pat"]
                    key = pv.get("v") if pv.get("k") == "variant" else (pv.get("v") if pv.get("k") == "lit" else None)
                    if key is not None:
                        sel_map.setdefault(key, set()).update(edge_fields(a_["b"]))

    def selector_of(fn_):
        c_ = next((x for x in C.walk(C.fn_body(fn_)) if x.get("k") == "call" and (C.callee(x) or "").endswith("LifetimeTransitivityIterator::new")), None)
        if not c_ or len(c_["a"]) < 3:
            return None
        a_ = C.strip(c_["a"][2])
        if a_.get("k") == "lit":
            return a_.get("v")
        if a_.get("k") == "def" and (a_.get("ctor") or a_.get("p")):
            return (a_.get("ctor") or a_.get("p")).split("::")[-1]
        return None
    for nm, want in (("all_longer_lifetimes", "longer"), ("all_shorter_lifetimes", "shorter")):
        hf = core.fn("hir::lifetimes::LifetimeEnv::" + nm)
        sv = selector_of(hf)
        got = sel_map.get(sv)
        ck.expect(got == {want}, "R3", nm + "/direction", "selector %r walks .%s" % (sv, want),
                  "%s asks the transitive iterator for selector %r, under which it walks %s (selector table %s): the closure is taken in the wrong direction" % (nm, sv, sorted(got) if got else "no edge list", {k: sorted(v) for k, v in sel_map.items()}), C.loc(hf))

    # ---------------- R4
    vt = core.fn("hir::type_context::TypeContext::validate_ty_in_method")
    body = C.fn_body(vt)
    uses_longer = sum(1 for x in C.walk(body) if x.get("k") == "field" and x.get("n") == "longer")
    pushes = [x for x in C.walk(body) if x.get("k") == "mcall" and x.get("m") == "push" and (C.callee(x) or "").endswith("ErrorStore::push")]
    linked = any(x.get("k") == "mcall" and x.get("m") == "link_lifetimes" for x in C.walk(body))
    ck.expect(uses_longer >= 2 and len(pushes) >= 1 and linked, "R4", "validate_ty_in_method/compares-longer-sets", "%d reads of .longer, %d error sites" % (uses_longer, len(pushes)),
              "validate_ty_in_method no longer compares use-site and def-site `longer` sets / reports a missing bound (reads: %d, errors: %d)" % (uses_longer, len(pushes)), C.loc(vt))
    # both the def-site bound check and the `&'a T<'b>` (self lifetime) check are present: two distinct error messages
    msgs = set()
    for p in pushes:
        msgs |= {s[:40] for s in C.str_lits(p["a"][0])}
    vt_defs = dict(flow.defs_of(vt))

    def is_linked(x):
        # a local holding the result of `link_lifetimes(..)` (whatever it is called)
        if x.get("k") != "local":
            return False
        d_ = vt_defs.get(x.get("id"))
        return bool(d_) and d_[0] == "expr" and any(y.get("k") == "mcall" and y.get("m") == "link_lifetimes" for y in C.walk(d_[1]))
    loop = next((n for n in C.walk(body) if n.get("k") == "for" and any(is_linked(x) for x in C.walk(n["iter"]))), None)
    itm = C.strip(loop["iter"]).get("m") if loop and C.strip(loop["iter"]).get("k") == "mcall" else None
    ck.expect(itm == "lifetimes_all", "R4", "validate_ty_in_method/includes-reference-lifetime", "iterates linked.lifetimes_all()",
              "validate_ty_in_method iterates linked.%s(): the reference's own lifetime (`&'a T<'b>` => 'b: 'a) is no longer checked, only bounds declared on the type definition" % itm, C.loc(vt))


    # ---------------- R5 positional pairing, keep_alive suppression set
    PRESERVING = {"iter", "map", "copied", "cloned", "lifetimes", "all_lifetimes", "enumerate", "into_iter", "as_slice", "iter_mut", "by_ref", "peekable"}
    nz = 0
    for f in core.fn_list:
        if "hir" not in f or "::hir::" not in f["path"]:
            continue
        for n in C.walk(C.fn_body(f)):
            if n.get("k") == "mcall" and n.get("m") == "zip":
                def chain(x):
                    out = []
                    x = C.strip(x)
                    while isinstance(x, dict) and x.get("k") == "mcall":
                        out.append(x["m"])
                        x = C.strip(x["recv"])
                    return out
                both = chain(n["recv"]) + chain(n["a"][0])
                badm = [m_ for m_ in both if m_ not in PRESERVING]
                nz += 1
                key = "%s/zip#%d" % (C.norm_path(f["path"]).split("::", 1)[1], sum(1 for i in ck.instances if i["rule"] == "R5" and i["key"].startswith(C.norm_path(f["path"]).split("::", 1)[1] + "/zip")))
                ck.expect(not badm, "R5", key, "zip(%s)" % both, "one side of the use-site/def-site pairing passes through %s before the zip: positions shift (e.g. a `'static` argument in an earlier slot "
                          "pairs every later lifetime with the wrong definition-site lifetime)" % badm, C.loc(f, n.get("ln")))
    if nz < 1:     # two on the pinned tree (lifetimes_def_only, lifetimes_all); one when lifetimes_all is built on lifetimes_def_only
        ck.bad("R5", "zip-floor", "no zip pairing of use-site and def-site lifetimes found in diplomat_core::hir (2 counted: lifetimes_def_only, lifetimes_all)")
    nb = tool.fn("nanobind::ty::TyGenContext::gen_method_info")
    sup = None
    for iff in [x for g_ in C.fns_inl(tool, nb, 2) for x in C.walk(C.fn_body(g_))]:
        if iff.get("k") != "if" or not any("keep_alive" in l for l in C.str_lits(iff["t"]) + [m_.get("src", "") for m_ in C.walk(iff["t"]) if m_.get("k") == "macro"]):
            continue
        for n in C.walk(iff["c"]):
            if n.get("k") == "macro" and n.get("name") == "matches" and any(x.get("k") == "mcall" and x.get("m") == "success_type" for x in C.walk(n)):
                mm = next((x for x in C.walk(n) if x.get("k") == "match"), None)
                negated = any(x.get("k") in ("un", "unary") and x.get("op") == "Not" for x in C.walk(iff["c"]))
                if mm and negated:
                    sup = sorted(v.show() for v, hits in C.decision_table(mm, adts) if hits and hits[0][0] == 0)
    ck.expect(sup == ["OutType(Slice(Str))"], "R5", "nanobind::gen_method_info/keep_alive-suppressed-for", str(sup),
              "nanobind drops nb::keep_alive for outputs %s; only string slices are copied by their caster (expected ['OutType(Slice(Str))']): a borrowed primitive-slice view would outlive the object it points into" % sup, C.loc(nb))


    # nanobind: every way a method is registered (`.def(...)` arm per special-method kind, and the plain case) passes the computed `lifetime_args` (nb::keep_alive) on,
    # except the kinds that cannot return a borrowing object (arithmetic / comparison operators, __str__ which copies)
    import tmpl as _tn
    src_nb = C.read_repo("tool/templates/nanobind/method_impl.cpp.jinja")
    for _ in range(3):     # includes (of includes) spliced in
        src_nb = re.sub(r"\{%-?\s*include\s+\"([\w./]+)\"\s*-?%\}", lambda m_: C.read_repo("tool/templates/nanobind/" + m_.group(1)), src_nb)
    parts = re.split(r"\{%-?\s*(when\s+(?:crate::hir::SpecialMethod::[^%]*?|_))\s*-?%\}", src_nb)      # arms of the outer match only
    EXEMPT = ("Add", "Sub", "Mul", "Div", "AddAssign", "SubAssign", "MulAssign", "DivAssign", "Comparison", "Stringifier")
    narm = 0
    for i in range(1, len(parts) - 1, 2):
        head, body_ = parts[i], parts[i + 1]
        if head.strip() == "when _":
            body_ = body_[:body_.rfind("{%- else -%}")] if "{%- else -%}" in body_ else body_      # the outer `if let Some(special_method)` has the last else of the file
        kinds_ = re.findall(r"SpecialMethod::(\w+)", head) or ["_"]
        if all(k_ in EXEMPT for k_ in kinds_):
            continue
        # the arm's own text ends where the next `when` / endmatch starts (split already did that); nested matches inside an arm are part of it only up to their first `when`
        narm += 1
        ck.expect("lifetime_args" in body_, "R1", "nanobind/method_impl/%s-passes-keep_alive" % "+".join(kinds_), "prints lifetime_args",
                  "the nanobind registration of %s methods does not print `lifetime_args`: the nb::keep_alive computed for a return value that borrows from self / a parameter is dropped, "
                  "Python may collect the owner while the returned object is alive" % "+".join(kinds_), "tool/templates/nanobind/method_impl.cpp.jinja")
    tail_plain = src_nb[src_nb.rfind("{%- else -%}"):] if "{%- else -%}" in src_nb else ""
    ck.expect("lifetime_args" in tail_plain, "R1", "nanobind/method_impl/plain-passes-keep_alive", "", "plain methods are registered without lifetime_args", "tool/templates/nanobind/method_impl.cpp.jinja")
    if narm < 5:
        ck.bad("R1", "nanobind/method_impl/arms-floor", "only %d special-method arms found in the nanobind method template" % narm)

    # ---------------- R6 branded lifetime indices
    n6 = 0
    for f in tool.fn_list:
        if "hir" not in f:
            continue
        def loops_over(root, src_pred):
            """iterations over a source: `for P in <src> {B}` and `<src>..map(|P| B)` (for_each / flat_map / filter_map alike), as {"pat", "body", "ln"}"""
            out_ = []
            for y in C.walk(root):
                if y.get("k") == "for" and src_pred(y["iter"]):
                    out_.append({"pat": y.get("pat"), "body": y["body"], "ln": y.get("ln")})
                elif y.get("k") == "mcall" and y.get("m") in ("map", "for_each", "flat_map", "filter_map") and y.get("a") and C.strip(y["a"][0]).get("k") == "closure" and src_pred(y["recv"]):
                    cl = C.strip(y["a"][0])
                    ps_ = cl.get("params") or []
                    out_.append({"pat": ps_[0] if ps_ else {}, "body": cl["body"], "ln": y.get("ln")})
            return out_
        for lp in loops_over(C.fn_body(f), lambda e_: any(x.get("k") == "field" and x.get("n") == "borrowed_struct_lifetime_map" for x in C.walk(e_))):
            pat = lp.get("pat") or {}
            subs = pat.get("sub") or []
            if pat.get("k") != "tuple" or len(subs) != 2 or subs[0].get("k") != "bind":
                ck.bad("R6", "%s/loop-pattern" % f["name"], "loop over borrowed_struct_lifetime_map does not destructure (def_lt, use_lts)", C.loc(f, lp.get("ln")))
                continue
            key_id = subs[0].get("id")
            vals_id = subs[1].get("id")
            # locals bound by iterating the value set
            val_elems = set()
            for inner in loops_over(lp["body"], lambda e_: any(x.get("k") == "local" and x.get("id") == vals_id for x in C.walk(e_))):
                val_elems |= C.pat_bind_ids(inner.get("pat"))
            # the set of use-site lifetimes of a slot is consumed whole: only by iterating all of it (never `.next()`, `.first()`, `.take(n)` ...)
            TRUNC = {"next", "first", "last", "take", "nth", "skip", "find", "min", "max", "step_by", "filter", "next_back", "pop_first", "pop_last", "take_while", "skip_while", "position", "find_map"}
            for x in C.walk(lp["body"]):
                if x.get("k") == "mcall" and x.get("m") in TRUNC:
                    r_ = x
                    chain = []
                    while isinstance(r_, dict) and r_.get("k") == "mcall":
                        chain.append(r_["m"])
                        r_ = C.strip(r_["recv"])
                    if isinstance(r_, dict) and r_.get("k") == "local" and r_.get("id") == vals_id:
                        ck.bad("R6", "%s/use-lifetimes-consumed-whole" % C.norm_path(f["path"]).split("::")[-1],
                               "the use-site lifetimes of a struct slot are cut down by `.%s()`: only some of the edge arrays the slot borrows from receive what is allocated for it, "
                               "the others can be collected while the returned value still points into that memory" % ".".join(reversed(chain)), C.loc(f, x.get("ln")))
            ck.ok("R6", "%s/use-lifetimes-loop" % C.norm_path(f["path"]).split("::")[-1], "iterated", C.loc(f, lp.get("ln")))
            for x in C.walk(lp["body"]):
                if x.get("k") != "mcall" or x.get("m") != "fmt_lifetime" or not x.get("a"):
                    continue
                a = C.strip(x["a"][0])
                rc = C.strip(x["recv"])
                is_struct_env = rc.get("k") == "field" and rc.get("n") == "env" and "StructBorrowInfo" in (rc.get("bty") or "")
                fn_key = C.norm_path(f["path"]).split("::")[-1]
                if a.get("k") == "local" and a.get("id") == key_id:
                    n6 += 1
                    ck.expect(is_struct_env, "R6", "%s/def-lifetime-env" % fn_key, "StructBorrowInfo.env.fmt_lifetime(def_lt)",
                              "a definition-site lifetime of the struct is looked up in `%s` instead of the struct's own environment (StructBorrowInfo.env): wrong name, or "
                              "`Found out of range lifetime` panic when the struct has more lifetimes than the user" % (rc.get("n")), C.loc(f, x.get("ln")))
                elif a.get("k") == "local" and a.get("id") in val_elems:
                    n6 += 1
                    ck.expect(not is_struct_env, "R6", "%s/use-lifetime-env" % fn_key, "%s.fmt_lifetime(use_lt)" % rc.get("n"),
                              "a use-site lifetime is looked up in the struct's definition environment", C.loc(f, x.get("ln")))
    if n6 < 4:
        ck.bad("R6", "floor", "only %d branded fmt_lifetime calls found (4 counted: dart and js, def and use)" % n6)
    # a conversion that recurses into the payload of an option hands its borrow context on unchanged: the struct inside `Option<Struct<'a>>` borrows exactly like the
    # struct itself (a dropped context sends its slice fields to the per-call arena, freed while the output still borrows them)
    nrec = 0
    for f in tool.fn_list:
        if "hir" not in f or f.get("exp") or f.get("dk") == "Closure" or not re.match(r"^diplomat_tool::(dart|js)::", C.norm_path(f["path"])):
            continue
        ins = f.get("inputs") or []
        ps = f["hir"].get("params") or []
        ctx_pos = [i for i, t_ in enumerate(ins) if "StructBorrowContext" in t_ and i < len(ps) and isinstance(ps[i], dict)]
        if not ctx_pos:
            continue
        own_ctx = {ps[i].get("id") for i in ctx_pos}
        for x in C.walk(C.fn_body(f)):
            if x.get("k") not in ("call", "mcall"):
                continue
            # the function itself, or a sibling conversion it hands part of the job to (`.._for_option`, `.._for_struct_type`): anyone who also takes a borrow context
            cal = tool.norm.get(C.norm_path(x.get("p") or C.callee(x) or ""))
            if not cal or "hir" not in cal:
                continue
            cins = cal.get("inputs") or []
            cpos = [i for i, t_ in enumerate(cins) if "StructBorrowContext" in t_]
            if not cpos:
                continue
            if True:
                args = ([x["recv"]] + list(x.get("a") or [])) if x.get("k") == "mcall" else list(x.get("a") or [])
                for i in cpos:
                    if i < len(args):
                        nrec += 1
                        a0 = C.strip(args[i])
                        fk = C.norm_path(f["path"]).replace("diplomat_tool::", "")
                        ck.expect(a0.get("k") == "local" and a0.get("id") in own_ctx, "R1", "%s/recursion-forwards-borrow-context#%d" % (fk, sum(1 for i_ in ck.instances if i_["key"].startswith(fk + "/recursion-forwards"))),
                                  "forwarded", "%s calls itself for a nested type with `%s` in place of its own borrow context: the nested struct's borrowed fields are allocated in the temporary arena" %
                                  (f["name"], a0.get("n") or (a0.get("ctor") or a0.get("p") or a0.get("k") or "?").split("::")[-1]), C.loc(f, x.get("ln")))
    if nrec < 2:
        ck.bad("R1", "recursion-forwards-borrow-context/floor", "only %d recursive conversion calls carrying a StructBorrowContext found in dart/js (2 counted)" % nrec)
    # "does this field use lifetime 'x" is asked of Type::lifetimes() and of nothing else (no kind of type answers by a rule of its own: a borrowed opaque `&'r Op<'d>` uses 'd too)
    npred = 0
    for f in tool.fn_list:
        if "hir" not in f or f.get("dk") == "Closure" or not f["path"].endswith("does_type_use_lifetime_from_set"):
            continue
        npred += 1
        bodyp = C.fn_body(f)
        special = [x for x in C.walk(bodyp) if (x.get("k") == "match" and (x.get("sadt") or "").endswith("hir::types::Type")) or
                   (x.get("k") == "if" and C.strip_keep_macro(x["c"]).get("k") == "let" and "types::Type" in json_dumps(C.strip_keep_macro(x["c"]).get("pat"))) or x.get("k") == "ret"]
        uses_all = any(x.get("k") == "mcall" and x.get("m") == "any" and any(y.get("k") == "mcall" and y.get("m") == "lifetimes" for y in C.walk(x["recv"])) for x in C.walk(bodyp))
        ck.expect(uses_all and not special, "R6", "%s/asks-Type::lifetimes-only" % C.norm_path(f["path"]).replace("diplomat_tool::", ""), "lifetimes().any(..)",
                  "the field filter behind `_fieldsForLifetimeX` answers for some kind of type by a rule of its own instead of Type::lifetimes(): a field that carries the lifetime is left out of "
                  "the edge list, and what the output borrows through it is not kept alive", C.loc(f))
    if npred < 2:
        ck.bad("R6", "asks-Type::lifetimes-only/floor", "only %d `does_type_use_lifetime_from_set` predicates found (2 counted: dart, js)" % npred)
    # a function that is handed the enclosing item's LifetimeEnv names lifetimes of THAT scope: every fmt_lifetime call in it goes through that parameter (an
    # edge list passed to a nested struct is the enclosing scope's list for the lifetime substituted at the use site, `bEdges`, not the nested definition's `aEdges`)
    nenv = 0
    for f in tool.fn_list:
        if "hir" not in f or f.get("exp") or f.get("dk") == "Closure" or "askama::" in f["path"]:
            continue
        ins = f.get("inputs") or []
        ps = f["hir"].get("params") or []
        env_ids = {ps[i].get("id") for i, t_ in enumerate(ins) if "LifetimeEnv" in t_ and i < len(ps) and isinstance(ps[i], dict)}
        if not env_ids:
            continue
        defs_ = dict(flow.defs_of(f))
        for x in C.walk(C.fn_body(f)):
            if x.get("k") != "mcall" or x.get("m") != "fmt_lifetime":
                continue
            rc = C.strip(x["recv"])
            for _ in range(4):
                if rc.get("k") == "local" and rc.get("id") not in env_ids and defs_.get(rc.get("id"), (None,))[0] == "expr":
                    rc = C.strip(defs_[rc["id"]][1])
                elif rc.get("k") in ("addr", "un") and isinstance(rc.get("e"), dict):
                    rc = C.strip(rc["e"])
                else:
                    break
            nenv += 1
            fk = C.norm_path(f["path"]).replace("diplomat_tool::", "")
            ck.expect(rc.get("k") == "local" and rc.get("id") in env_ids, "R6", "%s/names-from-the-scope-env#%d" % (fk, sum(1 for i_ in ck.instances if i_["key"].startswith(fk + "/names-from-the-scope-env"))),
                      "formatted with the LifetimeEnv parameter", "%s is given the enclosing item's LifetimeEnv but formats a lifetime with `%s`: the edge-list name it prints belongs to another "
                      "scope (a nested struct's own parameter name), so the wrong objects -- or none -- are kept alive" % (f["name"], rc.get("m") or rc.get("n") or rc.get("k")), C.loc(f, x.get("ln")))
    if nenv < 8:
        ck.bad("R6", "names-from-the-scope-env/floor", "only %d fmt_lifetime calls in functions that receive a LifetimeEnv found (10 counted)" % nenv)
    # ... and the map itself is consumed whole wherever a backend iterates it (all definition-site lifetimes matching a use-site lifetime, not the first one)
    TRUNC_M = {"next", "first", "last", "take", "nth", "skip", "find", "min", "max", "step_by", "next_back", "pop_first", "pop_last", "take_while", "skip_while", "position", "find_map", "first_key_value", "last_key_value"}
    nmapwalk = 0
    for f in tool.fn_list:
        if "hir" not in f or f.get("exp"):
            continue
        subs_ = {id(C.strip(n["recv"])) for n in C.walk(C.fn_body(f)) if n.get("k") == "mcall"}
        for n in C.walk(C.fn_body(f)):
            if n.get("k") != "mcall" or id(n) in subs_:
                continue
            ch, r_ = [], n
            while isinstance(r_, dict) and r_.get("k") == "mcall":
                ch.append(r_["m"])
                r_ = C.strip(r_["recv"])
            if not (isinstance(r_, dict) and r_.get("k") == "field" and r_.get("n") == "borrowed_struct_lifetime_map"):
                continue
            nmapwalk += 1
            cut = [m_ for m_ in ch if m_ in TRUNC_M]
            ck.expect(not cut, "R6", "%s/lifetime-map-consumed-whole" % C.norm_path(f["path"]).split("::")[-1], ".".join(reversed(ch)),
                      "the struct's lifetime map is cut down by `.%s()`: when one use-site lifetime fills several definition-site slots (`Pair<'a, 'a>`) only the first slot's fields "
                      "are listed as borrowed-from, the others can be collected while the result still points into them" % cut[0] if cut else "", C.loc(f, n.get("ln")))
    if nmapwalk < 1:
        ck.bad("R6", "lifetime-map-walk-floor", "no iterator chain over borrowed_struct_lifetime_map found in the backends (1 counted: js iter_def_lifetimes_matching_use_lt)")
    # definition-site halves of linked lifetime pairs are never formatted with a user-side environment (no such use exists today: the matcher is kept alive by a built-in sample)
    ck.expect(def_brand_misuse(_BRAND_SAMPLE) == [("def_lt", 1)], "R6", "linked-pair/matcher-selftest", "sample flagged", "the def-brand matcher no longer recognises its built-in sample")
    for f in tool.fn_list + core.fn_list:
        if "hir" not in f or f.get("exp"):
            continue
        for nm_, ln_ in def_brand_misuse(C.fn_body(f)):
            ck.bad("R6", "%s/def-lifetime-in-user-env" % C.norm_path(f["path"]).split("::")[-1],
                   "`%s` is the definition-site half of a linked lifetime pair but is formatted with a user-side environment: wrong edge names, or `Found out of range lifetime` when the "
                   "definition has more lifetimes than the user" % nm_, C.loc(f, ln_))

    # ---------------- R2 (cont.) entries of a borrowed_struct_lifetime_map are recorded under conditions on the lifetimes at hand only: a guard that
    # consults other state (a `seen` set, a counter) drops the second slot of `Inner<'a, 'a>`
    nins = 0
    for f in core.fn_list:
        if "hir" not in f or "::hir::methods::borrowing_param" not in f["path"]:
            continue
        body = C.fn_body(f)
        loops = [l_ for l_ in C.walk(body) if l_.get("k") == "for"]
        for n, st in C.with_conditions(body):
            if not (n.get("k") == "mcall" and n.get("m") == "insert"):
                continue
            ch, r_ = [], C.strip(n["recv"])
            while isinstance(r_, dict) and r_.get("k") == "mcall":
                ch.append(r_["m"])
                r_ = C.strip(r_["recv"])
            if "entry" not in ch or not (isinstance(r_, dict) and r_.get("k") == "local" and "lifetime_map" in str(r_.get("n"))):
                continue
            nins += 1
            bound = set()
            for l_ in loops:
                if any(x is n for x in C.walk(l_["body"])):
                    bound |= C.pat_bind_ids(l_.get("pat"))
            for kind, a_, b_ in st:
                if kind == "if":
                    c_ = C.strip_keep_macro(a_)
                    if isinstance(c_, dict) and c_.get("k") == "let":
                        bound |= C.pat_bind_ids(c_.get("pat"))
                elif kind == "arm":
                    bound |= C.pat_bind_ids(b_.get("pat"))
            stray = set()
            for kind, a_, b_ in st:
                cond_ = a_ if kind == "if" else (b_.get("g") if kind == "arm" else None)
                if cond_ is None:
                    continue
                c_ = C.strip_keep_macro(cond_)
                src_ = c_.get("init") if isinstance(c_, dict) and c_.get("k") == "let" else cond_
                for x in C.walk(src_):
                    if x.get("k") == "local" and x.get("id") not in bound and x.get("n") not in ("self",):
                        stray.add(x.get("n"))
            # parameters and values derived from the struct / field at hand are not state: only locals that are mutated count
            mutated = {C.strip(x["recv"]).get("n") for x in C.walk(body) if x.get("k") == "mcall" and x.get("m") in ("insert", "push", "remove", "extend", "push_back") and C.strip(x["recv"]).get("k") == "local"}
            stray &= mutated
            key = "%s/edge-insert#%d" % (C.norm_path(f["path"]).split("::")[-1], sum(1 for i in ck.instances if i["rule"] == "R2" and i["key"].startswith(C.norm_path(f["path"]).split("::")[-1] + "/edge-insert")))
            ck.expect(not stray, "R2", key, "recorded under conditions on the lifetimes at hand",
                      "an entry of the struct's lifetime map is recorded only if mutable state `%s` allows it: a second slot instantiated with the same outer lifetime (`Inner<'a, 'a>`) is skipped, "
                      "so the fields behind that slot are not kept alive" % sorted(stray), C.loc(f, n.get("ln")))
    if nins < 2:
        ck.bad("R2", "edge-insert-floor", "only %d lifetime-map insertions found in hir::methods::borrowing_param (2 counted: visit_param, compute_for_struct_field)" % nins)

    # ---------------- R6 (cont.) Dart slice helpers: a slice handed to Dart as a view of Rust memory (`asTypedList` without a copy) keeps its lifetime edges alive
    ds = tool.fn("dart::TyGenContext::gen_slice")

    def slot_match(field):
        """the match over hir::Slice that fills SliceTemplate.<field> (directly, through a local, or in a helper)"""
        for b_ in C.bodies_inl(tool, C.fn_body(ds), depth=1):
            for x in C.walk(b_):
                if x.get("k") == "struct" and (x.get("adt") or "").endswith("SliceTemplate"):
                    e = next((fl["e"] for fl in x["fields"] if fl["n"] == field), None)
                    seen_ = 0
                    defs_ = dict(flow.defs_of(ds))
                    while e is not None and seen_ < 6:
                        seen_ += 1
                        e = C.strip(e)
                        if e.get("k") == "match" and (e.get("sadt") or "").endswith("hir::types::Slice"):
                            return e
                        if e.get("k") == "local" and defs_.get(e.get("id"), (None,))[0] == "expr":
                            e = defs_[e["id"]][1]
                            continue
                        if e.get("k") in ("call", "mcall"):
                            cal = tool.norm.get(C.norm_path(e.get("p") or C.callee(e) or ""))
                            if cal and "hir" in cal:
                                defs_ = dict(flow.defs_of(cal))
                                bb_ = C.fn_body(cal)
                                e = bb_.get("e") if bb_.get("k") == "block" else bb_
                                continue
                        if e.get("k") == "mcall":
                            e = e["recv"]
                            continue
                        break
        return None
    m_to, m_free = slot_match("to_dart"), slot_match("borrowed_free")
    if not m_to or not m_free:
        ck.bad("R6", "dart::gen_slice/anchors", "matches filling SliceTemplate.to_dart / borrowed_free not found", C.loc(ds))
    else:
        def lit_by_value(mt):
            out = []
            for v, hits in C.decision_table(mt, adts):
                arm = next((i for i, c_ in hits if not c_), None)
                if arm is not None and not C.diverges(mt["arms"][arm]["b"]):
                    out.append((v, " ".join(C.str_lits(mt["arms"][arm]["b"]))))
            return out

        def compat(a_, b_):
            if a_.variant is None or b_.variant is None:
                return True
            if a_.variant != b_.variant:
                return False
            return all(compat(x, y) for x, y in zip(a_.subs or [], b_.subs or []))

        def more_specific(a_, b_):
            return len(a_.show()) >= len(b_.show())
        # slice kinds for which the helper class is never emitted: some slot of the template panics for them (in gen_slice itself or in the
        # formatter function the arm hands the primitive to)
        dead = []
        for b0 in C.bodies_inl(tool, C.fn_body(ds), depth=1):
            smatches = [mt for mt in C.walk(b0) if mt.get("k") == "match" and (mt.get("sadt") or "").endswith("hir::types::Slice")]
            for mt in smatches:
                if any(o is not mt and any(x is mt for x in C.walk(o)) for o in smatches):
                    continue   # nested under an arm of another match on the slice: its catch-all is not reached by the kinds that arm excluded
                for v, hits in C.decision_table(mt, adts):
                    arm = next((i for i, c_ in hits if not c_), None)
                    if arm is None or v.variant is None:
                        continue
                    ab = mt["arms"][arm]
                    if C.diverges(ab["b"]) or C.panic_macro_of(ab["b"]):
                        dead.append(v)
                        continue
                    # the primitive handed on to a formatter whose own match panics for it
                    bound = C.pat_bind_ids(ab["pat"])
                    for c_ in C.calls_in(ab["b"]):
                        cal = tool.norm.get(C.norm_path(c_.get("p") or C.callee(c_) or ""))
                        if not cal or "hir" not in cal or not any(x.get("k") == "local" and x.get("id") in bound for a0 in c_.get("a", []) for x in C.walk(a0)):
                            continue
                        for m2 in C.walk(C.fn_body(cal)):
                            if m2.get("k") == "match" and (m2.get("sadt") or "").endswith("PrimitiveType"):
                                for v2, h2 in C.decision_table(m2, adts):
                                    a2 = next((i for i, c2 in h2 if not c2), None)
                                    if a2 is not None and (C.diverges(m2["arms"][a2]["b"]) or C.panic_macro_of(m2["arms"][a2]["b"])) and v.variant == "Primitive" and v.subs and len(v.subs) > 1 and compat(v.subs[1], v2):
                                        dead.append(C.Val(adt=v.adt, variant="Primitive", subs=[v.subs[0], v2]))
        t_to, t_free = lit_by_value(m_to), lit_by_value(m_free)
        nv = 0
        for v, lit in t_to:
            is_view = "asTypedList" in lit and not re.search(r"toList|convert\(|fromCharCodes|generate", lit)
            if not is_view:
                continue
            for vf, fr in t_free:
                if not compat(v, vf):
                    continue
                spec = vf if more_specific(vf, v) else v
                if any(compat(d_, spec) and more_specific(spec, d_) for d_ in dead):
                    continue    # the generator panics for this kind before anything is emitted (C15's inventory judges that panic)
                nv += 1
                ck.expect("lifetimeEdges" in fr, "R6", "dart::gen_slice/view-keeps-edges/" + spec.show(), "attach(r, lifetimeEdges)",
                          "a borrowed %s is handed to Dart as a typed-list view of Rust memory, but its `_toDart` does not attach the lifetime edges (`%s`): the owner can be collected while the list is in use" % (spec.show(), fr[:50]), C.loc(ds, m_free.get("ln")))
        if nv < 1:
            ck.bad("R6", "dart::gen_slice/view-floor", "no typed-list view arm found in to_dart", C.loc(ds))

    # ---------------- R3 (cont.) worklist loops of the outlives closure run until the queue is empty (MIR): once `pop()` has produced an element,
    # control does not reach a `None` result (or leave the loop) without asking `pop()` again
    from common import MirFn, sym_walk
    nwl = 0
    for f in core.fn_list:
        if ("::hir::lifetimes" not in f["path"] and "::hir::methods" not in f["path"]) or not f.get("mir") or "blocks" not in f["mir"]:
            continue
        m = MirFn(f)
        pops = {bb for bb, t in m.calls() if re.search(r"::(pop|pop_front|pop_back)$", C.mir_callee(t) or "")}
        if not pops:
            continue
        ret_opt = re.match(r"(core::option::)?Option<", f.get("output") or "") is not None
        for bb, blk in m.cfg.blocks.items():
            t = blk["term"]
            if blk.get("cleanup") or t["k"] != "switch":
                continue
            d = m.sym_op(t["discr"])
            if not any(x[0] == "call" and isinstance(x[1], str) and re.search(r"::(pop|pop_front|pop_back)$", x[1]) for x in sym_walk(d)):
                continue
            via_try = any(x[0] == "call" and isinstance(x[1], str) and x[1].endswith("Try>::branch") for x in sym_walk(d))
            has_elem = 0 if via_try else 1     # ControlFlow::Continue = 0 / Option::Some = 1
            tgt = [tb for v, tb in t["targets"] if v == has_elem] or ([t["otherwise"]] if all(v != has_elem for v, _ in t["targets"]) else [])
            nwl += 1
            seen, st = set(), list(tgt)
            bad_at = None
            while st:
                x = st.pop()
                if x in seen or x in pops:
                    continue
                seen.add(x)
                xb = m.cfg.blocks[x]
                for s_ in xb["stmts"]:
                    if ret_opt and s_["k"] == "assign" and s_["lhs"]["l"] == 0 and not s_["lhs"].get("p") and s_["rv"]["k"] == "agg" and str(s_["rv"].get("variant")) in ("0", "None"):
                        bad_at = s_.get("ln")
                if ret_opt and xb["term"]["k"] == "call" and xb["term"]["dest"]["l"] == 0 and (C.mir_callee(xb["term"]) or "").endswith("from_residual"):
                    bad_at = xb["term"].get("ln")
                st += m.cfg.succ.get(x, [])
            key = C.norm_path(f["path"]).split("::")[-2] if "::" in f["path"] else f["path"]
            ck.expect(bad_at is None, "R3", "%s/worklist-runs-until-empty" % key, "an element popped is yielded or skipped; `None` only when pop() is exhausted",
                      "the worklist of %s gives up (`None`) after pop() returned an element without asking pop() again: the set of longer lifetimes is truncated, so a parameter that the "
                      "return value may borrow from gets no edge" % C.norm_path(f["path"]).split("::", 1)[1], C.loc(f, bad_at))
    if nwl < 1:
        ck.bad("R3", "worklist-floor", "no pop()-driven worklist found in hir::lifetimes (1 counted: LifetimeTransitivityIterator::next)")
    # an optional slice field must be allocated in the arena of the lifetime it borrows for, like a plain slice field (rule of C15.R6 on Dart's allocator lookups)
    import c15
    c15.dart_alloc_rules(ck, "R1", facts)


def js_runtime_rest_rule(ck, rule):
    """The edge arrays a generated method hands to the JS runtime (`...Edges` lists the returned object keeps alive) reach the function that appends to them as
    the same list of arrays: a runtime function that collects them with a rest parameter and forwards them to another rest-parameter function spreads them again
    (forwarding the collected array itself appends the arena to a temporary, and nothing keeps the borrowed allocation alive)."""
    txt = C.read_repo("tool/templates/js/runtime.mjs")
    rest_fns = {m.group(1): m.group(2) for m in re.finditer(r"\b(\w+)\s*\(([^()]*\.\.\.\s*\w+)\s*\)\s*\{", txt)}
    n_ = 0
    for m in re.finditer(r"\b(\w+)\s*\(([^()]*\.\.\.\s*(\w+))\s*\)\s*\{", txt):
        name, rest = m.group(1), m.group(3)
        # body: up to the matching brace
        i_, depth = m.end(), 1
        while i_ < len(txt) and depth:
            depth += {"{": 1, "}": -1}.get(txt[i_], 0)
            i_ += 1
        body = txt[m.end():i_]
        for c in re.finditer(r"\b(\w+)\s*\(([^()]*)\)", body):
            if c.group(1) in rest_fns and c.group(1) != name and re.search(r"\b%s\b" % rest, c.group(2)):
                n_ += 1
                spread = re.search(r"\.\.\.\s*%s\b" % rest, c.group(2)) is not None
                ck.expect(spread, rule, "js/runtime.mjs/%s/forwards-rest-spread#%d" % (name, n_ - 1), "%s(...%s)" % (c.group(1), rest),
                          "%s collects its edge arrays in the rest parameter `%s` and passes the collected array itself to %s, which takes a rest parameter too: the arena is appended to a "
                          "temporary array of arrays and to none of the caller's edge arrays, so nothing keeps the allocation the returned object borrows from alive" % (name, rest, c.group(1)),
                          "tool/templates/js/runtime.mjs")
    if n_ < 1:
        ck.bad(rule, "js/runtime.mjs/forwards-rest/floor", "no rest-parameter function forwarding to another rest-parameter function found in runtime.mjs (1 counted: maybeCreateWith -> createWith)", "tool/templates/js/runtime.mjs")

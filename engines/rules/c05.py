"""C05 — the lowering gate accepts exactly the documented shapes (abstract interpretation of the gate vs a spec table)."""
import json
import os
import re
import common as C
import absint as A

LT = "hir::lowering::LoweringContext::lower_type"
LO = "hir::lowering::LoweringContext::lower_out_type"
LR = "hir::lowering::LoweringContext::lower_return_type"
LC = "hir::lowering::LoweringContext::lower_callback_param"
F_ = A.B(False)
T_ = A.B(True)


LAST_TABLE = {}


def parse_shape(s):
    """shape grammar of spec/gate.json -> abstract TypeName value"""
    s = s.strip()
    std = True
    m = re.match(r"^(.*),(std|dip)$", s)
    if m and _balanced(m.group(1)):
        s, std = m.group(1), m.group(2) == "std"
    if s == "prim":
        return A.t_prim()
    if s == "ordering":
        return A.T_ORD
    if s == "unit":
        return A.T_UNIT
    if s == "write":
        return A.T_WRITE
    if s == "trait":
        return A.t_trait()
    if s == "result":
        return A.t_res(A.t_prim(), A.T_UNIT)
    if s == "strs":
        return A.t_strs(std)
    m = re.match(r"^named:(\w)$", s)
    if m:
        return A.t_named(m.group(1))
    m = re.match(r"^(str|pslice):(borrowed|owned|static)$", s)
    if m:
        lt = {"borrowed": "named", "owned": None, "static": "static"}[m.group(2)]
        return A.t_str(lt, std) if m.group(1) == "str" else A.t_pslice(lt, std)
    m = re.match(r"^(ref|box|opt)\((.*)\)$", s)
    if m:
        inner = parse_shape(m.group(2))
        return {"ref": A.t_ref, "box": A.t_box}[m.group(1)](inner) if m.group(1) != "opt" else A.t_opt(inner, std)
    m = re.match(r"^result\((.*)\)$", s)
    if m:
        a, b = _split_top(m.group(1))
        return A.t_res(parse_shape(a), parse_shape(b), std)
    m = re.match(r"^fn\((.*)\)->(.*)$", s)
    if m:
        ins = [parse_shape(x) for x in _split_top_all(m.group(1))] if m.group(1) else []
        return A.t_fn(ins, parse_shape(m.group(2)))
    raise C.CheckError("spec/gate.json: cannot parse shape %r" % s)


def _balanced(s):
    d = 0
    for ch in s:
        d += ch == "("
        d -= ch == ")"
        if d < 0:
            return False
    return d == 0


def _split_top_all(s):
    out, d, cur = [], 0, ""
    for ch in s:
        if ch == "(":
            d += 1
        elif ch == ")":
            d -= 1
        if ch == "," and d == 0:
            out.append(cur)
            cur = ""
        else:
            cur += ch
    out.append(cur)
    # re-attach ",std"/",dip" suffixes to the preceding element
    res = []
    for x in out:
        if x in ("std", "dip") and res:
            res[-1] += "," + x
        else:
            res.append(x)
    return res


def _split_top(s):
    parts = _split_top_all(s)
    if len(parts) != 2:
        raise C.CheckError("bad result(..) shape: " + s)
    return parts


def run(ck, facts):
    core = facts.core
    adts = facts.all_adts()
    ck.units += ["diplomat_core.lib+hir (hir::lowering, hir::type_context, ast::types, hir::methods)"]
    ck.rule("R1", "accept/reject verdict of the gate, obtained by abstract interpretation of lower_type / lower_out_type / lower_return_type / lower_callback_param / the struct and out-struct field loops over the shape domain, equals the documented table (spec/gate.json) for every position and backend support profile", exhaustive=True)
    ck.rule("R2", "errors carry context: every rejecting path of the type lowerers pushes an error (no silent Err), and set_item/set_subitem precede lowering of each type and method")
    ck.rule("R3", "sibling agreement: struct and out-struct field loops apply the same FFI-safety pre-check; input and output gates agree wherever both positions allow a shape")
    ck.rule("R4", "post-lowering validation is on the accept path and covers every type contained in the return type (Ok and Err payloads); DiplomatWrite is split off only as the last parameter")
    ck.rule("R5", "no shape makes the gate itself panic")
    ck.not_decided += ["inputs on which ast::*::from_syn panics before lowering", "exact lifetime-bound validation for all signatures (C04 covers the graph construction)"]

    spec = json.load(open(os.path.join(C.VERIF, "spec", "gate.json")))["rows"]

    def mk(support=None, cfg=None):
        return A.field_hook(A.Interp(core, support=support or {}, cfg=cfg if cfg is not None else {"unsafe_references_in_callbacks": False}))

    # field-loop bodies
    def field_loop(fn_suffix):
        f = core.fn(fn_suffix)
        for n in C.walk(C.fn_body(f)):
            if n.get("k") == "for" and any(x.get("k") == "field" and x.get("n") == "fields" for x in C.walk(n["iter"])):
                return f, n
        raise C.CheckError("field loop not found in " + fn_suffix)
    fs, loop_s = field_loop("hir::lowering::LoweringContext::lower_struct")
    fo, loop_o = field_loop("hir::lowering::LoweringContext::lower_out_struct")

    def loop_verdict(I, loop, tyv):
        env = {}
        pat = loop["pat"]
        # (name, ty, docs, attrs): bind position 1 to the abstract type
        tup = ("tuple", (A.UNK, tyv, A.UNK, A.UNK))
        st, b = I.pmatch(pat, tup)
        env.update(b)
        outs = [o for o, _ in I.ev(loop["body"], env, 0)]
        return outs

    def verdict_of(I, pos, tyv):
        I.position = {"param": "InputOnly", "field": "Everywhere", "ofield": "OutputOnly", "ret": "OutputOnly", "cbparam": "OutputOnly"}[pos]
        I.memo.clear()
        if pos == "param":
            outs = I.call(LT, [tyv, A.UNK, F_, A.UNK])
        elif pos == "field":
            outs = loop_verdict(I, loop_s, tyv)
        elif pos == "ofield":
            outs = loop_verdict(I, loop_o, tyv)
        elif pos == "ret":
            outs = I.call(LR, [A.some(tyv), F_, A.UNK, A.UNK])
        elif pos == "cbparam":
            outs = I.call(LC, [A.NONE, tyv, A.UNK, A.UNK])
        else:
            raise C.CheckError("unknown position " + pos)
        return A.verdict(outs), outs

    FLAGS = ("option", "callbacks", "traits", "static_slices")
    profiles = [("all", {})] + [("no-" + f, {f: False}) for f in FLAGS]
    interps = {name: mk(sup) for name, sup in profiles}
    # teach the interpreter about a few helper calls of the loops (assumed not to fail: identifiers are valid)
    for I in interps.values():
        orig = I.ev_mcall

        def ev_mcall(n, env, depth, _orig=orig, _I=I):
            if n["m"] in ("lower_ident",):
                return [(A.Outcome(A.ok(A.UNK)), env)]
            if n["m"] in ("attr_from_ast", "validate", "ffi_safe_version", "set_item", "set_subitem"):
                return [(A.Outcome(A.UNK), env)]
            return _orig(n, env, depth)
        I.ev_mcall = ev_mcall

    table = {}
    n_cells = 0
    for row in spec:
        shape = row["shape"]
        tyv = parse_shape(shape)
        for pos in ("param", "field", "ofield", "ret", "cbparam"):
            exp = row.get(pos, "any")
            for pname, sup in profiles:
                I = interps[pname]
                try:
                    got, outs = verdict_of(I, pos, tyv)
                except RecursionError:
                    got, outs = "error:recursion", []
                table[(shape, pos, pname)] = got
                if exp == "any":
                    continue
                if exp.startswith("cond"):
                    want = None
                elif exp.startswith("sup:"):
                    flag = exp[4:]
                    want = "reject" if sup.get(flag, True) is False else "accept"
                else:
                    want = {"acc": "accept", "rej": "reject"}[exp]
                    # fixed verdicts are judged under the full-support profile only (the sup:<flag> cells cover the others)
                    if pname != "all":
                        continue
                n_cells += 1
                key = "%s/%s%s" % (pos, shape, "" if pname == "all" else "/" + pname)
                if want is None:
                    ck.ok("R1", key, "%s (documented as conditional: %s)" % (got, exp[5:]))
                    continue
                if got == want:
                    ck.ok("R1", key, got)
                else:
                    msgs = sorted({(o.pushes[0][:70] if o.pushes else "") for o in outs})[:2]
                    if got == "panic" or got.startswith("conditional:") and "panic" in got:
                        ck.bad("R5", key, "the gate panics for %s in position %s (%s) where the documentation says %s: %s" % (shape, pos, got, exp, [o.notes for o in outs if o.ctl == "panic"][:1]))
                    else:
                        ck.bad("R1", key, "gate verdict for `%s` as %s is %s, the documentation says %s (%s) %s" % (shape, pos, got, want, row.get("why", ""), msgs))
    global LAST_TABLE
    LAST_TABLE = table
    if n_cells < 300:
        ck.bad("R1", "cells-floor", "only %d cells judged" % n_cells)
    ck.note("gate table: %d cells judged over %d shapes x 5 positions x %d support profiles" % (n_cells, len(spec), len(profiles)))

    # ---------------- R2 no silent rejects + panics inventory on the direct gates
    I = interps["all"]
    silent = []
    for row in spec:
        tyv = parse_shape(row["shape"])
        for fn, args in ((LT, [tyv, A.UNK, F_, A.UNK]), (LT, [tyv, A.UNK, T_, A.UNK]), (LO, [tyv, A.UNK, A.UNK, F_, F_]), (LO, [tyv, A.UNK, A.UNK, T_, F_]), (LO, [tyv, A.UNK, A.UNK, F_, T_])):
            I.position = "InputOnly" if fn == LT else "OutputOnly"
            I.memo.clear()
            for o in I.call(fn, args):
                is_err = o.val[0] == "enum" and o.val[1] == A.RES and o.val[2] == "Err"
                if is_err and not o.pushes and o.ctl != "panic":
                    silent.append((fn.split("::")[-1], row["shape"]))
                if o.ctl == "panic":
                    ck.bad("R5", "%s/%s" % (fn.split("::")[-1], row["shape"]), "gate panics: %s" % (o.notes,), None)
    ck.expect(not silent, "R2", "no-silent-reject", "every Err path pushes an error", "rejecting without an error message for %s" % sorted(set(silent))[:5], None)
    # context: set_item in each type lowerer, set_subitem in lower_all_methods before lower_method
    for fn in ("lower_enum", "lower_opaque", "lower_struct", "lower_out_struct"):
        f = core.fn("hir::lowering::LoweringContext::" + fn)
        items = C.fn_body(f).get("s", [])
        idx_set = next((i for i, s in enumerate(items) if any(x.get("k") == "mcall" and x.get("m") == "set_item" for x in C.walk(s))), None)
        idx_first_lower = next((i for i, s in enumerate(items) if any(x.get("k") == "mcall" and x.get("m") in ("lower_type", "lower_out_type", "lower_all_methods", "push") for x in C.walk(s))), None)
        ck.expect(idx_set is not None and (idx_first_lower is None or idx_set < idx_first_lower), "R2", fn + "/set_item-first", "", "%s lowers or reports before setting the error context item" % fn, C.loc(f))
    lam = core.fn("hir::lowering::LoweringContext::lower_all_methods")
    okc = False
    for n in C.walk(C.fn_body(lam)):
        if n.get("k") == "for":
            items = n["body"].get("s", []) + ([n["body"]["e"]] if n["body"].get("e") else [])
            i_set = next((i for i, s in enumerate(items) if any(x.get("k") == "mcall" and x.get("m") == "set_subitem" for x in C.walk(s))), None)
            i_low = next((i for i, s in enumerate(items) if any(x.get("k") == "mcall" and x.get("m") == "lower_method" for x in C.walk(s))), None)
            okc = i_set is not None and i_low is not None and i_set < i_low
    ck.expect(okc, "R2", "lower_all_methods/set_subitem-first", "", "methods are lowered before the error context names the method", C.loc(lam))
    # the context setters themselves are total: entering an item always resets the sub-item, whatever the previous context was
    for fname, want in (("set_item", {"item": "param", "subitem": "None"}), ("set_subitem", {"subitem": "Some(param)"})):
        sf = core.fn("hir::lowering::ErrorStore::" + fname)
        body = C.fn_body(sf)
        conds = [x.get("k") for x in C.walk(body) if x.get("k") in ("if", "match", "let", "while", "loop", "for", "ret") and not x.get("desugar")]
        got = {}
        for x in C.walk(body):
            if x.get("k") == "assign":
                ch = list(C.children(x))
                r, path = C.place_root(ch[0])
                rhs = C.strip(ch[1])
                if r is not None and r.get("n") == "self" and len(path) == 1:
                    if rhs.get("k") == "local":
                        v = "param"
                    elif (rhs.get("ctor") or rhs.get("p") or "").endswith("Option::None"):
                        v = "None"
                    elif (rhs.get("ctor") or rhs.get("p") or "").endswith("Option::Some") and any(y.get("k") == "local" for y in C.walk(rhs)):
                        v = "Some(param)"
                    else:
                        v = "other"
                    got[path[0]] = v
        ck.expect(got == want and not conds, "R2", "ErrorStore::%s/total" % fname, str(got),
                  "ErrorStore::%s is no longer the unconditional store %s (stores %s under %s): the context of a later error can name the previous item/method" % (fname, want, got, conds or "no condition"), C.loc(sf))

    # ---------------- R3 sibling agreement
    def has_ffi_check(loop):
        for x in C.walk(loop["body"]):
            if x.get("k") == "if":
                c = C.strip(x["c"])
                if c.get("k") == "un" and c.get("op") == "Not" and C.strip(c["e"]).get("k") == "mcall" and C.strip(c["e"]).get("m") == "is_ffi_safe":
                    if any(y.get("k") == "mcall" and y.get("m") == "push" for y in C.walk(x["t"])):
                        return True
        return False
    ck.expect(has_ffi_check(loop_s), "R3", "lower_struct/ffi-safe-check", "", "struct fields are no longer checked with is_ffi_safe()", C.loc(fs, loop_s.get("ln")))
    ck.expect(has_ffi_check(loop_o), "R3", "lower_out_struct/ffi-safe-check", "same pre-check as lower_struct",
              "out-struct fields are not checked with is_ffi_safe() although struct fields are (e.g. `#[diplomat::out] struct O<'a> { s: &'a str }` is accepted by the tool while the macro refuses it)", C.loc(fo, loop_o.get("ln")))
    # in/out agreement on shapes allowed in both positions (documented exceptions: ownership, out-structs, slices of strs, callbacks, traits, ordering)
    exceptions = ("box(named:Q)", "opt(box(named:Q)),std", "named:O", "strs", "fn(", "trait", "ordering", "str:owned", "pslice:owned", "opt(str", "opt(pslice", "opt(named:Z)", "named:Z")
    for row in spec:
        shape = row["shape"]
        if any(shape.startswith(e) for e in exceptions):
            continue
        a = table.get((shape, "param", "all"))
        b = A.verdict(I.call(LO, [parse_shape(shape), A.UNK, A.UNK, F_, F_]))
        ck.expect(a == b or "conditional" in str(a) or "conditional" in b, "R3", "in-vs-out/" + shape, "%s / %s" % (a, b), "input gate says %s, output gate says %s for the same shape `%s` (not a documented asymmetry)" % (a, b, shape), None)

    # the write handle is `&mut DiplomatWrite` only: Param::is_write answers true for no other spelling (a shared `&DiplomatWrite` is an ordinary -- and rejected --
    # reference to a non-custom type; peeled off as the write handle it would make every backend generate a string-returning method around a read-only buffer)
    iw = core.fn("ast::methods::Param::is_write")
    iwm = next((n for n in C.walk(C.fn_body(iw)) if n.get("k") == "match"), None)
    if iwm is None:
        ck.bad("R4", "Param::is_write/anchor", "match on the parameter type not found", C.loc(iw))
    else:
        yes_arms = [a_ for a_ in iwm["arms"] if not (C.strip(a_["b"]).get("k") == "lit" and C.strip(a_["b"]).get("v") is False)]
        ok_iw = len(yes_arms) == 1
        if ok_iw:
            pv = yes_arms[0]["pat"]
            subs = pv.get("sub") or []
            ok_iw = pv.get("v") == "Reference" and len(subs) == 3 and isinstance(subs[1], dict) and subs[1].get("k") == "variant" and subs[1].get("v") == "Mutable" and \
                any((x.get("ctor") or x.get("p") or "").endswith("TypeName::Write") for x in C.walk(yes_arms[0]["b"]))
        ck.expect(ok_iw, "R4", "Param::is_write/only-&mut-DiplomatWrite", "Reference(_, Mutable, Write)", "Param::is_write no longer requires `&mut`: a last parameter `&DiplomatWrite` is taken for the write handle "
                  "instead of being refused like any reference to a non-custom type", C.loc(iw))

    # ---------------- R4 validation on the accept path
    fsyn = core.fn("hir::type_context::TypeContext::from_syn")
    items = C.fn_body(fsyn).get("s", []) + ([C.fn_body(fsyn)["e"]] if C.fn_body(fsyn).get("e") else [])
    i_val = next((i for i, s in enumerate(items) if any(x.get("k") == "mcall" and x.get("m") == "validate" for x in C.walk(s))), None)
    # every `Ok(..)` the function returns sits on a path where the error store was found empty (`if errors.is_empty() {Ok} else {Err}`, or after
    # `if !errors.is_empty() { return Err }`), and that test comes after validate()
    oks = [(n_, st_) for n_, st_ in C.with_conditions(C.fn_body(fsyn)) if n_.get("k") == "call" and (n_.get("ctor") or "").endswith("result::Result::Ok")]
    is_empty = lambda c_: c_.get("k") == "mcall" and c_.get("m") == "is_empty"
    guarded = bool(oks) and all(C.asserted(st_, is_empty) for _, st_ in oks)
    i_ok = min((i for i, s in enumerate(items) for n_, _ in oks if any(x is n_ for x in C.walk(s))), default=None)
    ck.expect(i_val is not None and guarded and i_ok is not None and i_val < i_ok, "R4", "from_syn/validate-then-check", "validate -> errors non-empty => Err -> Ok", "TypeContext::from_syn no longer validates and returns Err on a non-empty error store before Ok", C.loc(fsyn))
    val = core.fn("hir::type_context::TypeContext::validate")
    wct = [x for b_ in C.bodies_inl(core, C.fn_body(val), depth=2, exclude=[val["path"]]) for x in C.walk(b_) if x.get("k") == "mcall" and x.get("m") == "with_contained_types"]   # validate and its phase helpers
    elide = None
    for x in wct:
        if any(y.get("k") == "mcall" and y.get("m") == "push" for y in C.walk(x["a"][0])) and any(y.get("k") == "mcall" and y.get("m") == "get_bounds" for y in C.walk(x["a"][0])):
            elide = x
    ck.expect(elide is not None and any(y.get("k") == "field" and y.get("n") == "output" for y in C.walk(elide["recv"])), "R4", "validate/elision-over-all-contained-types", "method.output.with_contained_types(..)",
              "the elided-lifetime check no longer visits every type contained in the return type via with_contained_types (e.g. the Err payload of a Result)", C.loc(val))
    bounds_calls = [x for x in wct if any(y.get("k") == "mcall" and y.get("m") == "validate_ty_in_method" for y in C.walk(x["a"][0]))]
    params_loop = any(n.get("k") == "for" and any(y.get("k") == "field" and y.get("n") == "params" for y in C.walk(n["iter"])) and any(y.get("k") == "mcall" and y.get("m") == "validate_ty_in_method" for y in C.walk(n["body"])) for n in C.walk(C.fn_body(val)))
    ck.expect(bool(bounds_calls) and params_loop, "R4", "validate/bounds-on-params-and-returns", "", "validate_ty_in_method is not applied to every parameter and every contained return type", C.loc(val))
    # with_contained_types table
    wf = core.fn("hir::methods::ReturnType::with_contained_types")
    mt = next((n for n in C.walk(C.fn_body(wf)) if n.get("k") == "match"), None)
    if not mt:
        ck.bad("R4", "with_contained_types/table", "match not found", C.loc(wf))
    else:
        RT = "diplomat_core::hir::methods::ReturnType"
        m2 = dict(mt)
        m2["sadt"] = RT
        bad = []
        ncell = 0
        for v, hits in C.decision_table(m2, adts, RT):
            arm = next((i for i, c in hits if not c), None)
            succ = v.subs[0] if v.subs else None
            err = v.subs[1] if v.subs and len(v.subs) > 1 else None
            want = 0
            if succ is not None and succ.variant == "OutType":
                want += 1
            if err is not None and err.variant == "Some":
                want += 1
            if succ is not None and succ.variant is None:
                continue
            if v.variant == "Fallible" and err is not None and err.variant is None:
                # not split on the error: must still be visited => require refinement
                bad.append(v.show() + " (error payload not inspected)")
                continue
            ncell += 1
            got = 0
            if arm is not None:
                got = sum(1 for x in C.walk(mt["arms"][arm]["b"]) if x.get("k") == "call" and C.strip(x["f"]).get("k") == "local" and C.strip(x["f"]).get("n") == "f")
            if got != want:
                bad.append("%s: visits %d, contains %d" % (v.show(), got, want))
        ck.expect(not bad and ncell >= 6, "R4", "with_contained_types/table", "%d cells" % ncell, "with_contained_types does not visit exactly the Ok and Err out-types: %s" % bad[:4], C.loc(wf))
    # write split
    lm = core.fn("hir::lowering::LoweringContext::lower_method")
    okw = False
    for n in C.walk(C.fn_body(lm)):
        if n.get("k") == "match" and C.strip(n["s"]).get("k") == "mcall" and C.strip(n["s"]).get("m") == "split_last":
            for arm in n["arms"]:
                g = arm.get("g")
                if g and C.strip(g).get("k") == "mcall" and C.strip(g).get("m") == "is_write":
                    b = C.strip(arm["b"])
                    okw = b.get("k") == "tup" and A.B(True) == ("bool", C.strip(b["a"][1]).get("v"))
    ck.expect(okw, "R4", "lower_method/write-is-last", "split_last + is_write", "DiplomatWrite is no longer recognised only as the last parameter", C.loc(lm))

    # ---------------- R6 is_ffi_safe table (documented on the function: Option<&T>/Option<Box<T>> are the FFI-safe options of pointers,
    # every other payload needs DiplomatOption; std slice/str spellings are not FFI-safe, diplomat_runtime spellings are)
    ck.rule("R6", "TypeName::is_ffi_safe: std Option is FFI-safe exactly for &T / Box<T> payloads, DiplomatOption exactly for every other payload; std slice spellings unsafe, diplomat spellings safe", exhaustive=True)
    I = interps["all"]
    payloads = {"prim": A.t_prim(), "named:S": A.t_named("S"), "named:N": A.t_named("N"), "ref(named:Q)": A.t_ref(A.t_named("Q")), "box(named:Q)": A.t_box(A.t_named("Q")),
                "str:borrowed,dip": A.t_str("named", False), "str:borrowed,std": A.t_str("named", True), "pslice:borrowed,dip": A.t_pslice("named", False), "strs,dip": A.t_strs(False),
                "str:owned,dip": A.t_str(None, False), "opt(prim),dip": A.t_opt(A.t_prim(), False), "unit": A.T_UNIT}
    for name, pv in payloads.items():
        for std in (True, False):
            outs = I.call("ast::types::TypeName::is_ffi_safe", [A.t_opt(pv, std)])
            vals = {o.val for o in outs}
            pointer = name.startswith(("ref(", "box("))
            want = A.B(std == pointer)
            ck.expect(vals == {want}, "R6", "is_ffi_safe/opt(%s),%s" % (name, "std" if std else "dip"), str(want[1]),
                      "is_ffi_safe(%s<%s>) = %s, documented %s: %s payloads need %s" % ("Option" if std else "DiplomatOption", name, sorted(A.show(v) for v in vals), want[1], "pointer" if pointer else "non-pointer", "std Option" if pointer else "DiplomatOption"), None)
    for name, pv, want in (("str:borrowed,std", A.t_str("named", True), False), ("str:borrowed,dip", A.t_str("named", False), True), ("pslice:borrowed,std", A.t_pslice("named", True), False),
                           ("pslice:borrowed,dip", A.t_pslice("named", False), True), ("strs,std", A.t_strs(True), False), ("strs,dip", A.t_strs(False), True),
                           ("prim", A.t_prim(), True), ("named:S", A.t_named("S"), True), ("ref(named:Q)", A.t_ref(A.t_named("Q")), True), ("result", A.t_res(A.t_prim(), A.T_UNIT), False), ("unit", A.T_UNIT, False), ("ordering", A.T_ORD, False)):
        vals = {o.val for o in I.call("ast::types::TypeName::is_ffi_safe", [pv])}
        ck.expect(vals == {A.B(want)}, "R6", "is_ffi_safe/" + name, str(want), "is_ffi_safe(%s) = %s, documented %s" % (name, sorted(A.show(v) for v in vals), want), None)

    # ---------------- R3 (cont.) the macro's early struct-field check runs for every by-value struct (only opaque structs are exempt)
    mac = facts.macro
    gb = mac.fn("gen_bridge")
    sites = []
    for n, st in C.with_conditions_inl(mac, C.fn_body(gb)):
        if n.get("k") == "macro" and n.get("name") == "panic" and "non-FFI safe type inside struct" in n.get("src", ""):
            flags = set()
            for kind, a, b in st:
                if kind == "if":
                    for y in C.walk(a):
                        if y.get("k") == "field" and "AttributeInfo" in (y.get("bty") or ""):     # a flag of the item's extracted attribute record, whatever the local is called
                            neg = any(z.get("k") in ("un", "unary") and z.get("op") == "Not" for z in C.walk(a))
                            flags.add(("" if (b == "t") != neg else "!") + y["n"])
            sites.append(sorted(flags))
    ck.expect(sites == [["!opaque"]], "R3", "macro::gen_bridge/struct-field-check-guard", str(sites),
              "the macro's `Found non-FFI safe type inside struct` check runs under %s (expected: for every non-opaque struct): structs with e.g. their own #[repr] skip it, "
              "so macro and tool disagree on which field types are accepted" % sites, C.loc(gb))
    # the elision / implied-bound validation sees every lifetime of a type, also behind Option (rules of C04 on Type::lifetimes and extend_implicit_lifetime_bounds)
    import c04
    sub = C.SubCheck(ck, "R4", "", ["R2", "R3"], key_re=r"Type::lifetimes/carriers|recurses-into|extend_implicit")
    c04.run(sub, facts)
    # "implied bounds spelled out on the method": validate_ty_in_method restates them for every lifetime of the type, the reference's own included (C04.R4)
    c04.run(C.SubCheck(ck, "R4", "", ["R4"], key_re=r"validate_ty_in_method"), facts)
    parse_rules(ck, "R3", "R4", facts)
    # the receiver gate gives one verdict for every backend: "no references to structs" is not a question of feature support, so no arm of
    # lower_self_param consults the backend's support profile (the type gates do, for the shapes the documentation ties to a support flag: R1's table)
    lsp = facts.core.fn("hir::lowering::LoweringContext::lower_self_param")
    narm = 0
    for n in C.walk(C.fn_body(lsp)):
        if n.get("k") == "match" and (n.get("sadt") or "").endswith("ast::types::CustomType"):
            for arm in n["arms"]:
                v = arm["pat"].get("v")
                if v not in ("Struct", "Opaque", "Enum"):
                    continue
                narm += 1
                arm_nodes = list(C.walk_inl(facts.core, arm["b"], 1, exclude=[lsp["path"]], max_nodes=1500))
                prof = sorted({x.get("n") for x in arm_nodes if x.get("k") == "field" and "BackendAttrSupport" in (x.get("bty") or "")} |
                              {"attrs_supported()" for x in arm_nodes if x.get("k") == "mcall" and x.get("m") == "attrs_supported"})
                ck.expect(not prof, "R3", "lower_self_param/%s/profile-independent" % v, "same verdict for every backend",
                          "the %s arm of lower_self_param reads the backend support profile (%s): a receiver form rejected for one backend is accepted for another, and the accepted "
                          "lowering does not match what the macro exports" % (v, ", ".join(prof)), C.loc(lsp, arm.get("ln")))
    if narm < 3:
        ck.bad("R3", "lower_self_param/profile-independent/floor", "only %d of the Struct/Opaque/Enum arms of lower_self_param found" % narm, C.loc(lsp))
    # the bounds a method is compared against are the ones the type's definition implies: a definition that stores its fields builds its lifetime
    # environment from those same fields (`&'a Inner<'b>` in a field implies 'b: 'a for every user of the struct)
    core = facts.core
    nenv = 0
    for f in core.fn_list:
        if "hir" not in f or not f["path"].startswith("diplomat_core::ast::"):
            continue
        lits = [n for n in C.walk(C.fn_body(f)) if n.get("k") == "struct" and {"fields", "lifetimes"} <= {fl["n"] for fl in n.get("fields", [])}]
        if not lits:
            continue
        defs_ = flow.defs_of(f) if "flow" in globals() else None
        for lit in lits:
            fl = {x["n"]: C.strip(x["e"]) for x in lit["fields"]}
            fid = fl["fields"].get("id") if fl["fields"].get("k") == "local" else None
            # the call that builds the environment (directly in the literal or through a local)
            env = fl["lifetimes"]
            if env.get("k") == "local":
                env = next((C.strip(n["init"]) for n in C.walk(C.fn_body(f)) if n.get("k") == "letst" and (n.get("pat") or {}).get("id") == env.get("id") and n.get("init")), env)
            if env.get("k") not in ("call", "mcall"):
                continue
            nenv += 1
            arg_ids = {y.get("id") for a_ in (env.get("a") or []) for y in C.walk(a_) if y.get("k") == "local"}
            name_ = C.norm_path(f["path"]).split("::", 1)[-1]
            ck.expect(fid is not None and fid in arg_ids, "R4", "%s/lifetime-env-from-own-fields" % name_, "environment built from the stored fields",
                      "%s stores its fields but builds its lifetime environment without them: bounds implied by a field (`&'a Inner<'b>` => 'b: 'a) are unknown at the definition, "
                      "so a method that omits the implied bound is no longer rejected" % name_, C.loc(f, lit.get("ln")))
    if nenv < 1:
        ck.bad("R4", "lifetime-env-from-own-fields/floor", "no AST definition that stores both its fields and a lifetime environment found (1 counted: ast::structs::Struct::new)")


def _canon(n):
    """structure of an expression without line numbers (for comparing two occurrences of `the same` expression)"""
    if isinstance(n, dict):
        return {k: _canon(v) for k, v in sorted(n.items()) if k not in ("ln", "id")}
    if isinstance(n, list):
        return [_canon(x) for x in n]
    return n


def parse_rules(ck, r_sibling, r_bounds, facts):
    """Parser-level clauses shared with C09 (the macro builds the extern fn's generics from the same LifetimeEnv):
    (a) every test for the type name `Option` in TypeName::from_syn looks at the same path segment, so `std` Option and DiplomatOption are told
        apart by the segment that was recognised;  (b) LifetimeEnv::extend_generics feeds the `where` clause's lifetime predicates to the bounds,
        unconditionally."""
    import json
    core = facts.core
    f = core.fn("ast::types::TypeName::from_syn")
    tests = []
    for b_ in C.bodies_inl(core, C.fn_body(f), depth=1, exclude=[f["path"]]):
        for n in C.walk(b_):
            if n.get("k") == "bin" and n.get("op") in ("Eq", "Ne"):
                for a_, o_ in ((n["l"], n["r"]), (n["r"], n["l"])):
                    if C.strip(a_).get("k") == "lit" and C.strip(a_).get("v") == "Option":
                        tests.append((json.dumps(_canon(C.strip(o_)), sort_keys=True), n.get("ln")))
    kinds = sorted({t for t, _ in tests})
    ck.expect(len(tests) >= 1 and len(kinds) == 1, r_sibling, "ast::TypeName::from_syn/Option-name-tests-agree", "%d tests of one path segment" % len(tests),
              "the %d tests for the type name `Option` look at %d different expressions: a path recognised as Option through one segment is classified as std / Diplomat option through another "
              "(`std::option::Option<T>` is taken for DiplomatOption<T> and passes the struct-field gate)" % (len(tests), len(kinds)), C.loc(f, tests[0][1] if tests else None))
    eg = core.fn("ast::lifetimes::LifetimeEnv::extend_generics")
    found = 0
    for n, st in C.with_conditions_inl(core, C.fn_body(eg), depth=1):
        if n.get("k") in ("mcall", "call") and (n.get("m") or (C.callee(n) or "").split("::")[-1]) == "extend_bounds":
            args = n.get("a") or []
            if not any(x.get("k") == "field" and x.get("n") == "predicates" for a_ in args for x in C.walk(a_)) and \
               not any(x.get("k") == "local" and "where" in str(x.get("n")) for a_ in args for x in C.walk(a_)):
                continue
            found += 1
            # allowed guard: `if let Some(w) = generics.where_clause` only
            stray = []
            for kind, a_, b_ in st:
                if kind == "if":
                    c_ = C.strip_keep_macro(a_)
                    if isinstance(c_, dict) and c_.get("k") == "let" and any(x.get("k") == "field" and x.get("n") == "where_clause" for x in C.walk(c_.get("init"))):
                        continue
                    stray.append("if@%s/%s" % (a_.get("ln") if isinstance(a_, dict) else "?", b_))
                elif kind == "arm":
                    if any(x.get("k") == "field" and x.get("n") == "where_clause" for x in C.walk(a_.get("s"))):
                        continue
                    stray.append("match-arm")
            ck.expect(not stray, r_bounds, "ast::LifetimeEnv::extend_generics/where-clause-unconditional", "where predicates -> extend_bounds",
                      "the `where` clause's lifetime bounds are added only under %s: for some items `where 'a: 'b` is dropped, the method is validated (and the extern fn declared) without the bound" % stray, C.loc(eg, n.get("ln")))
    if not found:
        ck.bad(r_bounds, "ast::LifetimeEnv::extend_generics/where-clause-consumed", "extend_generics no longer passes the predicates of `generics.where_clause` to extend_bounds: bounds written as `where 'a: 'b` "
               "are lost (methods omitting them are accepted, methods spelling them are rejected, the macro's extern fn lacks them)", C.loc(eg))


"""C14 — output is a deterministic, order-independent, local function of the bridge (effect analysis + container typing)."""
import json
import os
import re
import common as C
import tables as T

HASH_RE = re.compile(r"\b(std::collections::hash::map::HashMap|std::collections::hash::set::HashSet|std::collections::HashMap|std::collections::HashSet|hashbrown::\w+::Hash(Map|Set))\b|collections::hash::(map|set)::")
ITER_M = {"iter", "iter_mut", "keys", "values", "values_mut", "into_iter", "into_keys", "into_values", "drain", "retain", "extract_if"}
AMBIENT = [
    (re.compile(r"^std::time::|::SystemTime::now$|::Instant::now$"), "time"),
    (re.compile(r"^std::env::(var|vars|var_os|vars_os|args|args_os|temp_dir|home_dir)$"), "env"),
    (re.compile(r"^std::thread::|^std::process::id$"), "thread/pid"),
    (re.compile(r"^std::fs::read_dir$|::ReadDir"), "read_dir"),
    (re.compile(r"^rand::|::RandomState::new$|::DefaultHasher::new$"), "random/hash-seed"),
    (re.compile(r"^std::fs::(read|read_to_string|File::open)$|^std::fs::File::open$|^std::fs::read$"), "fs-read"),
    (re.compile(r"^std::net::|^std::process::Command"), "external"),
]


def is_hash_ty(ty):
    return bool(ty) and HASH_RE.search(ty) is not None


def scan(unit):
    hits = []
    for f in unit.fn_list:
        if f.get("dk") == "Closure" or "hir" not in f:
            continue
        path = C.norm_path(f["path"])
        if "::tests::" in path or "::test::" in path:
            continue
        for n in C.walk(C.fn_body(f)):
            k = n.get("k")
            if k == "for" and is_hash_ty(n.get("ity")):
                hits.append((path, "hash-iteration", "for over " + short_ty(n["ity"]), f, n.get("ln")))
            elif k == "mcall" and n.get("m") in ITER_M and is_hash_ty(n.get("rty")):
                hits.append((path, "hash-iteration", "%s() on %s" % (n["m"], short_ty(n["rty"])), f, n.get("ln")))
            elif k in ("call", "mcall"):
                cal = C.callee(n) or ""
                if cal.endswith("IntoIterator::into_iter") and n.get("a") and is_hash_ty(n.get("ty")):
                    hits.append((path, "hash-iteration", "into_iter " + short_ty(n["ty"]), f, n.get("ln")))
                for rx, kind in AMBIENT:
                    if rx.search(cal):
                        hits.append((path, kind, cal, f, n.get("ln")))
            elif k == "macro" and n.get("name") in ("format", "write", "writeln", "println", "print", "eprintln", "format_args") and re.search(r"\{[^}]*:p\}", n.get("src") or ""):
                hits.append((path, "pointer-format", (n.get("src") or "")[:60], f, n.get("ln")))
            elif k == "cast" and (n.get("from") or "").startswith(("*const", "*mut", "&")) and (n.get("ty") or "") in ("usize", "u64", "isize"):
                hits.append((path, "pointer-to-int", "%s as %s" % (n.get("from"), n.get("ty")), f, n.get("ln")))
    return hits


def short_ty(t):
    t = re.sub(r"std::collections::hash::(map|set)::", "", t)
    t = re.sub(r"(alloc|std|core)::\w+::(\w+::)*", "", t)
    return t[:70]


def positional_id_rules(ck, rule, facts):
    """TypeId / TraitId values are positions in the definition vectors of the TypeContext: wherever an id is produced by `enumerate()`, the enumeration runs over the
    whole vector (`<vec>.iter().enumerate()`), never over a filtered / skipped / reversed view -- otherwise every later definition is paired with the id of another type
    and a backend names one type's file after another's definition.  Shared by C01 and C14."""
    core = facts.core
    n = 0
    for f in core.fn_list:
        if "hir" not in f or "::hir::type_context::" not in C.norm_path(f["path"]):
            continue
        for x in C.walk(C.fn_body(f)):
            if x.get("k") != "mcall" or x.get("m") != "enumerate":
                continue
            ch, r = [], C.strip(x["recv"])
            while isinstance(r, dict) and r.get("k") == "mcall":
                ch.append(r["m"])
                r = C.strip(r["recv"])
            n += 1
            bad = [m_ for m_ in ch if m_ not in ("iter", "iter_mut", "into_iter", "as_slice")]
            key = "%s/enumerate#%d" % (C.norm_path(f["path"]).split("::")[-1], sum(1 for i in ck.instances if i["rule"] == rule and i["key"].startswith(C.norm_path(f["path"]).split("::")[-1] + "/enumerate")))
            ck.expect(not bad, rule, key, "positions of the whole vector", "ids are produced by enumerating a `%s` view of the definition vector: the id of every definition after a skipped one is the position "
                      "of a different definition (a C header named after one type declares another type's fields)" % ".".join(reversed(ch)), C.loc(f, x.get("ln")))
    if n < 4:
        ck.bad(rule, "type_context/enumerate-floor", "only %d id-producing enumerations found in hir::type_context (4 counted in all_types)" % n)


def run(ck, facts):
    core, tool, tbin = facts.core, facts.tool, facts.toolbin
    adts = facts.all_adts()
    ck.units += ["diplomat_core.lib+hir", "diplomat_tool.lib", "diplomat_tool.bin"]
    ck.rule("R1", "no order-dependent or ambient-nondeterministic effect: every iteration over a hash container and every ambient read (time, env, pid, read_dir, fs reads, pointer formatting) in core+tool is in the triaged allow-list spec/effects.json")
    ck.rule("R2", "containers whose iteration order reaches the output are ordered (BTreeMap/BTreeSet/Vec); lookups by AST node identity, not by name")
    ck.rule("R3", "code outside #[diplomat::bridge] modules is inert: every item-recording arm of Module::from_syn is guarded by analyze_types, which is true only for the full path diplomat::bridge (or the forced root); config scan reads only top-level diplomat::config attributes")
    ck.rule("R5", "per-item scratch state of a generator is reset in every item loop that uses the generator: a buffer one loop of a backend's run() clears per item is cleared "
                  "per item in its sibling loops too (data of an unrelated type cannot leak into another item's file)")
    ck.rule("R4", "one file per type: file names passed to add_file derive from the type's id/name only; duplicate file names are rejected")
    ck.not_decided += ["std's own determinism; byte-identity of whole output directories (the causes are decided, not the bytes)"]

    spec = json.load(open(os.path.join(C.VERIF, "spec", "effects.json")))
    allow = {(e["fn"], e["kind"]): e for e in spec["allowed"]}
    hits = scan(core) + scan(tool) + scan(tbin)
    if os.environ.get("VERIF_DUMP_EFFECTS"):
        for h in hits:
            print("HIT", h[0], "|", h[1], "|", h[2], "|", C.loc(h[3], h[4]))
    seen = {}
    for path, kind, what, f, ln in hits:
        key = (path, kind)
        seen.setdefault(key, []).append((what, f, ln))
    BACKENDS = {"c", "cpp", "js", "dart", "kotlin", "nanobind", "demo_gen", "config", "ast", "hir"}

    def modgroup(path_):
        segs = C.norm_path(path_).split("::")
        return "::".join(segs[:2]) if len(segs) > 2 and segs[1] in BACKENDS else segs[0]
    for (path, kind), occ in sorted(seen.items()):
        e = allow.get((path, kind))
        if e is None:
            # the effect may have moved into a helper / another function of the same module group: reuse the triage of an entry whose own function lost it
            moved = [v for (fp, kd), v in allow.items() if kd == kind and (fp, kd) not in seen and modgroup(fp) == modgroup(path)]
            if moved:
                e = moved[0]
        k = "%s/%s" % (path.replace("diplomat_tool::", "tool::").replace("diplomat_core::", "core::"), kind)
        if e is None:
            ck.bad("R1", k, "untriaged %s in %s: %s — its order/value can reach the generated output" % (kind, path, occ[0][0]), C.loc(occ[0][1], occ[0][2]))
        else:
            ck.expect(len(occ) <= e.get("max", 1), "R1", k, e["why"], "%d occurrences of %s in %s, %d triaged: %s" % (len(occ), kind, path, e.get("max", 1), [o[0] for o in occ]), C.loc(occ[0][1], occ[0][2]))
    # built-in positive example: the scanner must recognise hash iteration in a tiny synthetic tree
    synth = {"k": "for", "ity": "&std::collections::hash::map::HashMap<alloc::string::String, u8>", "iter": {"k": "local", "n": "m", "id": 1}, "pat": {"k": "wild"}, "body": {"k": "block", "s": []}}
    ck.expect(is_hash_ty(synth["ity"]) and not is_hash_ty("alloc::collections::btree::map::BTreeMap<K, V>"), "R1", "selftest/hash-type-recogniser", "", "the hash-container recogniser is broken", None)
    ck.floor("R1", 4)

    # ---------------- R2 ordered containers
    want_ordered = [
        (core, "ast::modules::File", "modules", r"btree::map::BTreeMap"),
        (core, "ast::modules::Module", "declared_types", r"btree::map::BTreeMap"),
        (core, "ast::modules::Module", "declared_traits", r"btree::map::BTreeMap"),
        (core, "ast::modules::Module", "sub_modules", r"vec::Vec"),
        (core, "environment::Env", "env", r"btree::map::BTreeMap"),
        (core, "environment::ModuleEnv", "module", r"btree::map::BTreeMap"),
        (tool, "c::header::Header", "includes", r"btree::set::BTreeSet"),
        (tool, "cpp::header::Header", "includes", r"btree::set::BTreeSet"),
        (tool, "cpp::header::Header", "forwards", r"btree::map::BTreeMap<.*btree::set::BTreeSet"),
        (core, "hir::type_context::TypeContext", "structs", r"vec::Vec"),
        (core, "hir::type_context::TypeContext", "opaques", r"vec::Vec"),
        (core, "hir::type_context::TypeContext", "enums", r"vec::Vec"),
    ]
    for unit, adt_sfx, field, rx in want_ordered:
        a = unit.adt(adt_sfx, optional=True)
        if not a:
            ck.bad("R2", "%s.%s" % (adt_sfx, field), "type %s not found" % adt_sfx, None)
            continue
        fl = next((f for v in a["variants"] for f in v["fields"] if f["name"] == field), None)
        ck.expect(bool(fl) and re.search(rx, fl["ty"]) is not None and not is_hash_ty(fl["ty"]), "R2", "%s.%s" % (adt_sfx, field), short_ty(fl["ty"]) if fl else "",
                  "%s.%s is `%s`; its iteration order reaches the output, it must be an ordered container" % (adt_sfx, field, fl["ty"] if fl else "missing"), C.loc(a))
    # any hash-typed field in a struct that backends iterate: all struct fields of hash type in core::ast/hir/tool must be in the lookup-only list
    lookup_only = set(spec.get("lookup_only_fields", []))
    for unit in (core, tool):
        for p, a in unit.adts.items():
            if a.get("kind") == "alias" or a.get("exp"):
                continue
            for v in a.get("variants", []):
                for fl in v["fields"]:
                    if is_hash_ty(fl["ty"]):
                        key = "%s.%s" % (p, fl["name"])
                        ck.expect(key in lookup_only, "R2", "hash-field/" + key, "lookup-only (triaged)", "new hash-typed field %s: %s — triage whether it is ever iterated into the output" % (key, short_ty(fl["ty"])), C.loc(a))
    # LookupId: keyed by AST node identity
    li = core.adt("hir::type_context::LookupId")
    for fl in li["variants"][0]["fields"]:
        if "Map" in fl["ty"]:
            m = re.search(r"Map<&'\w+ (diplomat_core::ast::[\w:]+)", fl["ty"])
            ck.expect(bool(m), "R2", "LookupId.%s/keyed-by-node" % fl["name"], m.group(1) if m else "", "LookupId.%s is keyed by `%s`, not by the AST node: same-named types in different modules are conflated, so adding an unrelated type can change other types' files" % (fl["name"], short_ty(fl["ty"])), C.loc(li))

    positional_id_rules(ck, "R2", facts)
    # the language override table is a HashMap applied in iteration order: harmless only while every setting has ONE key under which it can be stored (rules of C17: the
    # shared keys a prefix may override are exactly the keys SharedConfig::set understands, spelled one way)
    import c17
    c17.run(C.SubCheck(ck, "R1", "", ["R2", "R3"], key_re=r"SharedConfig/"), facts)

    # ---------------- R3 non-bridge code inert
    ms = core.fn("ast::modules::Module::from_syn")
    body = C.fn_body(ms)
    at = next((n for n in C.walk(body) if n.get("k") == "letst" and n["pat"].get("n") == "analyze_types"), None)
    ok = False
    detail = ""
    if at:
        i0 = C.strip(at["init"])
        if i0.get("k") == "bin" and i0.get("op") == "Or":
            l, r = C.strip(i0["l"]), C.strip(i0["r"])
            okl = l.get("k") == "local" and l.get("n") == "force_analyze"
            okr = r.get("k") == "mcall" and r.get("m") == "any" and any(x.get("k") == "field" and x.get("n") == "attrs" for x in C.walk(r["recv"]))
            if okl and okr:
                clo = C.strip(r["a"][0])
                lits = C.str_lits(clo.get("body", {}))
                meths = [x.get("m") for x in C.calls_in(clo.get("body", {})) if x.get("k") == "mcall"]
                whole_path = "path" in meths and not ({"last", "segments", "ends_with", "contains", "starts_with", "get_ident", "is_ident"} & set(meths))
                ok = lits in (["diplomat :: bridge"], ["diplomat::bridge"]) and whole_path
                detail = "compares %s with %s" % (meths, lits)
    ck.expect(ok, "R3", "Module::from_syn/analyze_types", "force || attrs.any(path == diplomat::bridge)", "a module is analysed when %s: only the full attribute path `diplomat::bridge` may mark a bridge module (other crates' `#[x::bridge]` modules must stay inert)" % (detail or "analyze_types is computed differently"), C.loc(ms, at.get("ln") if at else None))
    # arms guarded
    mt = next((n for n in C.walk(body) if n.get("k") == "match" and (n.get("sadt") or "").endswith("syn::item::Item")), None)
    if not mt:
        ck.bad("R3", "Module::from_syn/item-match", "match on syn::Item not found", C.loc(ms))
    else:
        for arm in mt["arms"]:
            v = arm["pat"].get("v")
            if v in ("Use", "Struct", "Enum", "Impl", "Trait"):
                b = C.strip_keep_macro(arm["b"])
                inner = b
                if inner.get("k") == "block" and not inner.get("s") and inner.get("e"):
                    inner = C.strip_keep_macro(inner["e"])
                guarded = inner.get("k") == "if" and any(x.get("k") == "local" and x.get("n") == "analyze_types" for x in C.walk(inner["c"])) and not inner.get("e")
                if inner.get("k") == "if":
                    c = C.strip(inner["c"])
                    # analyze_types must be a conjunct, not a disjunct
                    if c.get("k") == "bin" and c.get("op") == "Or":
                        guarded = False
                ck.expect(guarded, "R3", "Module::from_syn/%s-guarded" % v, "", "Item::%s is recorded without the analyze_types guard: items outside #[diplomat::bridge] modules influence the output" % v, C.loc(ms, arm.get("ln")))
            if v == "Mod":
                rec = [x for x in C.calls_in(arm["b"]) if (C.callee(x) or "").endswith("Module::from_syn")]
                ck.expect(len(rec) == 1 and C.strip(rec[0]["a"][1]).get("v") is False, "R3", "Module::from_syn/submodule-not-forced", "", "sub-modules are analysed with force_analyze = true", C.loc(ms, arm.get("ln")))
    ff = core.fn("<diplomat_core::ast::modules::File as core::convert::From<&syn::file::File>>::from", optional=True)
    if ff:
        rec = [x for x in C.calls_in(C.fn_body(ff)) if (C.callee(x) or "").endswith("Module::from_syn")]
        ck.expect(rec and all(C.strip(x["a"][1]).get("v") is False for x in rec), "R3", "File::from/no-force", "", "top-level modules are analysed with force_analyze = true", C.loc(ff))
    else:
        ck.bad("R3", "File::from/anchor", "ast::File::from(&syn::File) not found", None)
    cf = tool.fn("config::find_top_level_attr")
    cf_bodies = C.bodies_inl(tool, C.fn_body(cf), depth=2, exclude=[cf["path"]])     # the scan and the helpers it delegates to
    lits = [l_ for b_ in cf_bodies for l_ in C.str_lits(b_)]
    mt2 = next((n for b_ in cf_bodies for n in C.walk(b_) if n.get("k") == "match" and (n.get("sadt") or "").endswith("syn::item::Item")), None)
    kinds = sorted(a["pat"].get("v") for a in mt2["arms"] if a["pat"].get("v")) if mt2 else []
    ck.expect("diplomat::config" in lits and kinds == ["Impl", "Mod", "Struct"], "R3", "find_top_level_attr/scope", "top-level struct/impl/mod attrs equal to diplomat::config", "config scan changed: literals %s, item kinds %s" % (lits, kinds), C.loc(cf))

    # ---------------- R4 file map
    af = tool.fn("diplomat_tool::FileMap::add_file")
    dup = any(C.panic_macro_of(n["t"]) for n in C.walk(C.fn_body(af)) if n.get("k") == "if")
    ck.expect(dup, "R4", "FileMap::add_file/duplicate-rejected", "", "adding the same file name twice is no longer rejected", C.loc(af))
    for b, min_sites in (("c", 2), ("cpp", 2), ("js", 1), ("dart", 1), ("kotlin", 1)):
        f = tool.fn("diplomat_tool::%s::run" % b)
        sites = [x for g_ in C.fns_inl(tool, f, depth=1) for x in C.calls_in(C.fn_body(g_)) if x.get("k") == "mcall" and x.get("m") == "add_file"]
        ck.expect(len(sites) >= min_sites, "R4", "%s::run/add_file-sites" % b, "%d" % len(sites), "only %d add_file sites in %s::run" % (len(sites), b), C.loc(f))

    # ---------------- R4 (cont.) a file name is the type's (already unique) name with an extension: no backend folds case or word boundaries into it -- two types whose names
    # differ (`HTTPServer`, `HttpServer`) get two files
    FOLD = {"to_snake_case", "to_lowercase", "to_uppercase", "to_ascii_lowercase", "to_ascii_uppercase", "to_lower_camel_case", "to_upper_camel_case", "to_kebab_case",
            "to_shouty_snake_case", "to_title_case", "to_pascal_case", "to_snek_case", "trim_matches", "replace"}
    nfn_ = 0
    for f in tool.fn_list:
        if "hir" not in f or f.get("dk") == "Closure" or not f["path"].endswith("::fmt_file_name"):
            continue
        nfn_ += 1
        folds = sorted({x.get("m") for x in C.walk_inl(tool, C.fn_body(f), 1, exclude=[f["path"]]) if x.get("k") == "mcall" and x.get("m") in FOLD})
        ck.expect(not folds, "R4", "%s/name-kept-as-is" % C.norm_path(f["path"]).replace("diplomat_tool::", ""), "", "%s passes the type name through %s: distinct type names can fall on one file name "
                  "(the duplicate is rejected with a panic, or one type's file silently replaces another's)" % (f["name"], folds), C.loc(f))
    if nfn_ < 2:
        ck.bad("R4", "fmt_file_name/floor", "only %d fmt_file_name functions found (3 counted)" % nfn_)

    # ---------------- R5 per-item scratch is reset in every sibling item loop
    n5 = 0
    for f in tool.fn_list:
        if f.get("dk") == "Closure" or "hir" not in f:
            continue
        if not re.search(r"^diplomat_tool::(c|cpp|js|dart|kotlin|nanobind|demo_gen)(::\w+)*::(run|gen|run_gen)$", C.norm_path(f["path"])):
            continue
        loops = []
        for lp in C.enclosing_loops(C.fn_body(f)):
            if lp.get("k") != "for":
                continue
            its = [C.callee(x) or "" for x in C.calls_in(lp["iter"])]
            if any(c.endswith("all_types") or c.endswith("all_traits") for c in its):
                loops.append(lp)
        RESET = ("mcall:clear", "mcall:drain", "mcall:truncate", "assign")
        cleared = {}
        for i, lp in enumerate(loops):
            for r, path, kind, node in C.mutations(lp["body"]):
                if r is not None and kind in RESET and path:
                    cleared.setdefault((r.get("n"), tuple(path)), set()).add(i)
        for (root, path), where_ in sorted(cleared.items()):
            for i, lp in enumerate(loops):
                uses_root = any(r is not None and r.get("n") == root and kind.startswith("mcall:") and kind not in RESET for r, _, kind, _ in C.mutations(lp["body"]))
                if not uses_root:
                    continue
                n5 += 1
                what = "traits" if any((C.callee(x) or "").endswith("all_traits") for x in C.calls_in(lp["iter"])) else "types"
                ck.expect(i in where_, "R5", "%s/loop-over-%s/%s.%s-reset" % (C.norm_path(f["path"]).replace("diplomat_tool::", ""), what, root, ".".join(path)),
                          "reset per item", "`%s.%s` is per-item scratch (reset per item in a sibling loop of the same function) but the loop over %s generates with `%s` without resetting it: "
                          "whatever the previous item left there is printed into this item's file" % (root, ".".join(path), what, root), C.loc(f, lp.get("ln")))
    if n5 < 2:
        ck.bad("R5", "floor", "only %d (loop, scratch buffer) pairs found (2 counted: kotlin::run types/traits x callback_params)" % n5)
    # a collection that is filled for an item AND read into that item's output lives inside the item loop: declared outside it, it carries what earlier
    # items put there into every later item's file (a type's file then depends on unrelated types)
    n5b = 0
    for f in tool.fn_list:
        if f.get("dk") == "Closure" or "hir" not in f:
            continue
        if not re.search(r"^diplomat_tool::(c|cpp|js|dart|kotlin|nanobind|demo_gen)(::\w+)*::(run|gen|run_gen)$", C.norm_path(f["path"])):
            continue
        body_ = C.fn_body(f)
        for lp in C.enclosing_loops(body_):
            if lp.get("k") != "for" or not any((C.callee(x) or "").endswith(("all_types", "all_traits")) for x in C.calls_in(lp["iter"])):
                continue
            inside = {id(x) for x in C.walk(lp["body"])}
            outer = {}
            for n_ in C.walk(body_):
                if n_.get("k") == "letst" and id(n_) not in inside and isinstance(n_.get("pat"), dict) and n_["pat"].get("k") == "bind" and "Mut" in (n_["pat"].get("mode") or ""):
                    ini = C.strip(n_.get("init") or {})
                    if ini.get("k") in ("call", "mcall", "macro") and re.search(r"(BTreeSet|BTreeMap|HashSet|HashMap|Vec|String)\b.*::(new|default|with_capacity)$|^vec$", (C.callee(ini) or ini.get("name") or "")):
                        outer[n_["pat"]["id"]] = n_["pat"]["n"]
            if not outer:
                continue
            muts = {}
            for r, path, kind, node in C.mutations(lp["body"]):
                if r is not None and r.get("id") in outer and not path:
                    muts.setdefault(r["id"], set()).add(id(node))
                    for y in C.walk(node):
                        muts[r["id"]].add(id(y))
            what = "traits" if any((C.callee(x) or "").endswith("all_traits") for x in C.calls_in(lp["iter"])) else "types"
            for lid, nm in sorted(outer.items(), key=lambda kv: kv[1]):
                if lid not in muts:
                    continue
                n5b += 1
                reads = [x for x in C.walk(lp["body"]) if x.get("k") == "local" and x.get("id") == lid and id(x) not in muts[lid]]
                ck.expect(not reads, "R5", "%s/loop-over-%s/%s-accumulates-only" % (C.norm_path(f["path"]).replace("diplomat_tool::", ""), what, nm), "filled per item, read after the loop",
                          "`%s` is created once before the loop over %s, filled for each item and also read inside the loop (into that item's output): every item's file contains what "
                          "earlier, unrelated items put there" % (nm, what), C.loc(f, lp.get("ln")))
    ck.note("R5: %d collections created outside an item loop and filled inside it; none is read inside the loop" % n5b)

    # ---------------- R4 (cont.) generated files replace whatever was there: whole-file writes only
    writers = []
    for unit in (tool, tbin):
        for f in unit.fn_list:
            if "hir" not in f:
                continue
            for n in C.walk(C.fn_body(f)):
                if n.get("k") not in ("call", "mcall"):
                    continue
                cal = C.callee(n) or ""
                if re.search(r"std::fs::write$|fs::File::create$|fs::File::create_new$", cal):
                    writers.append(("replace", cal.split("::")[-1], f, n))
                elif re.search(r"fs::OpenOptions::open$|fs::File::options$", cal) or (n.get("k") == "mcall" and n.get("m") == "open" and "OpenOptions" in (n.get("rty") or "")):
                    chain = []
                    x = n
                    while isinstance(x, dict) and x.get("k") == "mcall":
                        chain.append((x.get("m"), [C.strip(a_).get("v") for a_ in x.get("a", [])]))
                        x = C.strip(x["recv"])
                    trunc = any(m_ == "truncate" and str(a_[:1]) in ("[True]", "['true']", "[1]") for m_, a_ in chain) or any(m_ == "create_new" for m_, a_ in chain)
                    wr = any(m_ in ("write", "append", "create") for m_, a_ in chain)
                    if wr:
                        writers.append(("replace" if trunc and not any(m_ == "append" for m_, _ in chain) else "in-place", "OpenOptions", f, n))
    bad_w = [(w[2]["path"], w[3].get("ln")) for w in writers if w[0] != "replace"]
    ck.expect(not bad_w and any(w[0] == "replace" for w in writers), "R4", "output/whole-file-writes", "%d writers, all replacing" % len(writers),
              "an output file is opened for writing without truncation (%s): regenerating into a directory that holds a longer earlier revision leaves its tail behind, so the output is no longer a function of the bridge" % bad_w[:2],
              C.loc(writers[0][2]) if writers else None)
    # attributes of one impl block must not reach its sibling blocks: otherwise permuting or inserting unrelated types changes other types' files (shares C13.R7)
    import c13
    sub = C.SubCheck(ck, "R5", "", ["R7"], key_re=r"ast::modules|add_attrs|type_context|\(assign\)|floor")
    c13.run(sub, facts)

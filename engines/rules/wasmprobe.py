"""E4: rustc's own wasm32-unknown-unknown layouts without a wasm sysroot.
A #![no_core] probe crate is type-checked with `-Zprint-type-sizes --emit=metadata`; nothing is executed."""
import os
import re
import subprocess
import tempfile
import common as C

PRIMS = ["u8", "i8", "u16", "i16", "u32", "i32", "u64", "i64", "u128", "i128", "usize", "isize", "f32", "f64", "bool", "char"]
HEAD = """#![feature(no_core, lang_items, rustc_attrs, auto_traits)]
#![no_core]
#![crate_type = "lib"]
#![allow(dead_code, improper_ctypes_definitions, non_camel_case_types, internal_features)]
#[lang = "pointee_sized"] pub trait PointeeSized {}
#[lang = "meta_sized"] pub trait MetaSized: PointeeSized {}
#[lang = "sized"] pub trait Sized: MetaSized {}
#[lang = "copy"] pub trait Copy {}
#[lang = "freeze"] auto trait Freeze {}
"""

_cache = {}


def ident(t):
    return re.sub(r"\W", "_", t)


def probe(extra_decls="", extra_names=()):
    """-> {type name: {"size":n,"align":n,"fields":[(name, offset, size)]}} for the standard probe set plus extra decls."""
    key = extra_decls
    if key in _cache:
        return _cache[key]
    src = [HEAD]
    names = []
    for p in PRIMS:
        src.append("impl Copy for %s {}" % p)
    for p in PRIMS:
        src.append("#[repr(C)] pub struct P_%s { x: %s }" % (p, p))
        src.append("#[repr(C)] pub union U_%s { ok: %s }" % (p, p))
        src.append("#[repr(C)] pub struct Opt_%s { u: U_%s, is_ok: bool }" % (p, p))
        names += ["P_" + p, "Opt_" + p]
    src.append("#[repr(C)] pub struct P_slice { p: *const u8, l: usize }")
    src.append("#[repr(C)] pub enum E_c { A, B }")
    src.append("#[repr(C)] pub struct P_enum { x: E_c }")
    src.append("impl Copy for P_slice {} impl Copy for E_c {} impl<T> Copy for *const T {}")
    src.append("#[repr(C)] pub union U_slice { ok: P_slice }")
    src.append("#[repr(C)] pub struct Opt_slice { u: U_slice, is_ok: bool }")
    src.append("#[repr(C)] pub union U_enum { ok: E_c }")
    src.append("#[repr(C)] pub struct Opt_enum { u: U_enum, is_ok: bool }")
    names += ["P_slice", "P_enum", "Opt_slice", "Opt_enum"]
    src.append(extra_decls)
    names += list(extra_names)
    src.append("pub fn use_all(%s) {}" % ", ".join("_: &%s" % n for n in names))
    d = tempfile.mkdtemp(prefix="wasmprobe", dir=os.environ.get("TMPDIR") or None)
    try:
        p = os.path.join(d, "probe.rs")
        with open(p, "w") as f:
            f.write("\n".join(src))
        r = subprocess.run(["rustc", "+nightly", "--target", "wasm32-unknown-unknown", "-Zprint-type-sizes", "--emit=metadata", "-Awarnings",
                            "-o", os.path.join(d, "out.rmeta"), p], stdout=subprocess.PIPE, stderr=subprocess.STDOUT, text=True)
        out = r.stdout
        if r.returncode != 0:
            raise C.CheckError("wasm32 layout probe failed to type-check:\n" + out[-2000:])
    finally:
        import shutil
        shutil.rmtree(d, ignore_errors=True)
    res = {}
    cur = None
    off = 0
    for line in out.splitlines():
        m = re.match(r"print-type-size type: `([^`]+)`: (\d+) bytes, alignment: (\d+) bytes", line)
        if m:
            cur = {"size": int(m.group(2)), "align": int(m.group(3)), "fields": []}
            res[m.group(1)] = cur
            off = 0
            continue
        if cur is None:
            continue
        m = re.match(r"print-type-size\s+field `\.(\w+)`: (\d+) bytes(?:, offset: (\d+) bytes)?", line)
        if m and line.startswith("print-type-size     field"):
            if m.group(3) is not None:
                off = int(m.group(3))
            cur["fields"].append((m.group(1), off, int(m.group(2))))
            off += int(m.group(2))
            continue
        m = re.match(r"print-type-size\s+padding: (\d+) bytes", line)
        if m and line.startswith("print-type-size     padding"):
            off += int(m.group(1))
    missing = [n for n in names if n not in res]
    if missing:
        raise C.CheckError("wasm32 layout probe printed no layout for %s" % missing)
    _cache[key] = res
    return res

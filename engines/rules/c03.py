"""C03 — exactly-once destruction: ownership-escape inventory, take/from_raw-vs-owner-drop typestate,
constructor/destructor pairing, opaque destroy path, C++ ownership forwarding."""
import json
import os
import re
import common as C
from common import MirFn, sym_show, sym_strip, sym_root, sym_field_of, sym_is_arg, sym_walk, sym_leaves, sym_peel

OWN_RE = re.compile(
    r"(manually_drop::ManuallyDrop::(new|take|drop|into_inner)|core::mem::(forget|transmute|replace|take|zeroed|swap)|"
    r"core::ptr::(read|read_unaligned|read_volatile|write|write_unaligned|drop_in_place|copy|copy_nonoverlapping)|"
    r"boxed::Box::(into_raw|from_raw|leak|into_raw_with_allocator)|vec::Vec::(from_raw_parts|into_raw_parts|leak|set_len)|"
    r"core::slice::raw::from_raw_parts(_mut)?|core::ptr::slice_from_raw_parts(_mut)?|alloc::alloc::(alloc|dealloc|realloc)|"
    r"core::intrinsics::transmute(_unchecked)?|mem::maybe_uninit::MaybeUninit::(assume_init|uninit|zeroed))$")

TAKE_RE = re.compile(r"(manually_drop::ManuallyDrop::take|core::ptr::read|core::ptr::read_unaligned|boxed::Box::from_raw|vec::Vec::from_raw_parts)$")
RELEASE_RE = re.compile(r"(manually_drop::ManuallyDrop::(take|drop)|core::ptr::drop_in_place)$")


def short(c):
    c = re.sub(r"^core::mem::manually_drop::", "", c)
    c = re.sub(r"^(core|alloc)::", "", c)
    return c


def droppy_adts(rt):
    """runtime ADTs whose drop glue runs user code on a payload/pointer (has_dtor, transitively through fields)."""
    d = {p for p, a in rt.adts.items() if a.get("has_dtor")}
    changed = True
    while changed:
        changed = False
        for p, a in rt.adts.items():
            if p in d or a.get("kind") == "alias":
                continue
            for v in a.get("variants", []):
                for f in v["fields"]:
                    if any(x in f["ty"] for x in d) and "ManuallyDrop" not in f["ty"]:
                        d.add(p)
                        changed = True
    return d


def run(ck, facts):
    rt = facts.runtime
    ck.units.append("diplomat_runtime.lib (MIR)")
    ck.rule("R1", "ownership-escape inventory of the runtime crate equals the triaged table spec/ownership.json (a new or vanished unsafe ownership operation must be triaged)")
    ck.rule("R2", "typestate: after a payload/pointer is taken out of a value whose drop glue releases it (ManuallyDrop::take, ptr::read, Box::from_raw, Vec::from_raw_parts), that value is not dropped on the same path")
    ck.rule("R2c", "a Vec/Box rebuilt from a buffer that a surviving owner (behind a pointer argument) still points at is forgotten on every path, never dropped")
    ck.rule("R2b", "Drop for DiplomatResult releases exactly one payload per path: `ok` on the is_ok edge, `err` otherwise, and the taken value is dropped")
    ck.rule("R3", "constructor/destructor pairing: buffer writer create/destroy, owned slice into_raw/from_raw, callback destructor called at most once under the Some edge")
    ck.rule("R4", "generated `*_destroy(Box<T>)` is the only by-value consumer of an opaque in the repo's bridges and has an empty body")
    ck.rule("R5", "C++ side: operator delete forwards to the Rust destructor slot; owned opaques are wrapped in unique_ptr in the owned arm only; callbacks are heap-moved and carry c_delete")
    ck.not_decided += ["what foreign callers do with the API (double destroy, use after destroy)", "leak-freedom of arbitrary user types"]

    droppy = droppy_adts(rt)

    # ---- R1 inventory (grouped: by the runtime type an impl belongs to, by exported symbol, or `helpers` for private free/nested fns;
    #      robust against moving code between methods of one type, extracting helpers, moving exported fns between modules)
    ADTS = ["DiplomatOwnedUTF8StrSlice", "DiplomatUtf8StrSlice", "DiplomatOwnedSlice", "DiplomatSliceMut", "DiplomatSlice", "DiplomatResult", "DiplomatWrite", "DiplomatCallback"]

    def group_of(f):
        is_impl = bool(f.get("impl_self") or f.get("impl_trait") or "<impl " in f["path"] or f["path"].startswith("<"))
        if is_impl:
            s_ = f["path"] + " " + (f.get("impl_self") or "") + " " + (f.get("impl_trait") or "")
            hits = []
            for a in ADTS:
                if re.search(r"\b%s\b" % a, s_):
                    hits.append(a)
                    s_ = re.sub(r"\b%s\b" % a, "", s_)
            if hits:
                return "type:" + "+".join(sorted(hits))
        if f.get("no_mangle"):
            return "export:" + f["name"]
        return "helpers"
    inv = {}
    where_ = {}
    mirfns = {}
    for f in rt.fn_list:
        mir = f.get("mir")
        if not mir or "blocks" not in mir:
            continue
        m = MirFn(f)
        mirfns[f["path"]] = m
        for bb, t in m.calls():
            cal = C.mir_callee(t) or ""
            if OWN_RE.search(cal) and not t.get("exp_dbg"):
                g = group_of(f)
                inv.setdefault(g, {}).setdefault(short(cal), 0)
                inv[g][short(cal)] += 1
                where_.setdefault((g, short(cal)), []).append(f)
    spec_p = os.path.join(C.VERIF, "spec", "ownership.json")
    if os.environ.get("VERIF_DUMP_OWNERSHIP"):
        print(json.dumps(inv, indent=1, sort_keys=True))
    if not os.path.exists(spec_p):
        raise C.CheckError("spec/ownership.json missing")
    spec = json.load(open(spec_p))["groups"]
    # the hard bound is per operation kind over the whole crate: an operation that moved between groups (a helper shared by an exported fn and a callback, a method that
    # became a free fn) is still one of the triaged ones as long as the crate does not contain MORE of its kind than were triaged
    tot_inv, tot_spec = {}, {}
    for g, ops in inv.items():
        for op, n in ops.items():
            tot_inv[op] = tot_inv.get(op, 0) + n
    for g, ops in spec.items():
        for op, ent in ops.items():
            tot_spec[op] = tot_spec.get(op, 0) + ent["count"]
    for g, ops in sorted(inv.items()):
        for op, n in sorted(ops.items()):
            ent = spec.get(g, {}).get(op)
            key = "%s/%s" % (g, op)
            fs = where_[(g, op)]
            within = ent is not None and n <= ent["count"]
            moved_ok = tot_inv.get(op, 0) <= tot_spec.get(op, 0)
            if within or moved_ok:
                ck.ok("R1", key, ("; ".join(ent.get("roles", []))[:160] if within else "moved within the crate: %d of %d triaged `%s` operations present" % (tot_inv[op], tot_spec[op], op)), C.loc(fs[0]))
            elif ent is None:
                ck.bad("R1", key, "untriaged ownership operation %s (x%d) in %s (%s; the crate now has %d of them, %d triaged): who releases the value now?" % (op, n, g, ", ".join(sorted({x["path"] for x in fs}))[:200], tot_inv.get(op, 0), tot_spec.get(op, 0)), C.loc(fs[0]))
            else:
                ck.bad("R1", key, "%s occurs %d times in %s, the triaged table allows %d (crate-wide %d, triaged %d): a new unsafe ownership operation must be triaged" % (op, n, g, ent["count"], tot_inv.get(op, 0), tot_spec.get(op, 0)), C.loc(fs[0]))
    gone = sorted("%s/%s" % (g, op) for g, ops in spec.items() for op in ops if inv.get(g, {}).get(op) is None)
    if gone:
        ck.note("triaged ownership operations no longer present (accepted; lost releases are the business of R2b/R3): %s" % gone)
    ck.floor("R1", 20)

    # ---- R2 typestate
    n2 = 0
    n2c = 0
    units = [(rt, None), (facts.ft, "diplomat::bridge"), (facts.example, "diplomat::bridge")]
    for unit, only_exp in units:
        for f in unit.fn_list:
            mir = f.get("mir")
            if not mir or "blocks" not in mir:
                continue
            if only_exp and f.get("exp") != only_exp:
                continue
            m = mirfns.get(f["path"]) if unit is rt else MirFn(f)
            drops = {}
            for b in mir["blocks"]:
                if b.get("cleanup"):
                    continue
                if b["term"]["k"] == "drop":
                    drops.setdefault(b["term"]["place"]["l"], []).append(b["id"])
            for bb, t in m.calls():
                cal = C.mir_callee(t) or ""
                if not TAKE_RE.search(cal):
                    continue
                n2 += 1
                a0 = m.sym_op(t["args"][0])
                owners = []
                for kind, l in sym_leaves(a0):
                    if kind not in ("arg", "local", "phi"):
                        continue
                    lty = mir["locals"][l]["ty"]
                    if lty.startswith(("&", "*")):
                        continue  # borrowed owner: its drop is someone else's
                    if "ManuallyDrop<" in lty.split("<")[0] + "<":
                        continue
                    if any(d in lty for d in droppy):
                        owners.append((l, lty))
                key = "%s/%s(%s)" % (f["path"], short(cal), sym_show(a0))
                bad = []
                for l, lty in owners:
                    reach = m.cfg.reachable_from(bb)
                    for db in drops.get(l, []):
                        if db in reach:
                            bad.append("%s: %s dropped in bb%d after its payload was taken" % (m.local_name(l), lty, db))
                ck.expect(not bad, "R2", key, "owner not dropped after the take" if owners else "no droppy owner involved",
                          "double release: " + "; ".join(bad), C.loc(f, t.get("ln")))
                # R2c: a value re-owned from storage that its (borrowed) owner keeps pointing at must be forgotten on every path
                if re.search(r"(vec::Vec::from_raw_parts|boxed::Box::from_raw|string::String::from_raw_parts)$", cal) and t.get("dest"):
                    roots = [(kind, l) for kind, l in sym_leaves(a0) if kind in ("arg", "local", "phi")]
                    borrowed_owner = bool(roots) and all(mir["locals"][l]["ty"].startswith(("&", "*")) for _, l in roots) and \
                        any(x[0] == "proj" and isinstance(x[2], str) and x[2].startswith(".") for x in sym_walk(a0) if isinstance(x, tuple) and len(x) > 2)
                    if borrowed_owner:
                        n2c += 1
                        alias = {t["dest"]["l"]}
                        changed = True
                        while changed:
                            changed = False
                            for b2, st in m.stores():
                                rv = st.get("rv") or {}
                                op = rv.get("op") if rv.get("k") == "use" else None
                                src = None
                                if isinstance(op, dict):
                                    src = (op.get("move") or op.get("copy") or {}).get("l")
                                if src in alias and not st["lhs"].get("p") and st["lhs"]["l"] not in alias:
                                    alias.add(st["lhs"]["l"])
                                    changed = True
                        reach = m.cfg.reachable_from(bb)
                        dropped = sorted({db for l in alias for db in drops.get(l, []) if db in reach})
                        ck.expect(not dropped, "R2c", "%s/%s(%s)/forgotten-on-every-path" % (f["path"], short(cal), sym_show(a0)),
                                  "re-owned value is never dropped (handed to mem::forget / moved out)",
                                  "the %s rebuilt from %s is dropped in bb%s on some path while the owner behind the pointer still refers to that buffer: "
                                  "freed now and again when the owner is destroyed" % (short(cal), sym_show(a0), dropped), C.loc(f, t.get("ln")))
    if n2 < 8:
        ck.bad("R2", "floor", "only %d take/from_raw sites examined" % n2)
    if n2c < 1:
        ck.bad("R2c", "floor", "no re-owning site with a surviving owner found (1 counted: diplomat_buffer_write_create::grow)")

    # ---- R2b Drop for DiplomatResult
    f = rt.fn("<diplomat_runtime::result::DiplomatResult<T, E> as core::ops::drop::Drop>::drop")
    m = MirFn(C.inline_mir(rt, f))     # accessor helpers of the payload union spliced in
    c0 = None
    flag_bb = None
    for bid in sorted(m.cfg.blocks):
        c = m.switch_cond(bid)
        if c is not None and C.sym_is_field(sym_strip(c), lambda b: sym_is_arg(b, 1), "is_ok"):
            flag_bb = bid
            break
    if flag_bb is None:
        ck.bad("R2b", "DiplomatResult::drop/flag-test", "Drop does not branch on self.is_ok", C.loc(f))
    else:
        for r in m.cfg.returns():
            for p in m.paths(0, r):
                if flag_bb not in p:
                    ck.bad("R2b", "DiplomatResult::drop/path", "a path skips the is_ok test", C.loc(f))
                    continue
                nxt = p[p.index(flag_bb) + 1]
                ev = m.edge_value(flag_bb, nxt)
                t = m.cfg.blocks[flag_bb]["term"]
                is_ok_edge = (ev == "otherwise" and all(v == 0 for v, _ in t["targets"])) or (ev != "otherwise" and ev and all(v != 0 for v in ev))
                want = "ok" if is_ok_edge else "err"
                rel = []
                for bb in p:
                    tt = m.cfg.blocks[bb]["term"]
                    if tt["k"] == "call" and RELEASE_RE.search(C.mir_callee(tt) or ""):
                        a0 = m.sym_op(tt["args"][0])
                        fld = None
                        for x in sym_walk(a0):
                            if x[0] == "proj" and x[2] in (".ok", ".err"):
                                fld = x[2][1:]
                        dropped = True
                        if (C.mir_callee(tt) or "").endswith("::take"):
                            # the value taken out is dropped further down the path: by a drop terminator or mem::drop, possibly after being moved through other locals
                            holders = {tt["dest"]["l"]}
                            dropped = False
                            for b2 in p[p.index(bb) + 1:]:
                                blk2 = m.cfg.blocks[b2]
                                for s2 in blk2["stmts"]:
                                    if s2["k"] == "assign" and not s2["lhs"].get("p") and s2["rv"]["k"] == "use":
                                        src = s2["rv"]["op"].get("move") or s2["rv"]["op"].get("copy")
                                        if src and not src.get("p") and src["l"] in holders:
                                            holders.add(s2["lhs"]["l"])
                                    elif s2["k"] == "assign" and not s2["lhs"].get("p") and s2["rv"]["k"] == "agg":
                                        # wrapped on the way (`Ok(taken)` handed back by a helper): dropping the wrapper drops the payload
                                        if any(((o_.get("move") or o_.get("copy") or {}).get("l") in holders) and not (o_.get("move") or o_.get("copy") or {}).get("p") for o_ in s2["rv"].get("ops") or []):
                                            holders.add(s2["lhs"]["l"])
                                t2 = blk2["term"]
                                if t2["k"] == "drop" and t2["place"]["l"] in holders:
                                    dropped = True
                                if t2["k"] == "call" and (C.mir_callee(t2) or "").endswith("mem::drop") and any((a_.get("move") or {}).get("l") in holders for a_ in t2["args"]):
                                    dropped = True
                        rel.append((fld, dropped))
                ck.expect(rel == [(want, True)], "R2b", "DiplomatResult::drop/%s-edge" % want, "releases %s exactly once" % want,
                          "on the is_ok=%s edge Drop releases %s (expected exactly the `%s` payload, dropped): leak or wrong arm" % (is_ok_edge, rel, want), C.loc(f))

    # ---- R3 pairing
    cr = rt.fn("diplomat_buffer_write_create")
    mc = mirfns[cr["path"]]
    names = [C.mir_callee(t) or "" for _, t in mc.calls()]
    ck.expect(sum(n.endswith("mem::forget") for n in names) == 1 and sum(n.endswith("Box::into_raw") for n in names) == 1 and
              sum(n.endswith("Vec::with_capacity") for n in names) == 1, "R3", "buffer_write_create/leaks-vec-and-box",
              "forget(vec) + Box::into_raw", "create no longer hands out exactly one leaked Vec and one leaked Box: %s" % [short(n) for n in names], C.loc(cr))
    agg = None
    for b in mc.mir["blocks"]:
        for s in b["stmts"]:
            if s["k"] == "assign" and s["rv"]["k"] == "agg" and (s["rv"].get("adt") or "").endswith("::DiplomatWrite"):
                agg = dict(zip(s["rv"]["fnames"], [mc.sym_op(o) for o in s["rv"]["ops"]]))
    if agg:
        bufv = sym_strip(agg["buf"])
        ck.expect(isinstance(bufv, tuple) and bufv[0] == "call" and str(bufv[1]).endswith("::as_mut_ptr") and sym_is_arg(agg["cap"], 1),
                  "R3", "buffer_write_create/fields", "buf = vec.as_mut_ptr(), cap = cap", "create stores buf=%s cap=%s" % (sym_show(agg["buf"]), sym_show(agg["cap"])), C.loc(cr))
    de = rt.fn("diplomat_buffer_write_destroy")
    md = MirFn(C.inline_mir(rt, de))     # with private helpers (`backing_vec`) spliced in
    dn = {}
    for bb, t in md.calls():
        dn.setdefault(short(C.mir_callee(t) or "indirect"), []).append((bb, t))
    fr = dn.get("boxed::Box::from_raw", [])
    fv = dn.get("vec::Vec::from_raw_parts", [])
    okd = len(fr) == 1 and len(fv) == 1
    if okd:
        okd = sym_is_arg(md.sym_op(fr[0][1]["args"][0]), 1)
        a = [md.sym_op(x) for x in fv[0][1]["args"]]
        okd = okd and (sym_field_of(a[0]) or (0, 0))[1] == "buf" and a[1] == ("const", "0_usize") and (sym_field_of(a[2]) or (0, 0))[1] == "cap"
    leaks = [n for n in dn if re.search(r"(forget|into_raw|leak)$", n)]
    # both rebuilt values must be dropped: mem::drop calls or drop terminators
    ndrop = len(dn.get("mem::drop", [])) + sum(1 for b in md.mir["blocks"] if not b.get("cleanup") and b["term"]["k"] == "drop")
    ck.expect(okd and not leaks and ndrop >= 2, "R3", "buffer_write_destroy/rebuilds-and-drops", "Box::from_raw(this) + Vec::from_raw_parts(buf,0,cap), both dropped",
              "destroy does not rebuild and drop both the Box and the Vec (calls %s, drops %d)" % (sorted(dn), ndrop), C.loc(de))

    # owned slice: into_raw in From<Box<[T]>> pairs with from_raw in Drop and in From<..> for Box<[T]> under ManuallyDrop
    fb = rt.fn("slices::<impl core::convert::From<diplomat_runtime::slices::DiplomatOwnedSlice<T>> for alloc::boxed::Box<[T]>>::from")
    mb = mirfns[fb["path"]]
    first_calls = [C.mir_callee(t) or "" for bb, t in sorted(mb.calls())]
    md_new = [bb for bb, t in mb.calls() if (C.mir_callee(t) or "").endswith("ManuallyDrop::new") and sym_is_arg(mb.sym_op(t["args"][0]), 1)]
    fr_bbs = [bb for bb, t in mb.calls() if (C.mir_callee(t) or "").endswith("Box::from_raw")]
    ck.expect(bool(md_new) and all(mb.cfg.dominates(md_new[0], b) for b in fr_bbs) and len(fr_bbs) >= 1, "R3", "OwnedSlice->Box/manuallydrop-first",
              "parameter wrapped in ManuallyDrop before Box::from_raw", "the owned slice is not wrapped in ManuallyDrop before its buffer is re-boxed (double free)", C.loc(fb))

    cb = rt.fn("<diplomat_runtime::callback::DiplomatCallback<ReturnType> as core::ops::drop::Drop>::drop")
    mcb = mirfns[cb["path"]]
    ind = [(bb, t) for bb, t in mcb.calls() if "indirect" in t["f"]]
    okc = len(ind) == 1
    detail = ""
    if okc:
        fn_sym = mcb.sym_op(ind[0][1]["f"]["indirect"])
        arg = mcb.sym_op(ind[0][1]["args"][0])
        okc = any(x[0] == "proj" and x[2] == ".destructor" for x in sym_walk(fn_sym)) and (sym_field_of(arg) or (0, 0))[1] == "data"
        detail = "(%s)(%s)" % (sym_show(fn_sym), sym_show(arg))
        # acyclic: the call block cannot reach itself
        okc = okc and ind[0][0] not in set().union(*[mcb.cfg.reachable_from(s) for s in mcb.cfg.succ[ind[0][0]]] or [set()])
    # ... and on EVERY path on which a destructor is present: the only decision before the call is the Some/None test of `destructor`
    if okc:
        stray = []
        for b_, blk in mcb.cfg.blocks.items():
            if blk.get("cleanup") or blk["term"]["k"] != "switch":
                continue
            cnd = mcb.switch_cond(b_)
            on_destructor = any(x[0] == "proj" and x[2] == ".destructor" for x in sym_walk(cnd) if isinstance(x, tuple) and len(x) > 2)
            if not on_destructor and ind[0][0] in mcb.cfg.reachable_from(b_):
                stray.append(sym_show(cnd)[:60])
        ck.expect(not stray, "R3", "DiplomatCallback::drop/destructor-whenever-present", "only the Some/None test precedes the call",
                  "Drop for DiplomatCallback skips the destructor depending on %s: a callback whose destructor is present is never released when that condition holds (e.g. a null / zero `data` cookie)" % stray, C.loc(cb))
    ck.expect(okc, "R3", "DiplomatCallback::drop/destructor-once", detail, "callback Drop must call destructor(self.data) exactly once, no loop; found %d indirect calls %s" % (len(ind), detail), C.loc(cb))

    # ---- R4 generated destroy functions
    for unit in (facts.ft, facts.example):
        ck.units.append(unit.name + " (macro-generated bodies)")
        gen = [f for f in unit.fn_list if f.get("exp") == "diplomat::bridge" and f.get("no_mangle")]
        crate = unit.crate
        box_takers = []
        for f in gen:
            for i, t in enumerate(f.get("inputs", [])):
                mm = re.match(r"^alloc::boxed::Box<(%s::[\w:]+)(<.*>)?>$" % crate, t)
                if mm:
                    box_takers.append((f, i, mm.group(1)))
        destroy = {}
        for f, i, ty in box_takers:
            m = MirFn(f)
            calls = [C.mir_callee(t) for _, t in m.calls()]
            is_destroy = len(f["inputs"]) == 1 and f["output"] == "()" and not calls
            key = "%s/%s" % (unit.crate, f["name"])
            if is_destroy:
                destroy.setdefault(ty, []).append(f)
                # the box must be dropped exactly once on the way out
                nd = sum(1 for b in m.mir["blocks"] if not b.get("cleanup") and b["term"]["k"] == "drop" and b["term"]["place"]["l"] == 1)
                ck.expect(nd == 1, "R4", key, "drop(this) once", "destroy fn drops its Box %d times" % nd, C.loc(f))
            else:
                # a by-value Box<local type> parameter on a non-destroy fn: allowed only for trait/callback? flag it
                ck.bad("R4", key, "generated extern fn takes ownership of Box<%s> (parameter %d) but is not the destroy function: second deallocation path" % (ty, i), C.loc(f))
        for ty, fs in destroy.items():
            ck.expect(len(fs) == 1, "R4", "%s/one-destroy" % ty, "", "%d destroy functions for %s" % (len(fs), ty))
        if unit is facts.ft and len(destroy) < 30:
            ck.bad("R4", "floor", "only %d generated destroy fns found in feature_tests" % len(destroy))

    # macro source: destroy fn generated with Box<T> and empty body, named by dtor_abi_name
    g = facts.macro.fn("gen_bridge")
    found = False
    for n in C.walk_inl(facts.macro, C.fn_body(g), max_nodes=1500):
        if n.get("k") == "macro" and n.get("name") in ("parse_quote", "quote"):
            src = n.get("src", "")
            if re.search(r"\bthis\s*:\s*Box\s*<", src):     # the one template with a by-value Box parameter: the destructor
                found = True
                body_empty = re.search(r"\(\s*this\s*:\s*Box<\s*#\w+\s*(#\w+\s*)?>\s*\)\s*\{\s*\}", src) is not None
                ck.expect(body_empty, "R4", "macro::gen_bridge/destroy-template", "fn #destroy_ident(this: Box<#T>) {}", "the destroy template is no longer `(this: Box<T>) {}`: " + src[:200], C.loc(g, n.get("ln")))
    ck.expect(found, "R4", "macro::gen_bridge/destroy-template-present", "", "no destroy template with a Box<T> parameter found in gen_bridge", C.loc(g))
    # no template of the macro suppresses a destructor: the generated wrappers own what they receive (a trait object's `Drop` runs the foreign vtable's
    # destructor exactly when the Rust value is dropped), so a `ManuallyDrop` / `mem::forget` / `Box::leak` in generated code leaks a foreign object
    suppress = re.compile(r"ManuallyDrop|mem\s*::\s*forget|Box\s*::\s*leak|\bforget\s*\(")
    assert suppress.search("let this = core::mem::ManuallyDrop::new(self);")     # the rule's own positive example (expected count on the tree: 0)
    ntpl = 0
    for f_ in facts.macro.fn_list:
        if "hir" not in f_:
            continue
        for n in C.walk(C.fn_body(f_)):
            if n.get("k") == "macro" and n.get("name") in ("parse_quote", "quote"):
                ntpl += 1
                hit = suppress.search(n.get("src", "") or "")
                if hit:
                    ck.bad("R4", "macro::%s/template-suppresses-a-destructor" % C.norm_path(f_["path"]).split("::")[-1],
                           "a template of the bridge macro contains `%s`: the generated code keeps a received value from being dropped, so the destructor of the foreign object "
                           "behind it (vtable destructor, Box) never runs" % hit.group(0), C.loc(f_, n.get("ln")))
    ck.expect(ntpl >= 20, "R4", "macro/templates-scanned-for-destructor-suppression", "%d templates" % ntpl, "only %d quote!/parse_quote! templates found in the macro (20+ counted)" % ntpl, None)

    # ---- R3 (cont.) generated corpus: the wrapper closure the macro builds around a callback parameter captures the whole DiplomatCallback by value
    #      (not its `data` / `run_callback` fields): the foreign destructor then runs when the closure is dropped, not when the extern fn returns
    ncb = 0
    for unit in (facts.ft, facts.example):
        for f in unit.fn_list:
            mir = f.get("mir")
            if f.get("exp") != "diplomat::bridge" or not f.get("no_mangle") or not mir or "blocks" not in mir:
                continue
            cbs = [i + 1 for i, t in enumerate(f.get("inputs", [])) if re.match(r"^diplomat_runtime::callback::DiplomatCallback<", t)]
            if not cbs:
                continue
            captured = set()
            for b in mir["blocks"]:
                for st in b["stmts"]:
                    if st["k"] == "assign" and st["rv"]["k"] == "agg" and st["rv"].get("agg") == "closure":
                        for o in st["rv"]["ops"]:
                            pl = o.get("move")
                            if pl and not pl.get("p"):
                                captured.add(pl["l"])
            for i in cbs:
                ncb += 1
                ck.expect(i in captured, "R3", "%s/callback-arg%d-owned-by-wrapper" % (f["path"].replace("diplomat_feature_tests::", "ft::").replace("diplomat_example::", "ex::"), i),
                          "moved whole into the wrapper closure",
                          "the DiplomatCallback parameter is not moved as a whole into the wrapper closure (only some of its fields are captured): it is dropped, and its foreign destructor runs, "
                          "when the extern fn returns, while a stored closure keeps calling through the freed `data`", C.loc(f))
    if ncb < 9:
        ck.bad("R3", "callback-capture-floor", "only %d callback parameters found in the generated corpus (9 counted)" % ncb)

    # ---- R5 (cont.) what the C++ side wraps in unique_ptr is decided by the ownership the HIR records: a returned `&T` / `Option<&T>` lowers to MaybeOwn::Borrow, a returned
    #      `Box<T>` / `Option<Box<T>>` to MaybeOwn::Own (an owned wrapper around a borrowed object destroys something Rust still owns)
    core_u = facts.core
    lo = core_u.fn("hir::lowering::LoweringContext::lower_out_type")
    nown = 0

    def _pnames(p_, out):
        if isinstance(p_, dict):
            if p_.get("k") == "variant":
                out.append(p_.get("v"))
            sub_ = p_.get("sub")
            for z in (sub_ if isinstance(sub_, list) else ([sub_] if isinstance(sub_, dict) else [])):
                _pnames(z, out)
            for z in p_.get("alts") or []:
                _pnames(z, out)
        return out
    for n, st in C.with_conditions_inl(core_u, C.fn_body(lo), depth=1):
        if n.get("k") == "call" and (C.callee(n) or "").endswith("OpaquePath::new") and len(n.get("a") or []) >= 3:
            kinds_ = [x for k_, a_, b_ in st if k_ == "arm" for x in _pnames(b_["pat"], []) if x in ("Reference", "Box")]
            if not kinds_:
                continue
            own = C.strip(n["a"][2])
            ctor = (own.get("ctor") or C.callee(own) or "").split("::")[-1]
            want = "Borrow" if kinds_[-1] == "Reference" else "Own"
            nown += 1
            ck.expect(ctor == want, "R5", "hir::lower_out_type/%s-is-%s#%d" % (kinds_[-1], want, nown), "MaybeOwn::" + ctor,
                      "a returned %s opaque is recorded as MaybeOwn::%s (expected %s): the C++ backend wraps it in std::unique_ptr, whose destructor calls the Rust destructor on an object "
                      "Rust still owns (double drop / use after free)" % ("`&T`" if want == "Borrow" else "`Box<T>`", ctor, want), C.loc(lo, n.get("ln")))
    if nown < 4:
        ck.bad("R5", "hir::lower_out_type/ownership-floor", "only %d opaque out-type constructions under a Reference / Box arm found (4 counted)" % nown, C.loc(lo))

    # ---- R6 union-arm discipline of DiplomatResult: every access of `value.ok` / `value.err` (read, borrow, drop in place, assignment) happens on the
    #      edge of a test of the SAME object's `is_ok` that selects that arm (also in code added later: clone_from, map, as_mut, ...)
    ck.rule("R6", "every access of a DiplomatResult's union arm (`value.ok` / `value.err`) in the runtime is dominated by the matching edge of a test of that same object's is_ok flag")

    def places_in(node, out):
        if isinstance(node, dict):
            if "l" in node and isinstance(node.get("p"), list):
                out.append(node)
            for v_ in node.values():
                places_in(v_, out)
        elif isinstance(node, list):
            for v_ in node:
                places_in(v_, out)
    n6 = 0
    seen6 = set()
    for f in rt.fn_list:
        mir0 = f.get("mir")
        if not mir0 or "blocks" not in mir0 or f.get("dk") == "Closure":
            continue
        fi = C.inline_mir(rt, f)       # union accessor helpers (`self.value.ok_ref()`) are judged where the DiplomatResult they are applied to is visible
        mir = fi["mir"]
        m = None
        for b in mir["blocks"]:
            if b.get("cleanup"):
                continue
            ps = []
            places_in(b["stmts"], ps)
            places_in(b["term"], ps)
            for pl in ps:
                if not any(x in (".ok", ".err") for x in (pl.get("p") or [])):
                    continue
                m = m or MirFn(fi)
                term = m.sym_place({"l": pl["l"], "p": pl["p"]})
                hit = None
                for x in sym_walk(term):
                    if x[0] == "proj" and x[2] in (".ok", ".err") and isinstance(x[1], tuple) and x[1][0] == "proj" and x[1][2] == ".value":
                        hit = (x[2], x[1][1])
                if not hit:
                    continue
                arm, base_t = hit
                base = C.sym_root(base_t)
                if (f["path"], b["id"], arm) in seen6:
                    continue
                seen6.add((f["path"], b["id"], arm))
                n6 += 1
                ok_guard = False
                for sb, sblk in m.cfg.blocks.items():
                    t = sblk["term"]
                    if sblk.get("cleanup") or t["k"] != "switch":
                        continue
                    c = m.sym_op(t["discr"])
                    fo = C.sym_field_of(c)
                    if not fo or fo[1] != "is_ok" or fo[0] != base:
                        continue
                    for succ in m.cfg.succ[sb]:
                        ev = m.edge_value(sb, succ)
                        truthy = (ev == "otherwise" and all(v_ == 0 for v_, _ in t["targets"])) or (ev != "otherwise" and ev and all(v_ != 0 for v_ in ev))
                        if truthy == (arm == ".ok") and m.cfg.pred.get(succ) == [sb] and m.cfg.dominates(succ, b["id"]):
                            ok_guard = True
                key = "%s/%s#%d" % (C.norm_path(f["path"]).replace("diplomat_runtime::", ""), arm[1:], sum(1 for i in ck.instances if i["rule"] == "R6" and i["key"].startswith("%s/%s#" % (C.norm_path(f["path"]).replace("diplomat_runtime::", ""), arm[1:]))))
                ck.expect(ok_guard, "R6", key, "under %s.is_ok == %s" % (C.sym_show(base), arm == ".ok"),
                          "the `%s` arm of the result union is accessed without a dominating test of the same object's is_ok selecting it (base %s): the live payload is read or dropped as the wrong type when the flags of two values differ"
                          % (arm[1:], C.sym_show(base)), C.loc(f))
    if n6 < 4:   # 8 today; conversions written in terms of one another (Clone through as_ref) legitimately lower the count
        ck.bad("R6", "floor", "only %d union-arm accesses found in the runtime (8 counted on the pinned tree, floor 4)" % n6)

    # ---- R5 C++ templates / generator strings
    import tmpl
    op = tmpl.flat_file("cpp/opaque_impl.h.jinja", resolve_includes=False)
    mdel = re.search(r"operator\s+delete\s*\(\s*void\s*\*\s*(\w+)\s*\)\s*\{(.*?)\}", op, re.S)
    okdel = bool(mdel) and re.search(r"\u27e6\s*dtor_name\s*\u27e7\s*\(\s*reinterpret_cast<[^>]*>\s*\(\s*%s\s*\)\s*\)" % (mdel.group(1) if mdel else "x"), mdel.group(2)) is not None
    ck.expect(okdel, "R5", "cpp/opaque_impl/operator-delete", "operator delete(void* p) { {{dtor_name}}(reinterpret_cast<..>(p)); }",
              "operator delete in opaque_impl.h.jinja does not forward its pointer to the {{dtor_name}} slot", "tool/templates/cpp/opaque_impl.h.jinja")
    tool = facts.tool
    # dtor_name slot filled from dtor_abi_name
    gen_opq = [tool.fn("cpp::ty::TyGenContext::gen_opaque_def")]
    okslot = False
    for f in gen_opq:
        for n in C.walk(C.fn_body(f)):
            if n.get("k") == "struct":
                for fl in n["fields"]:
                    if fl["n"] == "dtor_name":
                        names = [x.get("n") for x in C.walk(fl["e"]) if x.get("k") in ("field", "local")]
                        okslot = "dtor_abi_name" in names or "dtor_name" in names
                        if okslot and "dtor_name" in names and "dtor_abi_name" not in names:
                            # follow the local one step
                            okslot = any(l.get("k") == "letst" and l["pat"].get("n") == "dtor_name" and any(x.get("n") == "dtor_abi_name" for x in C.walk(l["init"])) for l in C.walk(C.fn_body(f)))
    ck.expect(okslot, "R5", "cpp/gen_opaque_def/dtor-slot", "dtor_name <- def.dtor_abi_name", "the C++ destructor slot is not filled from the opaque's dtor_abi_name", "tool/src/cpp/ty.rs")
    # callback conversion: heap move + c_delete
    f = tool.fn("cpp::ty::TyGenContext::gen_cpp_to_c_for_type")
    okcb = None
    for n in C.walk(C.fn_body(f)):
        if n.get("k") == "match":
            for arm in n["arms"]:
                pv = arm["pat"]
                vs = [pv.get("v")] if pv.get("k") == "variant" else [a.get("v") for a in pv.get("alts", [])] if pv.get("k") == "or" else []
                if "Callback" in vs:
                    strs = C.str_lits(arm["b"])
                    lit = " ".join(strs)
                    okcb = ("new decltype(" in lit or re.search(r"\bnew\b", lit) is not None) and "c_delete" in lit and "c_run_callback" in lit and "nullptr" not in lit
                    ck.expect(okcb, "R5", "cpp/gen_cpp_to_c_for_type/Callback", "heap-moved std::function + c_run_callback + c_delete",
                              "the C++ callback conversion no longer heap-moves the std::function with c_delete as destructor: %s" % lit[:200], C.loc(f, arm.get("ln")))
    if okcb is None:
        ck.bad("R5", "cpp/gen_cpp_to_c_for_type/Callback", "Callback arm not found", C.loc(f))
    # every class of the C++ runtime that releases something in its destructor (`delete member`, `*_destroy(member)`) is not copyable member-wise: a copy
    # constructor that copies the owning pointer makes two objects release the same Rust value
    rth_all = C.read_repo("tool/templates/cpp/runtime.hpp.jinja")
    nown = 0
    for mcl in re.finditer(r"\b(?:struct|class)\s+(\w+)[^;{]*\{", rth_all):
        name_ = mcl.group(1)
        depth_, j_ = 1, mcl.end()
        while j_ < len(rth_all) and depth_:
            depth_ += {"{": 1, "}": -1}.get(rth_all[j_], 0)
            j_ += 1
        body_ = rth_all[mcl.end():j_]
        dtor = re.search(r"~\s*%s\s*\(\s*\)[^{;]*\{([^}]*)\}" % re.escape(name_), body_)
        if not dtor:
            continue
        released = re.findall(r"\bdelete\s+(?:\[\]\s*)?(\w+)|\w+_destroy\s*\(\s*(\w+)", dtor.group(1))
        members = {a_ or b_ for a_, b_ in released}
        if not members:
            continue
        nown += 1
        copy_ctor = re.search(r"\b%s\s*\(\s*const\s+%s\s*&\s*(\w*)\s*\)\s*([^;{]*)(;|\{)" % (re.escape(name_), re.escape(name_)), body_)
        shallow = bool(copy_ctor) and "delete" not in copy_ctor.group(2) and any(re.search(r"\b%s\s*\(\s*%s\.%s\s*\)" % (re.escape(m_), re.escape(copy_ctor.group(1) or "o"), re.escape(m_)), copy_ctor.group(2)) for m_ in members)
        implicit = copy_ctor is None and not re.search(r"\b%s\s*\(\s*%s\s*&&" % (re.escape(name_), re.escape(name_)), body_)
        ck.expect(not shallow and not implicit, "R5", "cpp/runtime/%s-owner-not-shallow-copyable" % name_, "", "`%s` releases %s in its destructor and can be copied member-wise (%s): every copy releases the same Rust "
                  "object again" % (name_, sorted(members), "user-written copy constructor copies the pointer" if shallow else "implicit copy constructor"), "tool/templates/cpp/runtime.hpp.jinja")
    ck.note("R5: %d classes of runtime.hpp release a member in their destructor" % nown)
    # the iterator adapter keeps the Rust iterator in a shared_ptr (it must be copyable: InputIterator): not a raw owning pointer
    it_ = re.search(r"struct\s+next_to_iter_helper\s*\{(.*?)\n\};", rth_all, re.S)
    if it_:
        raw_owner = re.search(r"\bT\s*\*\s*_?\w+\s*;", it_.group(1)) is not None and "delete" in it_.group(1)
        ck.expect(not raw_owner, "R5", "cpp/runtime/next_to_iter_helper-shared-ownership", "shared_ptr member", "the copyable iterator adapter owns the Rust iterator through a raw pointer it deletes: "
                  "copies (std::equal, `auto it2 = it`) destroy it twice", "tool/templates/cpp/runtime.hpp.jinja")
    rth = C.read_repo("tool/templates/cpp/runtime.hpp.jinja")
    mcd = re.search(r"static\s+void\s+c_delete\s*\(\s*const\s+void\s*\*\s*(\w+)\s*\)\s*\{(.*?)\}", rth, re.S)
    ck.expect(bool(mcd) and re.search(r"\bdelete\s+reinterpret_cast<\s*const\s+function_t\s*\*\s*>\s*\(\s*%s\s*\)" % (mcd.group(1) if mcd else "x"), mcd.group(2)) is not None,
              "R5", "cpp/runtime/c_delete", "delete reinterpret_cast<const function_t*>(cb)", "fn_traits::c_delete does not delete its std::function", "tool/templates/cpp/runtime.hpp.jinja")
    # unique_ptr wrapping of owned opaques
    f = tool.fn("cpp::ty::TyGenContext::gen_c_to_cpp_for_type")
    okup = None
    for n in C.walk(C.fn_body(f)):
        if n.get("k") == "macro" and "std::unique_ptr<" in n.get("src", ""):
            okup = "FromFFI" in n["src"]
    ck.expect(bool(okup), "R5", "cpp/gen_c_to_cpp_for_type/unique_ptr", "std::unique_ptr<T>(T::FromFFI(..))", "owned opaque returns are no longer wrapped in std::unique_ptr<T>(T::FromFFI(..))", C.loc(f))
    # the std::string-backed writer: Rust must never be left with a pointer into storage the string has released
    import c02
    c02.cpp_writer_rules(ck, "R5")
    # the fixed writer never touches a byte beyond the caller's buffer (C12.R6: cap = size - 1, one NUL at buf[len])
    import c12
    sub_w = C.SubCheck(ck, "R3", "", ["R6"])
    c12.run(sub_w, facts)
    # ... and write_str never copies into a buffer that was not grown: the failed-grow edge stores the flag and returns (C12.R1-R3), the Rust-owned writer publishes
    # the capacity it allocated (C12.R10)
    c12.run(C.SubCheck(ck, "R3", "", ["R1", "R2", "R3", "R10"], key_re=r"write_str|create/"), facts)
    # diplomat_alloc / diplomat_free build their Layout from exactly the caller's (size, align): Rust-side Box<[T]> / Box<str> owners release foreign-allocated buffers, and
    # diplomat_free releases Rust-allocated ones, with the layout of the element type (C16.R4)
    import c16
    c16.run(C.SubCheck(ck, "R3", "", ["R4"]), facts)


def run_thorough(ck, facts):
    """Thorough tier: compile-fail witnesses for the type-level clauses, and the runtime rules again on the feature-less build of diplomat-runtime."""
    import thorough
    thorough.witnesses(ck, "T1", "c03")
    alt = thorough.altcfg_runtime()
    ck.units.append("diplomat_runtime.lib built with --no-default-features (MIR)")
    sub = C.SubCheck(ck, "T2", "the runtime-level rules hold as well for diplomat-runtime compiled without its optional features (what a no-jvm, no-log dependent links; the inventory R1 is per configuration and not repeated)", ['R2', 'R2b', 'R2c', 'R3'])
    run(sub, alt)

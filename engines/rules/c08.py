"""C08 — JS reads/writes structs with the real wasm32 repr(C) layout (structural clauses + rustc wasm32 layout oracle)."""
import re
import common as C
import flow
import tmpl
import tables as T
import wasmprobe
import exprval

TYPED_ARRAY = {"Uint8Array": ("uint", 8), "Int8Array": ("int", 8), "Uint16Array": ("uint", 16), "Int16Array": ("int", 16), "Uint32Array": ("uint", 32), "Int32Array": ("int", 32),
               "BigUint64Array": ("uint", 64), "BigInt64Array": ("int", 64), "Float32Array": ("float", 32), "Float64Array": ("float", 64)}


def layout_new_type(node):
    """`Layout::new::<T>()` -> T (resolved through aliases by rustc)"""
    n = C.strip(node)
    if n.get("k") == "call" and (C.callee(n) or "").endswith("alloc::layout::Layout::new"):
        ga = n["f"].get("ga") or []
        return ga[0] if ga else None
    return None


def js_deref_rules(ck, rule, facts, enum_only=False):
    """gen_c_to_js_deref_for_type: which reader each type kind uses when it sits in wasm memory (struct field, option/result payload),
    and that the field offset is applied exactly once through the single-primitive-wrapper recursion.  Shared with C11 (enum arm)."""
    tool = facts.tool
    f = next(iter(tool.fns_matching(r"::js::converter::.*::gen_c_to_js_deref_for_type$")), None) or tool.fn("gen_c_to_js_deref_for_type")
    body = C.fn_body(f)
    where = C.loc(f)
    mt = [n for n in C.walk(body) if n.get("k") == "match" and (n.get("sadt") or "").endswith("hir::types::Type")]
    if not mt:
        ck.bad(rule, "js::deref/anchor", "match on hir::Type not found in gen_c_to_js_deref_for_type", where)
        return
    want = {"Enum": ("enumDiscriminant", "enum discriminants are signed 32-bit values (Int32Array view)"),
            "Opaque": ("ptrRead", "pointers are unsigned 32-bit values (Uint32Array view)")}
    seen = {}
    for arm in mt[0]["arms"]:
        ctors = set()

        def rec(p):
            if isinstance(p, dict):
                if p.get("v"):
                    ctors.add(p["v"].split("::")[-1])
                for k in ("alts",):
                    for q in p.get(k, []) or []:
                        rec(q)
        rec(arm["pat"])
        lits = " ".join(C.str_lits(arm["b"]) + [m_.get("src", "") for m_ in C.walk(arm["b"]) if m_.get("k") == "macro"])
        for c in ctors:
            if c in want and not arm.get("g"):
                seen[c] = lits
    for c, (reader, why) in want.items():
        if enum_only and c != "Enum":
            continue
        lit = seen.get(c)
        others = [r for r in ("enumDiscriminant", "ptrRead", "resultFlag", "Uint32Array", "Int32Array") if lit and r in lit and r != reader]
        ck.expect(lit is not None and ("diplomatRuntime." + reader) in lit and not others, rule, "js::deref/%s" % c, "read with diplomatRuntime.%s" % reader,
                  "a %s stored in wasm memory is read with `%s` instead of diplomatRuntime.%s: %s" % (c, (lit or "?")[:90], reader, why), where)
    if enum_only:
        return
    # primitives: typed array chosen by fmt_primitive_slice (R4 checks that table)
    prim_ok = False
    for arm in mt[0]["arms"]:
        if (arm["pat"].get("v") or "").split("::")[-1] == "Primitive":
            prim_ok = any(x.get("k") == "mcall" and x.get("m") == "fmt_primitive_slice" for x in C.walk(arm["b"]))
    ck.expect(prim_ok, rule, "js::deref/Primitive", "typed array from fmt_primitive_slice", "primitive fields are no longer read through the typed array chosen by fmt_primitive_slice", where)
    # offset applied once: recursive calls pass (variable_name, offset) unchanged, or (<pointer with the offset applied>, 0)
    params = [p_ for p_ in (f.get("params") or [])]
    derived = set()
    for n in C.walk(body):
        if n.get("k") == "letst" and isinstance(n.get("pat"), dict) and n["pat"].get("k") == "bind":
            srcs = " ".join(m_.get("src", "") for m_ in C.walk(n.get("init") or {}) if m_.get("k") == "macro")
            if "{offset}" in srcs.replace(" ", ""):
                derived.add(n["pat"].get("n"))
    nrec = 0
    for n in C.walk(body):
        if n.get("k") == "mcall" and n.get("m") == "gen_c_to_js_deref_for_type":
            nrec += 1
            a = [C.strip(x) for x in n.get("a", [])]
            names = [x.get("n") if x.get("k") == "local" else ("lit:%s" % x.get("v") if x.get("k") == "lit" else x.get("k")) for x in a]
            ok = len(a) >= 3 and ((names[1] == "variable_name" and names[2] == "offset") or (names[1] in derived and names[2] == "lit:0"))
            ck.expect(ok, rule, "js::deref/offset-once#%d" % nrec, "recursion passes %s" % names[1:3],
                      "the single-primitive-wrapper recursion passes (%s, %s): the field offset is applied %s" % (names[1], names[2], "twice" if names[1] in derived else "inconsistently"), C.loc(f, n.get("ln")))
    if nrec < 2:
        ck.bad(rule, "js::deref/recursion-anchor", "expected 2 recursive calls for wrapper structs, found %d" % nrec, where)


def js_result_buffer_rules(ck, rule, facts):
    """The JS receive buffer of a fallible method is sized for the larger of the two payloads (flag offset = max(size(T), size(E))).  Shared with C10."""
    tool = facts.tool
    f = next(iter(tool.fns_matching(r"::js::converter::.*::gen_c_to_js_for_return_type$")), None)
    if f is None:
        ck.bad(rule, "js::result-buffer/anchor", "gen_c_to_js_for_return_type not found")
        return
    nodes = list(C.walk_inl(tool, C.fn_body(f), 1, exclude=[f["path"]]))
    cands = []
    for n in nodes:
        if n.get("k") == "letst" and isinstance(n.get("pat"), dict) and n["pat"].get("k") == "bind" and n.get("init") is not None:
            uses = [l_ for m_ in nodes if m_.get("k") == "macro" and "DiplomatReceiveBuf" in m_.get("src", "") for l_ in [m_]]
            if n["pat"].get("n") == "size":
                cands.append(n)
    ok = False
    detail = "no `size` computation found"
    for n in cands:
        init = n["init"]
        has_plus1 = any(x.get("k") == "bin" and x.get("op") == "Add" and any(C.strip(y).get("k") == "lit" and str(C.strip(y).get("v")) == "1" for y in (x["l"], x["r"])) for x in C.walk(init))
        maxes = [x for x in C.walk(init) if (x.get("k") == "call" and (C.callee(x) or "").endswith("cmp::max")) or (x.get("k") == "mcall" and x.get("m") == "max")]
        both = False
        for mx in maxes:
            sizes = [y for y in C.walk(mx) if y.get("k") == "mcall" and y.get("m") == "size"]
            from_layout = any(C.strip(y["recv"]).get("k") == "local" for y in sizes)
            from_err = any(any(z.get("k") in ("call", "mcall") and (C.callee(z) or z.get("m", "")).endswith("type_size_alignment") for z in C.walk(y["recv"])) for y in sizes)
            both = both or (from_layout and from_err)
        if has_plus1:
            ok = both
            detail = "size = max(ok layout, error layout) + 1" if both else "size is computed from one payload only"
    ck.expect(ok, rule, "js::result-buffer/size-covers-both-payloads", detail,
              "the receive buffer / flag offset of a fallible JS method is %s: when the error payload is larger than the success payload the flag is read inside the payload and the buffer is too small" % detail, C.loc(f))


def template_flags_consumed(ck, rule, facts, dir_re):
    """Every `bool` field the generator computes for a template struct is read by that template (or the template it extends): a flag nobody reads is a decision the
    generated code no longer takes (e.g. `owns_wrapped_primitive`: whether a one-field struct passes the field itself or delegates to the nested struct's _intoFFI)."""
    tool = facts.tool

    def code_of(rel, depth=0):
        toks = tmpl.load(rel)
        code = " ".join(v for k, v in toks if k in ("hole", "stmt"))
        for k, v in toks:
            m_ = re.match(r'extends\s+"([^"]+)"', v) if k == "stmt" else None
            if m_ and depth < 3:
                code += " " + code_of(m_.group(1), depth + 1)
        return code
    n = 0
    for a in tool.data["adts"]:
        if not a.get("file") or not a.get("line"):
            continue
        try:
            src = C.read_repo(a["file"]).splitlines()
        except C.CheckError:
            continue
        head = "\n".join(src[max(0, a["line"] - 6):a["line"]])
        m_ = re.search(r'#\[template\(\s*path\s*=\s*"([^"]+)"', head)
        if not m_ or not re.search(dir_re, m_.group(1)):
            continue
        flags = [fl["name"] for v in a["variants"] for fl in v["fields"] if fl["ty"] == "bool"]
        if not flags:
            continue
        try:
            code = code_of(m_.group(1))
        except C.CheckError:
            continue
        n += 1
        unused = [f_ for f_ in flags if not re.search(r"(?<![\w.])%s\b" % re.escape(f_), code)]
        ck.expect(not unused, rule, "%s/flags-consumed/%s" % (m_.group(1), a["path"].rsplit("::", 2)[-2] if "::" in a["path"] else a["path"]), "%d flags read" % len(flags),
                  "template %s no longer reads the flag(s) %s its generator computes: the alternative they select is gone from the generated code" % (m_.group(1), unused), "tool/templates/" + m_.group(1))
    return n


def js_receive_buffer_args(ck, rule, facts):
    """`new DiplomatReceiveBuf(wasm, size, align, ..)`: the size / alignment spliced in are Layout::size() / Layout::align() of the returned type's layout,
    combined at most by `max` (fallible: the larger payload) and `+ 1` (the flag) -- never clamped from above (`min`), never a constant."""
    import flow
    tool = facts.tool
    f = next(iter(tool.fns_matching(r"::js::converter::.*::gen_c_to_js_for_return_type$")), None)
    if f is None:
        return
    n_sites = 0
    for g in C.fns_inl(tool, f, 1):
        defs = flow.defs_of(g)
        for m_ in C.walk(C.fn_body(g)):
            if m_.get("k") != "macro" or "DiplomatReceiveBuf(wasm" not in (m_.get("src") or ""):
                continue
            canon = C.macro_fmt_canon(m_) or ""
            mm = re.search(r"DiplomatReceiveBuf\(wasm,\s*\{([^{}]*)\},\s*\{([^{}]*)\}", canon)
            if not mm:
                ck.bad(rule, "js::receive-buffer/args", "cannot read the size / alignment arguments of `new DiplomatReceiveBuf(..)` (%s)" % canon[:80], C.loc(g, m_.get("ln")))
                continue
            n_sites += 1
            locs = {nm: lid for nm, lid in C.free_locals(m_["inner"])}
            for role, txt in (("size", mm.group(1)), ("align", mm.group(2))):
                nm = txt.strip().split(":")[0]
                d = defs.get(locs.get(nm))
                inits = [d[1]] if d and d[0] == "expr" else []
                if d and d[0] == "param":
                    # the buffer is allocated by a helper: what its callers pass at that position
                    ps_ = [q.get("id") for q in g["hir"].get("params") or [] if isinstance(q, dict)]
                    j_ = ps_.index(locs.get(nm)) if locs.get(nm) in ps_ else None
                    for h_ in C.fns_inl(tool, f, 1):
                        hdefs_ = flow.defs_of(h_)
                        for c_ in C.walk(C.fn_body(h_)):
                            if c_.get("k") in ("call", "mcall") and C.norm_path(c_.get("p") or C.callee(c_) or "") == C.norm_path(g["path"]) and j_ is not None:
                                args_ = ([c_["recv"]] + list(c_.get("a") or [])) if c_.get("k") == "mcall" else list(c_.get("a") or [])
                                if j_ < len(args_):
                                    a0 = C.strip(args_[j_])
                                    d2 = hdefs_.get(a0.get("id")) if a0.get("k") == "local" else None
                                    inits.append(d2[1] if d2 and d2[0] == "expr" else a0)
                if not inits:
                    ck.bad(rule, "js::receive-buffer/%s#%d" % (role, n_sites), "`%s` is not a local computed in %s" % (nm, g["name"]), C.loc(g, m_.get("ln")))
                    continue
                init = {"k": "tup", "a": inits}
                calls = [(x.get("m") or (C.callee(x) or "").split("::")[-1]) for x in C.walk(init) if x.get("k") in ("mcall", "call")]
                reads = [c_ for c_ in calls if c_ == role]
                clamps = [c_ for c_ in calls if c_ in ("min", "clamp", "saturating_sub", "next_power_of_two", "trailing_zeros")]
                ck.expect(bool(reads) and not clamps, rule, "js::receive-buffer/%s#%d" % (role, n_sites), "from Layout::%s()" % role,
                          "the %s given to `new DiplomatReceiveBuf(..)` is %s: it must be the returned type's Layout::%s() (an 8-aligned struct placed in a 4-aligned buffer is read through a "
                          "misaligned typed array; a smaller buffer is overrun by the callee)" % (role, "clamped by " + clamps[0] if clamps else "not read from the layout", role), C.loc(g, m_.get("ln")))
    if n_sites < 1:
        ck.bad(rule, "js::receive-buffer/floor", "no `new DiplomatReceiveBuf(..)` site found under gen_c_to_js_for_return_type (2 counted; 1 when a helper allocates for both shapes)")


def _split_top(argstr):
    out, depth, cur, q = [], 0, "", None
    for ch in argstr:
        if q:
            cur += ch
            if ch == q:
                q = None
            continue
        if ch in "\"'`":
            q = ch
            cur += ch
            continue
        if ch in "([{":
            depth += 1
        elif ch in ")]}":
            depth -= 1
        if ch == "," and depth == 0:
            out.append(cur.strip())
            cur = ""
        else:
            cur += ch
    if cur.strip():
        out.append(cur.strip())
    return out


def _balanced_args(text, start):
    """text[start] == '(' -> (inside, end index) or (None, None)"""
    depth = 0
    for j in range(start, len(text)):
        if text[j] == "(":
            depth += 1
        elif text[j] == ")":
            depth -= 1
            if depth == 0:
                return text[start + 1:j], j
    return None, None


def js_runtime_call_rules(ck, rule, facts):
    """Every `diplomatRuntime.<fn>(...)` call the JS generator prints passes its named values at the positions where the runtime function declares
    parameters of those names (size where `size` is expected, align where `align` is expected, ...), and never more arguments than parameters."""
    tool = facts.tool
    rtm = C.read_repo("tool/templates/js/runtime.mjs")
    sigs = {}
    for m in re.finditer(r"export\s+function\s+(\w+)\s*\(([^)]*)\)", rtm):
        sigs[m.group(1)] = [a.strip().lstrip(".") for a in m.group(2).split(",") if a.strip()]
    for cm in re.finditer(r"export\s+class\s+(\w+)[^{]*\{", rtm):
        cname = cm.group(1)
        nxt = re.search(r"\nexport\s+(class|function)\s", rtm[cm.end():])
        body = rtm[cm.end(): cm.end() + nxt.start()] if nxt else rtm[cm.end():]
        c0 = re.search(r"\n\s*constructor\s*\(([^)]*)\)", body)
        if c0:
            sigs["new " + cname] = [a.strip().lstrip(".") for a in c0.group(1).split(",") if a.strip()]
        for sm in re.finditer(r"\n\s*static\s+(\w+)\s*(?:=\s*)?\(([^)]*)\)", body):
            sigs[cname + "." + sm.group(1)] = [a.strip().lstrip(".") for a in sm.group(2).split(",") if a.strip()]
    ck.expect(len(sigs) >= 20 and "writeOptionToArrayBuffer" in sigs, rule, "js-runtime/signatures", "%d runtime signatures" % len(sigs), "could not read the runtime's function signatures (%d found)" % len(sigs), "tool/templates/js/runtime.mjs")
    # call literals: format!/write! sources of the JS backend (positional `{}` replaced by the argument text) + the JS templates
    texts = []
    for f in tool.fn_list:
        if "::js::" not in f["path"] or "hir" not in f or f.get("exp"):
            continue
        for x in C.walk(C.fn_body(f)):
            if x.get("k") == "macro" and x.get("name") in ("format", "write", "writeln", "format_args"):
                src = x.get("src", "")
                m = re.search(r'"((?:[^"\\]|\\.)*)"', src, re.S)
                if not m or "diplomatRuntime." not in m.group(1):
                    continue
                lit = m.group(1)
                rest = _split_top(src[m.end():].rstrip(")").lstrip(","))
                it = iter(rest)

                def repl(mm):
                    try:
                        a = next(it)
                    except StopIteration:
                        return "{?}"
                    a = a.strip()
                    return "{%s}" % a.split(".")[-1] if re.fullmatch(r"[\w.&*]+", a) else "{?}"
                lit = re.sub(r"\{\}", repl, lit.replace("{{", "\x01").replace("}}", "\x02")).replace("\x01", "{").replace("\x02", "}")
                texts.append((lit, C.loc(f, x.get("ln")), f))
            elif x.get("k") == "lit" and x.get("t") == "str" and "diplomatRuntime." in str(x.get("v")):
                texts.append((x["v"], C.loc(f, x.get("ln")), f))
    import glob as _g
    import os as _os
    for path in sorted(_g.glob(_os.path.join(C.REPO, "tool/templates/js/*.jinja"))):
        rel = "js/" + _os.path.basename(path)
        texts.append((re.sub(r"⟦\s*([\w.]+)\s*⟧", lambda mm: "{%s}" % mm.group(1).split(".")[-1], tmpl.flat_file(rel, resolve_includes=False)), "tool/templates/" + rel, None))
    ncall = 0
    for lit, where, fctx in texts:
        for cm in re.finditer(r"(new\s+)?diplomatRuntime\.(\w+)(?:\.(\w+))?\s*\(", lit):
            name = ("new " + cm.group(2)) if cm.group(1) else (cm.group(2) + ("." + cm.group(3) if cm.group(3) else ""))
            if name not in sigs:
                continue
            inside, _ = _balanced_args(lit, cm.end() - 1)
            if inside is None:
                continue
            args = _split_top(inside)
            params = sigs[name]
            ncall += 1
            problems = []
            if not any(a.startswith("...") or "{?}" in a for a in args) and not any(p_.startswith("...") for p_ in params) and len(args) > len(params):
                problems.append("%d arguments for %d parameters" % (len(args), len(params)))
            for i, a in enumerate(args):
                mm = re.fullmatch(r"\{(\w+)\}", a)
                if mm and mm.group(1) in params and i < len(params) and params[i] != mm.group(1) and params[i] in [re.fullmatch(r"\{(\w+)\}", b).group(1) for b in args if re.fullmatch(r"\{(\w+)\}", b)]:
                    problems.append("`%s` is passed where the runtime expects `%s`" % (mm.group(1), params[i]))
                # whatever the local is called: a value taken from a Layout and passed as the runtime's `size` (`align`) is the layout's size (align)
                if mm and fctx is not None and i < len(params) and params[i] in ("size", "align"):
                    for ls in C.walk(C.fn_body(fctx)):
                        if ls.get("k") == "letst" and isinstance(ls.get("pat"), dict) and ls["pat"].get("k") == "bind" and ls["pat"].get("n") == mm.group(1) and ls.get("init") is not None:
                            i0 = C.strip(ls["init"])
                            if i0.get("k") == "mcall" and i0.get("m") in ("size", "align") and "Layout" in (i0.get("rty") or i0.get("p") or "") and i0["m"] != params[i]:
                                problems.append("`%s` holds the layout's %s but is passed as the runtime's `%s`" % (mm.group(1), i0["m"], params[i]))
            key = "js-call/%s@%s" % (name, re.sub(r"\W+", "_", where.split(":")[0].split("/")[-1]))
            key += "#%d" % sum(1 for i in ck.instances if i["rule"] == rule and i["key"].startswith(key))
            ck.expect(not problems, rule, key, "(%s)" % ", ".join(args)[:80], "call `diplomatRuntime.%s(%s)` vs runtime signature (%s): %s" % (name.replace("new ", ""), ", ".join(args)[:120], ", ".join(params), "; ".join(problems)), where)
    if ncall < 15:
        ck.bad(rule, "js-call/floor", "only %d runtime call sites found in the JS generator and templates" % ncall)


SYM_EXCEPTIONS = {
    # only input structs have a `<Name>_obj` literal type to un-import; an out struct is never constructed from JS
    "diplomat_tool::js::run": "the `_obj` self-import exists for input structs only",
}


def struct_outstruct_symmetry(ck, rule, facts, backends):
    """A struct and an out-struct are the same repr(C) record: wherever a backend decides something by matching on TypeDef / TypeId / ReturnableStructDef and gives
    `Struct` an arm of its own, `OutStruct` does not silently fall into a catch-all with a different (non-panicking) answer.  Shared by C08 (js) and C10 (other backends)."""
    tool = facts.tool
    adts = facts.all_adts()
    ck.rule(rule, "Struct / OutStruct symmetry: a decision taken by matching on TypeDef / TypeId / ReturnableStructDef treats an out-struct like the struct it mirrors (same arm, an arm of its own, or a panic), never a silent default")
    nsym = 0
    for f in tool.fn_list:
        if "hir" not in f or f.get("exp"):
            continue
        p_ = C.norm_path(f["path"])
        if (p_.split("::")[1] if p_.count("::") >= 1 else "") not in backends:
            continue
        for n in C.walk(C.fn_body(f)):
            mt = n if n.get("k") == "match" else (C.iflet_as_match(n) if n.get("k") == "if" else None)
            if not mt or not mt.get("arms"):
                continue
            p0 = mt["arms"][0]["pat"]
            while isinstance(p0, dict) and p0.get("k") == "ref":
                p0 = p0["sub"]
            sadt = mt.get("sadt") or (p0.get("adt") if isinstance(p0, dict) and p0.get("k") == "variant" else "") or ""
            a = adts.get(sadt)
            if not a or not re.search(r"(TypeDef|TypeId|ReturnableStructDef)$", sadt) or not {"Struct", "OutStruct"} <= {v["name"] for v in a["variants"]}:
                continue

            def arm_of(vn):
                for i, arm in enumerate(mt["arms"]):
                    p = arm["pat"]
                    for q in (p["alts"] if p.get("k") == "or" else [p]):
                        while q.get("k") == "ref":
                            q = q["sub"]
                        if q.get("k") == "variant" and q.get("v") == vn:
                            return i, "own"
                        if q.get("k") in ("wild", "bind"):
                            return i, "wild"
                return None, None
            (si, sk), (oi, okd) = arm_of("Struct"), arm_of("OutStruct")
            nsym += 1
            for own, (wi, wk), who in ((sk, (oi, okd), "OutStruct"), (okd, (si, sk), "Struct")):
                if own == "own" and wk == "wild" and not (C.diverges(mt["arms"][wi]["b"]) or C.panic_macro_of(mt["arms"][wi]["b"])):
                    if p_ in SYM_EXCEPTIONS:
                        ck.ok(rule, "%s/%s-default" % (p_.replace("diplomat_tool::", ""), who), "triaged: " + SYM_EXCEPTIONS[p_], C.loc(f, n.get("ln")))
                    else:
                        ck.bad(rule, "%s/%s-default" % (p_.replace("diplomat_tool::", ""), who),
                               "a match on %s gives %s an arm of its own while %s falls into a catch-all with a non-panicking default: the two mirror one record, so by-value returns / nested fields "
                               "of the other kind are laid out, flattened or converted differently" % (sadt.split("::")[-1], "Struct" if who == "OutStruct" else "OutStruct", who), C.loc(f, n.get("ln")))
    if nsym < 3:
        ck.bad(rule, "symmetry-floor/" + "+".join(sorted(backends)), "only %d matches on TypeDef/TypeId/ReturnableStructDef found" % nsym)


def run(ck, facts):
    exprval.UNITS[:] = [facts.tool]
    tool = facts.tool
    adts = facts.all_adts()
    host = T.prims_layout(tool)
    wasm = wasmprobe.probe()
    ck.units += ["diplomat_tool.lib (js::layout, js::formatter, js::gen)", "rustc wasm32-unknown-unknown layouts (no_core probe, -Zprint-type-sizes)", "templates/js/runtime.mjs"]
    ck.rule("R1", "JS size/align table for primitives equals rustc's wasm32 layout of the type the primitive stands for, and the host layout of every `Layout::new::<T>()` used equals its wasm32 layout", exhaustive=True)
    ck.rule("R2", "non-struct cells (enum, opaque pointer, slice) and the DiplomatOption size/align formula, evaluated for every primitive / slice / enum payload, equal rustc's wasm32 layout of the repr(C) record", exhaustive=True)
    ck.rule("R3", "struct_field_info: the padding formulas are exact align-up for every (offset, align) on an exhaustive grid; the field offset is recorded after padding and before the size is added; max_align is the running maximum; final layout = (next_offset, max_align)")
    ck.rule("R4", "typed-array table used to read/write primitives has the kind and width of the wasm32 type")
    ck.rule("R5", "JS runtime reads pointers as u32, result flags as u8, enum discriminants as i32, and writes the option flag at offset + size(T)")
    ck.rule("R8", "every diplomatRuntime call the generator prints passes named values (size, align, offset, ...) at the positions where the runtime function declares them")
    ck.rule("R7", "values read out of wasm memory use the reader of their wasm32 type (enum: signed i32, pointer: u32, primitive: typed-array table) and a field offset is applied exactly once")
    ck.rule("R6", "legacy-ABI forced padding threshold: a nested two-scalar struct is padded when the outer aggregate has more than two scalars (docs/wasm_abi_quirks.md)")
    ck.not_decided += ["struct_field_info's results for every field order (algorithm correctness beyond the formulas above)", "bytes written by _writeToArrayBuffer for all values", "flattened argument lists for all structs"]

    # the struct generator and the layout computation walk every field, in order (rule shared with C01 / C07)
    import c07
    c07.field_walk_rules(ck, "R3", facts, {"js"})

    def wl(t):
        """wasm32 (size, align) of a Rust scalar type name"""
        key = "P_" + t
        if key not in wasm:
            return None
        return wasm[key]["size"], wasm[key]["align"]

    # ---------------- R1
    f = tool.fn("js::layout::primitive_size_alignment")
    tab, m = T.prim_table(f, adts)
    for prim in T.ALL_PRIMS:
        r = tab.get(prim)
        key = "primitive_size_alignment/" + prim
        if not r or r[0] != "expr":
            ck.bad("R1", key, "cell is not a Layout::new::<T>() expression: %s" % (r[:2] if r else None,), C.loc(f))
            continue
        t = layout_new_type(r[1])
        if not t:
            ck.bad("R1", key, "cell is not Layout::new::<T>()", C.loc(f, r[2]))
            continue
        rust_ty = T._PRIM_MAP[prim]
        want = wl(rust_ty)
        got_host = (host[t]["size"], host[t]["align"]) if t in host else None
        got_wasm = wl(t)
        ck.expect(got_host is not None and got_host == want, "R1", key, "Layout::new::<%s>() = %s on the host = wasm32 layout of %s" % (t, got_host, rust_ty),
                  "%s is laid out as Layout::new::<%s>() = %s (evaluated on the host) but rustc's wasm32 layout of %s is %s" % (prim, t, got_host, rust_ty, want), C.loc(f, r[2]))
        ck.expect(got_host == got_wasm, "R1", key + "/host==wasm32", "", "Layout::new::<%s>() differs between the host %s and wasm32 %s" % (t, got_host, got_wasm), C.loc(f, r[2]))
    # ---------------- R2 non-struct cells
    g = tool.fn("js::layout::type_size_alignment_and_scalar_count")
    ms = T.find_matches(g, "hir::types::Type")
    if not ms:
        raise C.CheckError("type_size_alignment_and_scalar_count: match on hir::Type not found")
    mt = ms[0]
    cells = {}
    for v, hits in C.decision_table(mt, adts, "diplomat_core::hir::types::Type"):
        arm = next((i for i, c in hits if not c), None)
        if arm is not None:
            cells[v.variant] = mt["arms"][arm]
    opq = tool.fn("js::layout::opaque_size_alignment")
    t_opq = layout_new_type(C.fn_body(opq))

    def first_tuple_elem(arm):
        b = C.strip(arm["b"])
        return C.strip(b["a"][0]) if b.get("k") == "tup" else None
    for variant, want_key, note in (("Enum", "P_enum", "repr(C) fieldless enum"), ("Slice", "P_slice", "(ptr, len)"), ("Opaque", None, "pointer")):
        arm = cells.get(variant)
        key = "type_size_alignment/" + variant
        if not arm:
            ck.bad("R2", key, "no arm", C.loc(g))
            continue
        e = first_tuple_elem(arm)
        t = layout_new_type(e) if e else None
        if variant == "Opaque":
            ok0 = e is not None and (C.callee(e) or "").endswith("opaque_size_alignment")
            t = t_opq if ok0 else None
            want = (wasm["P_slice"]["fields"][0][2],) * 2
        else:
            want = (wasm[want_key]["size"], wasm[want_key]["align"])
        got = None
        if t:
            if t in host:
                got = (host[t]["size"], host[t]["align"])
            elif re.fullmatch(r"\((\w+), (\w+)\)", t):
                a, b = re.fullmatch(r"\((\w+), (\w+)\)", t).groups()
                if a in host and b in host and a == b:
                    got = (host[a]["size"] * 2, host[a]["align"])
        ck.expect(got == want, "R2", key, "%s: Layout::new::<%s>() = %s" % (note, t, got), "%s is laid out as %s (Layout::new::<%s>) but rustc's wasm32 layout is %s" % (variant, got, t, want), C.loc(g, arm.get("ln")))
    # DiplomatOption formula
    arm = cells.get("DiplomatOption")
    if not arm:
        ck.bad("R2", "DiplomatOption", "no arm", C.loc(g))
    else:
        fsa = [x for x in C.walk(arm["b"]) if x.get("k") == "call" and (C.callee(x) or "").endswith("Layout::from_size_align")]
        if len(fsa) != 1:
            ck.bad("R2", "DiplomatOption/formula", "expected one Layout::from_size_align in the DiplomatOption arm", C.loc(g, arm.get("ln")))
        else:
            se, ae = fsa[0]["a"]
            # bind locals: size = layout.size(), align = layout.align()
            binds = {}
            for x in C.walk(arm["b"]):
                if x.get("k") == "letst" and x["pat"].get("k") == "bind" and x.get("init"):
                    i0 = C.strip(x["init"])
                    if i0.get("k") == "mcall" and i0.get("m") in ("size", "align") and not i0.get("a"):
                        binds[x["pat"]["n"]] = i0["m"]
            payloads = [("P_" + p, "Opt_" + p) for p in wasmprobe.PRIMS] + [("P_slice", "Opt_slice"), ("P_enum", "Opt_enum")]
            for pk, ok_ in payloads:
                if pk in ("P_u128", "P_i128"):
                    continue
                env = {n: wasm[pk][kind] for n, kind in binds.items()}
                try:
                    got = (exprval.ev(se, env), exprval.ev(ae, env))
                except exprval.Unknown as e:
                    ck.bad("R2", "DiplomatOption/" + pk[2:], "formula not evaluable: %s" % e, C.loc(g, arm.get("ln")))
                    continue
                want = (wasm[ok_]["size"], wasm[ok_]["align"])
                ck.expect(got == want, "R2", "DiplomatOption/" + pk[2:], "size,align = %s" % (got,),
                          "DiplomatOption<%s> is laid out with (size, align) = %s but rustc's wasm32 layout of {union{T}; bool} is %s" % (pk[2:], got, want), C.loc(g, arm.get("ln")))
            sc = [x.get("ctor", "").split("::")[-1] for x in C.walk(arm["b"]) if x.get("k") == "def" and "ScalarCount" in (x.get("ctor") or "")]
            ck.expect("Memory" in sc, "R2", "DiplomatOption/pass-mode", "ScalarCount::Memory", "option records must be passed indirectly (union => Memory)", C.loc(g, arm.get("ln")))

    # ---------------- R3 struct_field_info formulas
    s = tool.fn("js::layout::struct_field_info")
    # the accumulators are recognised by what they are used for, then spelled the way the rules below call them:
    #   next_offset = what is stored as a field's `offset`;  max_align = the alignment the final Layout is built with;  size / align = the field layout's
    #   .size() / .align();  padding = what is added to next_offset before the field is recorded;  prev_align = the other local refreshed from `align`
    import copy as _copy
    s = dict(s, hir=_copy.deepcopy(s["hir"]))
    body = C.fn_body(s)
    role = {}
    push_ = next((x for x in C.walk(body) if x.get("k") == "mcall" and x.get("m") == "push" and C.strip(x["a"][0]).get("k") == "struct" and
                  any(fl["n"] == "offset" for fl in C.strip(x["a"][0]).get("fields", []))), None)
    loop = next((n for n in C.walk(body) if n.get("k") == "for" and push_ is not None and any(x is push_ for x in C.walk(n["body"]))), None)
    if push_ is not None and loop is not None:
        off_e = C.strip(next(fl["e"] for fl in C.strip(push_["a"][0])["fields"] if fl["n"] == "offset"))
        if off_e.get("k") == "local":
            role[off_e["id"]] = "next_offset"
        if C.strip(push_["recv"]).get("k") == "local":
            role[C.strip(push_["recv"])["id"]] = "fields"
        if C.strip(loop["iter"]).get("k") == "local":
            role[C.strip(loop["iter"])["id"]] = "types"
        fin_ = [x for x in C.walk(body) if x.get("k") == "call" and (C.callee(x) or "").endswith("Layout::from_size_align") and not any(x is y for y in C.walk(loop))]
        for x in fin_:
            a1 = C.strip(x["a"][1]) if len(x.get("a") or []) == 2 else {}
            if a1.get("k") == "local":
                role.setdefault(a1["id"], "max_align")
        items_ = loop["body"].get("s", []) + ([loop["body"]["e"]] if loop["body"].get("e") else [])
        for x in items_:
            if x.get("k") == "letst" and isinstance(x.get("pat"), dict) and x["pat"].get("k") == "bind" and x.get("init") is not None:
                i0 = C.strip(x["init"])
                if i0.get("k") == "mcall" and i0.get("m") in ("size", "align") and not i0.get("a"):
                    role.setdefault(x["pat"]["id"], i0["m"])
        inv_role = {v: k for k, v in role.items()}
        for x in C.walk(body):
            if x.get("k") == "assignop" and (x.get("op") or "").startswith("Add") and C.strip(x["l"]).get("id") == inv_role.get("next_offset") and C.strip(x["r"]).get("k") == "local":
                r_id = C.strip(x["r"])["id"]
                if r_id not in role:
                    role[r_id] = "padding"      # inside the loop and after it: both are called `padding` by the rules
            if x.get("k") == "assign" and C.strip(x["r"]).get("k") == "local" and C.strip(x["r"]).get("id") == inv_role.get("align") and C.strip(x["l"]).get("k") == "local" \
                    and C.strip(x["l"])["id"] not in role:
                role[C.strip(x["l"])["id"]] = "prev_align"
        for x in C.walk(s["hir"]):
            if x.get("k") in ("local", "bind") and x.get("id") in role:
                x["n"] = role[x["id"]]
        for x in C.walk(body):     # patterns are not visited by walk(): rename the `let` bindings as well
            if x.get("k") == "letst" and isinstance(x.get("pat"), dict) and x["pat"].get("k") == "bind" and x["pat"].get("id") in role:
                x["pat"]["n"] = role[x["pat"]["id"]]
    if not loop:
        ck.bad("R3", "struct_field_info/loop", "loop over field types not found", C.loc(s))
    else:
        items = loop["body"].get("s", []) + ([loop["body"]["e"]] if loop["body"].get("e") else [])
        pad = next((x for x in items if x.get("k") == "letst" and x["pat"].get("n") == "padding"), None)
        grid_bad = []
        if pad:
            for a in (1, 2, 4, 8, 16):
                for off in range(0, 65):
                    try:
                        got = exprval.ev(pad["init"], {"align": a, "next_offset": off})
                    except exprval.Unknown as e:
                        grid_bad.append("not evaluable: %s" % e)
                        break
                    if got != (-off) % a:
                        grid_bad.append((off, a, got))
        ck.expect(pad is not None and not grid_bad, "R3", "struct_field_info/padding-formula", "exact on 5x65 grid", "padding before a field is not `align-up(next_offset, align) - next_offset`: %s" % grid_bad[:4], C.loc(s, pad.get("ln") if pad else None))
        # order: next_offset += padding  <  push{offset: next_offset}  <  next_offset += size ; max_align = max(..)
        idx = {}
        for i, x in enumerate(items):
            y = C.strip_keep_macro(x["e"]) if x.get("k") == "semi" else C.strip_keep_macro(x)
            if y.get("k") == "assignop" and (y.get("op") or "").startswith("Add") and C.strip(y["l"]).get("n") == "next_offset":
                r = C.strip(y["r"]).get("n")
                idx.setdefault("add_" + str(r), i)
            if y.get("k") == "assign" and C.strip(y["l"]).get("n") == "max_align":
                r = C.strip(y["r"])
                okm = r.get("k") == "call" and (C.callee(r) or "").endswith("cmp::max") and sorted(C.strip(a_).get("n") for a_ in r["a"]) == ["align", "max_align"]
                idx["max"] = i if okm else None
            if y.get("k") == "mcall" and y.get("m") == "push" and C.strip(y["recv"]).get("n") == "fields":
                st = C.strip(y["a"][0])
                offs = [fl for fl in st.get("fields", []) if fl["n"] == "offset"]
                if offs and C.strip(offs[0]["e"]).get("n") == "next_offset":
                    idx["push"] = i
        oko = all(k in idx and idx[k] is not None for k in ("add_padding", "push", "add_size", "max")) and idx["add_padding"] < idx["push"] < idx["add_size"]
        ck.expect(oko, "R3", "struct_field_info/offset-order", str(idx), "the field offset is not recorded between `next_offset += padding` and `next_offset += size` (or max_align is not the running max): %s" % idx, C.loc(s))
        # the width of the padding cells handed to the previous field is that field's own alignment: `prev_align` is refreshed from the field just laid out
        pa = [C.strip(y["r"]) for x in items for y in [C.strip_keep_macro(x["e"]) if x.get("k") == "semi" else C.strip_keep_macro(x)]
              if isinstance(y, dict) and y.get("k") == "assign" and C.strip(y["l"]).get("n") == "prev_align"]
        al = next((x for x in items if x.get("k") == "letst" and x["pat"].get("n") == "align"), None)
        okpa = len(pa) == 1 and pa[0].get("k") == "local" and al is not None and pa[0].get("id") == al["pat"].get("id")
        ck.expect(okpa, "R3", "struct_field_info/prev_align-is-field-align", "prev_align = align", "`prev_align` is refreshed from `%s` instead of the alignment of the field just laid out: the padding-cell width of the "
                  "next gap is wrong and the `padding %% prev_align == 0` assertion fires for layouts whose alignments go down and up again ({u16, u8, u32})" % (pa[0].get("n") if pa else None), C.loc(s))
        # size/align of the field come from the type's layout
        sz = next((x for x in items if x.get("k") == "letst" and x["pat"].get("n") == "size"), None)
        al = next((x for x in items if x.get("k") == "letst" and x["pat"].get("n") == "align"), None)
        oks = bool(sz and al) and C.strip(sz["init"]).get("m") == "size" and C.strip(al["init"]).get("m") == "align"
        ck.expect(oks, "R3", "struct_field_info/size-align-source", "", "size/align are not read from the field type's Layout", C.loc(s))
    # end padding + final layout
    # the trailing padding: the one `next_offset += P` after the loop; P's defining expression and the conditions on the way to the addition, evaluated on the grid
    okend = False
    detail = "no `next_offset += padding` after the loop"
    tail_adds = [(n_, st_) for n_, st_ in C.with_conditions(body) if n_.get("k") == "assignop" and (n_.get("op") or "").startswith("Add") and C.strip(n_["l"]).get("n") == "next_offset"
                 and C.strip(n_["r"]).get("k") == "local" and not (loop is not None and any(n_ is y for y in C.walk(loop)))]
    if len(tail_adds) == 1:
        add_, st_ = tail_adds[0]
        pid = C.strip(add_["r"])["id"]
        pdef = next((x for x in C.walk(body) if x.get("k") == "letst" and isinstance(x.get("pat"), dict) and x["pat"].get("id") == pid and x.get("init") is not None), None)
        conds = [(c_, br_) for k_, c_, br_ in st_ if k_ == "if" and any(y.get("k") == "local" and y.get("n") in ("next_offset", "max_align", "padding") for y in C.walk(c_))]
        bad2 = []
        if pdef is None:
            bad2.append("padding is not a local computed in the function")
        else:
            for a in (1, 2, 4, 8, 16):
                for off in range(1, 65):
                    env_ = {"max_align": a, "next_offset": off}
                    try:
                        # a condition may mention the padding itself (`if padding != 0`): evaluate it first when it is defined outside the branch
                        try:
                            env_["padding"] = exprval.ev(pdef["init"], env_)
                        except exprval.Unknown:
                            pass
                        taken = all(bool(exprval.ev(c_, env_)) == (br_ == "t") for c_, br_ in conds)
                        got = exprval.ev(pdef["init"], env_) if taken else 0
                    except exprval.Unknown as e:
                        bad2.append(str(e))
                        break
                    if got != (-off) % a:
                        bad2.append((off, a, got))
        okend = not bad2
        detail = str(bad2[:3])
    elif len(tail_adds) > 1:
        detail = "%d additions to next_offset after the loop" % len(tail_adds)
    ck.expect(okend, "R3", "struct_field_info/end-padding", "size rounded up to max_align on the grid", "trailing padding does not round the struct size up to its alignment: %s" % detail, C.loc(s))
    # padding is recorded in cells: wherever `padding_count` and `padding_field_width` of a field are set together, count = padding bytes / cell width
    # (the legacy ABI passes `padding_count` arguments of `padding_field_width` bytes each)
    ncell = 0
    for b_ in C.bodies_inl(tool, body, depth=1, exclude=[s["path"]]):
        blocks_ = [x for x in C.walk(b_) if x.get("k") == "block"]
        for blk in blocks_:
            assigns = {}
            for st_ in blk.get("s") or []:
                y = C.strip_keep_macro(st_["e"]) if st_.get("k") == "semi" else C.strip_keep_macro(st_)
                if isinstance(y, dict) and y.get("k") == "assign" and C.strip(y["l"]).get("k") == "field" and C.strip(y["l"]).get("n") in ("padding_count", "padding_field_width"):
                    assigns[C.strip(y["l"])["n"]] = C.strip(y["r"])
            if "padding_count" not in assigns:
                continue
            ncell += 1
            cnt, wid = assigns["padding_count"], assigns.get("padding_field_width")
            okc = cnt.get("k") == "bin" and cnt.get("op") == "Div" and wid is not None and C.strip(cnt["r"]).get("k") == "local" and wid.get("k") == "local" and C.strip(cnt["r"]).get("id") == wid.get("id") \
                and C.strip(cnt["l"]).get("k") == "local"
            ck.expect(okc, "R3", "struct_field_info/padding-cells#%d" % ncell, "padding_count = padding / padding_field_width",
                      "a field's padding is recorded as %s cells of `padding_field_width` bytes, not as padding / width: the flattened legacy argument list gets the wrong number of padding arguments" %
                      ("`%s`" % (C.strip(cnt["l"]).get("n") if cnt.get("k") == "bin" else cnt.get("n") or cnt.get("k"))), C.loc(s, blk.get("ln")))
    if ncell < 1:     # two on the pinned tree (between fields, after the last field); one when a helper records both
        ck.bad("R3", "struct_field_info/padding-cells-floor", "no site recording a field's padding cells found (2 counted: between fields, after the last field)", C.loc(s))
    fin = [x for x in C.walk(body) if x.get("k") == "call" and (C.callee(x) or "").endswith("Layout::from_size_align")]
    okf = len(fin) == 1 and [C.strip(a).get("n") for a in fin[0]["a"]] == ["next_offset", "max_align"]
    ck.expect(okf, "R3", "struct_field_info/final-layout", "Layout(next_offset, max_align)", "the struct layout is not built from (next_offset, max_align)", C.loc(s))

    # accumulators start from the neutral element and are updated only by the statements analysed above
    inits = {}
    for n in C.walk(body):
        if n.get("k") == "letst" and isinstance(n.get("pat"), dict) and n["pat"].get("n") in ("max_align", "next_offset", "prev_align") and n.get("init"):
            i0 = C.strip(n["init"])
            inits[n["pat"]["n"]] = i0.get("v") if i0.get("k") == "lit" else "<%s>" % (i0.get("k") if i0.get("k") != "mcall" else "call " + i0.get("m", "?"))
    ok_init = str(inits.get("next_offset")) == "0" and str(inits.get("max_align")) in ("0", "1") and str(inits.get("prev_align")) == "1"
    ck.expect(ok_init, "R3", "struct_field_info/accumulator-init", str(inits),
              "accumulators do not start neutral (%s; expected next_offset = 0, max_align = 0 or 1, prev_align = 1): every struct would get a minimum alignment/offset rustc's repr(C) layout does not have" % inits, C.loc(s))
    writes = {"max_align": 0, "next_offset": 0}
    for n in C.walk(body):
        if n.get("k") in ("assign", "assignop"):
            tgt = C.strip(n["l"]).get("n")
            if tgt in writes:
                writes[tgt] += 1
    ck.expect(writes == {"max_align": 1, "next_offset": 3}, "R3", "struct_field_info/accumulator-writes", str(writes),
              "max_align / next_offset are written %s times (expected the running max once; padding, size and trailing padding): an update outside the analysed statements" % writes, C.loc(s))

    # ---------------- R4 typed arrays
    f = tool.fn("js::formatter::JSFormatter::fmt_primitive_slice")
    tab, _ = T.prim_table(f, adts)
    for prim in T.ALL_PRIMS:
        if prim.startswith("Int128"):
            continue
        r = tab.get(prim)
        key = "fmt_primitive_slice/" + prim
        if not r or r[0] != "str":
            ck.bad("R4", key, "no constant typed array: %s" % (r[:2] if r else None,), C.loc(f))
            continue
        ta = TYPED_ARRAY.get(r[1])
        rust_ty = T._PRIM_MAP[prim]
        bits = wasm["P_" + rust_ty]["size"] * 8
        kind = "float" if rust_ty[0] == "f" else ("int" if rust_ty[0] == "i" else "uint")
        if rust_ty == "bool":
            kind = "uint"
        ck.expect(ta == (kind, bits), "R4", key, "%s %s" % (r[1], ta), "%s elements are accessed through %s %s but the wasm32 type %s is (%s, %d)" % (prim, r[1], ta, rust_ty, kind, bits), C.loc(f, r[2]))

    # list views: the tag handed to DiplomatBuf.slice / DiplomatSlicePrimitive names the element type
    LIST_VIEW = {"boolean": ("uint", 8), "u8": ("uint", 8), "i8": ("int", 8), "u16": ("uint", 16), "i16": ("int", 16), "u32": ("uint", 32), "i32": ("int", 32),
                 "u64": ("uint", 64), "i64": ("int", 64), "f32": ("float", 32), "f64": ("float", 64), "u128": ("uint", 128), "i128": ("int", 128)}
    f = tool.fn("js::formatter::JSFormatter::fmt_primitive_list_view")
    tab, _ = T.prim_table(f, adts)
    for prim in T.ALL_PRIMS:
        if prim.startswith("Int128"):
            continue
        r = tab.get(prim)
        key = "fmt_primitive_list_view/" + prim
        if not r or r[0] != "str":
            ck.bad("R4", key, "no constant list-view tag: %s" % (r[:2] if r else None,), C.loc(f))
            continue
        lv = LIST_VIEW.get(r[1])
        rust_ty = T._PRIM_MAP[prim]
        bits = wasm["P_" + rust_ty]["size"] * 8
        kind = "float" if rust_ty[0] == "f" else ("int" if rust_ty[0] == "i" else "uint")
        if rust_ty == "bool":
            kind = "uint"
        ck.expect(lv == (kind, bits), "R4", key, "%s %s" % (r[1], lv), "slices of %s are copied to / read from wasm memory as \"%s\" %s elements but the wasm32 type %s is (%s, %d): "
                  "wrong element width (allocation too small, values garbled)" % (prim, r[1], lv, rust_ty, kind, bits), C.loc(f, r[2]))
    # the runtime's element sizes / typed arrays for those tags
    rtm0 = C.read_repo("tool/templates/js/runtime.mjs")
    msz = re.search(r"const\s+elementSize\s*=\s*(.*?);", rtm0, re.S)
    if not msz:
        ck.bad("R4", "runtime.mjs/elementSize", "elementSize table of DiplomatBuf.slice not found", "tool/templates/js/runtime.mjs")
    else:
        expr = msz.group(1)
        sizes = {}
        for grp, val in re.findall(r"((?:rustType\s*===\s*\"\w+\"\s*(?:\|\|)?\s*)+)\?\s*(\d+)\s*:", expr):
            for tag in re.findall(r'"(\w+)"', grp):
                sizes[tag] = int(val)
        mdef = re.search(r":\s*(\d+)\s*$", expr.strip())
        default = int(mdef.group(1)) if mdef else None
        badsz = {t_: (sizes.get(t_, default), LIST_VIEW[t_][1] // 8) for t_ in LIST_VIEW if t_ not in ("u128", "i128") and sizes.get(t_, default) != LIST_VIEW[t_][1] // 8}
        ck.expect(not badsz, "R4", "runtime.mjs/elementSize", "element sizes per tag agree with the tag", "DiplomatBuf.slice element sizes disagree with the tag's width: %s (got, expected)" % badsz, "tool/templates/js/runtime.mjs")

    # ---------------- R5 runtime.mjs
    rtm = C.read_repo("tool/templates/js/runtime.mjs")

    def fn_body(name):
        m = re.search(r"export\s+function\s+%s\s*\(([^)]*)\)\s*\{(.*?)\n\}" % name, rtm, re.S)
        return (m.group(1), re.sub(r"//[^\n]*", "", m.group(2))) if m else (None, "")
    for name, arr, expr in (("ptrRead", "Uint32Array", r"ptr"), ("resultFlag", "Uint8Array", r"ptr\s*\+\s*offset"), ("enumDiscriminant", "Int32Array", r"ptr")):
        params, b = fn_body(name)
        ok = params is not None and re.search(r"return\s*\(?\s*new\s+%s\s*\(\s*wasm\.memory\.buffer\s*,\s*%s\s*,\s*1\s*\)\s*\)?\s*\[\s*0\s*\]" % (arr, expr), b) is not None
        ck.expect(ok, "R5", "runtime.mjs/" + name, arr, "%s does not read one %s element at %s: `%s`" % (name, arr, expr, b.strip()[:80]), "tool/templates/js/runtime.mjs")
    params, b = fn_body("writeOptionToArrayBuffer")
    ok = params is not None and re.search(r"writeToArrayBuffer\(\s*arrayBuffer\s*,\s*offset\s*\+\s*size\s*,\s*1\s*,\s*Uint8Array\s*\)", b) is not None and re.search(r"writeToArrayBufferCallback\(\s*arrayBuffer\s*,\s*offset\s*,\s*jsValue\s*\)", b) is not None
    ck.expect(ok, "R5", "runtime.mjs/writeOptionToArrayBuffer", "payload at offset, flag byte at offset+size", "option writer no longer stores the payload at `offset` and the 1-byte flag at `offset + size`", "tool/templates/js/runtime.mjs")

    # ---------------- R6 legacy padding threshold
    gf = None
    for f2 in tool.fn_list:
        if f2.get("dk") == "Closure" or "hir" not in f2 or not f2["path"].startswith("diplomat_tool::js::"):
            continue
        for n in C.walk(C.fn_body(f2)):
            if n.get("k") == "match":
                for arm in n["arms"]:
                    b = C.strip(arm["b"])
                    if b.get("k") == "def" and (b.get("ctor") or "").endswith("ForcePaddingStatus::Force"):
                        gf = (f2, n, arm)
    if not gf:
        ck.bad("R6", "force-padding/anchor", "no match arm producing ForcePaddingStatus::Force found in the JS backend", None)
    else:
        f2, n, arm = gf
        p = arm["pat"]
        ok = p.get("k") == "tuple" and len(p["sub"]) == 2
        detail = ""
        if ok:
            inner, outer = p["sub"]
            i_lit = inner.get("sub", [{}])[0] if inner.get("v") == "Scalars" else {}
            o_rng = outer.get("sub", [{}])[0] if outer.get("v") == "Scalars" else {}
            lo = o_rng.get("lo", {}).get("v") if o_rng.get("k") == "range" else None
            hi = o_rng.get("hi") if o_rng.get("k") == "range" else "n/a"
            ok = i_lit.get("k") == "lit" and i_lit.get("v") == 2 and lo == 3 and hi is None
            detail = "(Scalars(%s), Scalars(%s..%s))" % (i_lit.get("v"), lo, "" if hi is None else hi)
        ck.expect(ok, "R6", "force-padding/threshold", detail, "padding of a nested two-scalar struct is forced for %s; the wasm legacy ABI pads every aggregate with MORE THAN TWO scalars, i.e. (Scalars(2), Scalars(3..))" % detail, C.loc(f2, arm.get("ln")))

    # the padding of a struct is left to the caller (`maybePaddingFields(forcePadding, ..)`) exactly for aggregates of two SCALARS (transitively counted), the shape
    # whose padding the legacy ABI decides by its surroundings -- not for structs with two fields
    gfs = [f2 for f2 in tool.fn_list if "hir" in f2 and f2["path"].startswith("diplomat_tool::js::") and not f2.get("exp")]
    nmp = 0
    for f2 in gfs:
        for n in C.walk(C.fn_body(f2)):
            if n.get("k") == "if" and any("maybePaddingFields(forcePadding" in l_ for l_ in C.str_lits(n["t"])):
                if any(x is not n and x.get("k") == "if" and any("maybePaddingFields(forcePadding" in l_ for l_ in C.str_lits(x["t"])) for x in C.walk(n["t"])):
                    continue    # an enclosing condition (`if padding > 0`); the innermost one decides
                nmp += 1

                def cond_exprs(fn_, e_, depth=0):
                    """the expressions a condition stands for: itself, the initialiser of the local it names, or -- for a parameter -- the argument of every call site"""
                    e_ = C.strip(e_)
                    if e_.get("k") != "local" or depth > 3:
                        return [e_]
                    d_ = dict(flow.defs_of(fn_)).get(e_.get("id"))
                    if d_ and d_[0] == "expr":
                        return cond_exprs(fn_, d_[1], depth + 1)
                    if d_ and d_[0] == "param":
                        params = [p_.get("id") if isinstance(p_, dict) else None for p_ in fn_["hir"].get("params") or []]
                        j = params.index(e_.get("id")) if e_.get("id") in params else None
                        outs = []
                        for g_ in gfs:
                            for c2 in C.calls_in(C.fn_body(g_)):
                                if C.norm_path(c2.get("p") or C.callee(c2) or "") == C.norm_path(fn_["path"]) and j is not None:
                                    args = ([c2["recv"]] + list(c2.get("a") or [])) if c2.get("k") == "mcall" else list(c2.get("a") or [])
                                    if j < len(args):
                                        outs += cond_exprs(g_, args[j], depth + 1)
                        return outs or [e_]
                    return [e_]

                def is_two_scalars(c_):
                    sides = [C.strip(c_.get("l") or {}), C.strip(c_.get("r") or {})] if c_.get("k") == "bin" and c_.get("op") == "Eq" else []
                    has_count_ = any(x.get("k") == "field" and x.get("n") == "scalar_count" for sd in sides for x in C.walk(sd))
                    two_ = any(sd.get("k") == "call" and (sd.get("ctor") or "").endswith("ScalarCount::Scalars") and sd.get("a") and C.strip(sd["a"][0]).get("v") == 2 for sd in sides)
                    return has_count_ and two_
                exprs = cond_exprs(f2, n["c"])
                has_count = two = bool(exprs) and all(is_two_scalars(x_) for x_ in exprs)
                ck.expect(has_count and two, "R6", "js::%s/caller-decides-padding-iff-two-scalars" % f2["name"], "scalar_count == Scalars(2)",
                          "padding is delegated to the caller under a condition that is not `scalar_count == ScalarCount::Scalars(2)`: a two-FIELD struct with a slice or nested struct (3+ scalars) "
                          "loses its padding slots in the flattened argument list, later arguments shift", C.loc(f2, n.get("ln")))
    if nmp < 1:
        ck.bad("R6", "js/caller-decides-padding/anchor", "no `maybePaddingFields(forcePadding, ..)` emission found in the JS backend")
    # scalar counts: a cell laid out as a tuple of n wasm scalars counts n scalars, every other leaf cell counts one
    sc = tool.fn("js::layout::type_size_alignment_and_scalar_count")
    mt_sc = next((n for n in C.walk(C.fn_body(sc)) if n.get("k") == "match" and (n.get("sadt") or "").endswith("hir::types::Type")), None)
    nsc = 0
    for arm in (mt_sc["arms"] if mt_sc else []):
        b = C.strip(arm["b"])
        if b.get("k") != "tup" or len(b["a"]) != 2:
            continue
        lay, cnt = C.strip(b["a"][0]), C.strip(b["a"][1])
        if not (cnt.get("k") == "call" and (cnt.get("ctor") or "").endswith("ScalarCount::Scalars") and cnt.get("a") and C.strip(cnt["a"][0]).get("k") == "lit"):
            continue
        nsc += 1
        want = 1
        ga = ((lay.get("f") or {}).get("ga") or [None])[0] if lay.get("k") == "call" and (lay.get("p") or "").endswith("Layout::new") else None
        if ga and ga.startswith("("):
            depth, want = 0, 1
            for ch in ga[1:-1]:
                depth += ch in "(<["
                depth -= ch in ")>]"
                want += ch == "," and depth == 0
        got = C.strip(cnt["a"][0]).get("v")
        ck.expect(got == want, "R6", "scalar-count/%s" % arm["pat"].get("v"), "%s scalars for %s" % (got, ga or "a single scalar"),
                  "Type::%s is laid out as %s (%d wasm scalars) but counted as %s: aggregates containing it get the wrong legacy-ABI padding decision (>2 scalars are padded)" % (arm["pat"].get("v"), ga or "one scalar", want, got), C.loc(sc, arm.get("ln")))
    if nsc < 4:
        ck.bad("R6", "scalar-count/floor", "only %d leaf arms with a literal scalar count found (4 counted: Enum, Opaque, Slice, Primitive)" % nsc, C.loc(sc))
    # a local called size / align that is filled from a Layout is filled from the accessor of the same name
    nsa = 0
    for f2 in tool.fn_list:
        if "hir" not in f2 or not f2["path"].startswith("diplomat_tool::js::") or f2.get("exp"):
            continue
        for n in C.walk(C.fn_body(f2)):
            if n.get("k") == "letst" and isinstance(n.get("pat"), dict) and n["pat"].get("k") == "bind" and n["pat"].get("n") in ("size", "align") and n.get("init") is not None:
                i_ = C.strip(n["init"])
                if i_.get("k") == "mcall" and i_.get("m") in ("size", "align") and "Layout" in (i_.get("rty") or i_.get("p") or ""):
                    nsa += 1
                    ck.expect(i_["m"] == n["pat"]["n"], "R8", "%s/let-%s#%d" % (C.norm_path(f2["path"]).split("::")[-1], n["pat"]["n"], sum(1 for i in ck.instances if i["rule"] == "R8" and i["key"].startswith("%s/let-%s#" % (C.norm_path(f2["path"]).split("::")[-1], n["pat"]["n"])))), "%s = layout.%s()" % (n["pat"]["n"], i_["m"]),
                              "`let %s = ...%s()`: the value interpolated at the runtime function's `%s` position is the layout's %s (the option flag is then looked for at offset + align instead of offset + size)"
                              % (n["pat"]["n"], i_["m"], n["pat"]["n"], i_["m"]), C.loc(f2, n.get("ln")))
    if nsa < 4:
        ck.bad("R8", "size-align-lets/floor", "only %d `let size/align = layout.size()/align()` bindings found in the JS backend" % nsa)
    struct_outstruct_symmetry(ck, "R9", facts, {"js"})
    # an optional field is a {payload, is_ok} record, not its payload: the predicates that classify a type for the ABI (bool-valued matches over hir::Type, e.g. "is this struct
    # just a wrapped primitive, passed as a scalar") look at the type itself, never at `unwrap_option()` of it
    ncls = 0
    for f2 in tool.fn_list:
        if "hir" not in f2 or not f2["path"].startswith("diplomat_tool::js::") or f2.get("exp"):
            continue
        for n in C.walk(C.fn_body(f2)):
            if n.get("k") == "match" and (n.get("sadt") or "").endswith("hir::types::Type") and any(C.strip(a_["b"]).get("k") == "lit" and C.strip(a_["b"]).get("t") == "bool" for a_ in n["arms"]):
                ncls += 1
                peeled = [x.get("m") for x in C.walk(n["s"]) if x.get("k") == "mcall" and x.get("m") in ("unwrap_option", "unwrap_or_inner", "inner")]
                ck.expect(not peeled, "R9", "js::%s/classifies-the-type-itself#%d" % (f2["name"], sum(1 for i in ck.instances if i["rule"] == "R9" and i["key"].startswith("js::%s/classifies" % f2["name"]))), "",
                          "%s classifies `%s()` of a type instead of the type: a struct whose only field is an Option<primitive> is taken for a wrapped primitive and passed / returned as a bare scalar, "
                          "without its is_ok flag and without the receive buffer" % (f2["name"], peeled[0] if peeled else ""), C.loc(f2, n.get("ln")))
    if ncls < 1:
        ck.bad("R9", "js/classification-floor", "no bool-valued match over hir::Type found in the JS backend (1 counted: only_primitive)")
    # producer / consumer of the lifetime append-array map: a method whose output does not borrow from a struct argument passes an empty map (`{}`), so every
    # spread of a map entry in the code that writes the struct (`...appendArrayMap['aAppendArray']`) must tolerate a missing entry -- under js.abi = spec every
    # struct argument is written through that code, and a bare spread of `undefined` throws before a byte is written
    spreads, tolerant = 0, 0
    passes_empty = False
    for f2 in tool.fn_list:
        if "hir" not in f2 or not f2["path"].startswith("diplomat_tool::js::") or f2.get("exp"):
            continue
        for l_ in C.str_lits(C.fn_body(f2)):
            for m_ in re.finditer(r"\.\.\.\s*(\(?)\s*appendArrayMap\[[^\]]*\]\s*(\|\|\s*\[\s*\]\s*\))?", l_):
                spreads += 1
                tolerant += bool(m_.group(1) and m_.group(2))
            if re.search(r"_intoFFI\(functionCleanupArena, \{\}", l_) or l_.strip() == "{}":
                passes_empty = True
    ck.expect(spreads >= 2 and tolerant == spreads, "R8", "js/appendArrayMap-spreads-tolerate-missing-entry", "%d spreads, all `(.. || [])`" % spreads,
              "%d of %d spreads of an append-array map entry are bare (`...appendArrayMap[..]`) while methods pass `{}` for struct arguments the output does not borrow from (%s): "
              "with js.abi = spec the struct conversion throws `appendArrayMap.aAppendArray is not iterable` instead of writing the struct" % (spreads - tolerant, spreads, passes_empty), None)

    # ---------------- R7 readers used by the deref generator
    js_deref_rules(ck, "R7", facts)
    js_result_buffer_rules(ck, "R2", facts)
    js_receive_buffer_args(ck, "R8", facts)
    if template_flags_consumed(ck, "R8", facts, r"^js/") < 3:
        ck.bad("R8", "js/flags-consumed/floor", "fewer than 3 JS template structs with boolean flags found")
    # JS struct template: `_intoFFI` (JS -> C) and `_fromFFI` (C -> JS) decide how a struct is represented by the same flags: every flag `_fromFFI` combines with the
    # single-primitive test is consulted by `_intoFFI` as well (a wrapper of a wrapper passes the inner struct's _intoFFI result, not the inner JS object)
    st_txt = C.read_repo("tool/templates/js/struct.js.jinja")
    i_into, i_from = st_txt.find("_intoFFI("), st_txt.find("static _fromFFI(")
    sadt = next((a for a in tool.data["adts"] if a["path"].endswith("gen_struct::ImplTemplate") and "::js::" in a["path"]), None)
    bflags = {fl["name"] for v in (sadt or {}).get("variants", []) for fl in v["fields"] if fl["ty"] == "bool"}
    if i_into < 0 or i_from < 0 or i_from < i_into or not bflags:
        ck.bad("R8", "js/struct.js.jinja/representation-flags", "cannot find _intoFFI / _fromFFI in the struct template or the template struct's flags", "tool/templates/js/struct.js.jinja")
    else:
        tags_from = re.findall(r"\{%-?(.*?)-?%\}", st_txt[i_from:], re.S)
        wrap_flag = next((f_ for f_ in sorted(bflags) if "wraps" in f_), None)
        co = set()
        for t_ in tags_from:
            ids_ = set(re.findall(r"[A-Za-z_]\w*", t_)) & bflags
            if len(ids_) >= 2:
                co |= ids_
        into_ids = set(re.findall(r"[A-Za-z_]\w*", " ".join(re.findall(r"\{%-?(.*?)-?%\}", st_txt[i_into:i_from], re.S)))) & bflags
        ck.expect(bool(co) and co <= into_ids, "R8", "js/struct.js.jinja/representation-flags", "%s consulted in both directions" % sorted(co),
                  "`_fromFFI` decides the representation with %s but `_intoFFI` only looks at %s: one direction treats a nested single-primitive struct differently from the other" %
                  (sorted(co), sorted(into_ids)), "tool/templates/js/struct.js.jinja")
        # ... and the raw scalar `_fromFFI` receives for a single-primitive struct becomes a *field* only in the struct that owns the primitive: a wrapper of a wrapper
        # hands it on to the inner struct's _fromFFI (the positive form of the ownership flag guards every direct `field = primitiveValue` store)
        import tmpl as _tm
        fl_ = _tm.flat_file("js/struct.js.jinja")
        own_flag = next((f_ for f_ in sorted(bflags) if "owns" in f_), None)
        k_from = fl_.find("static _fromFFI(")
        nst = 0
        for mm in re.finditer(r"structObj\.[^\n=]*=\s*primitiveValue\s*;", fl_[k_from:] if k_from >= 0 else ""):
            nst += 1
            gs = [g_ for g_ in _tm.guards_at(fl_, k_from + mm.start()) if g_.startswith("if ") and " / " not in g_]
            owned = own_flag is not None and any(re.search(r"(?<![!\w])%s\b" % re.escape(own_flag), g_) for g_ in gs)
            ck.expect(owned, "R8", "js/struct.js.jinja/_fromFFI/raw-scalar-only-into-own-field#%d" % (nst - 1), "guarded by %s" % own_flag,
                      "`_fromFFI` stores the raw scalar into a field without asking `%s` (guards: %s): for a struct whose single field is another single-primitive struct the field "
                      "receives a number where the inner struct's constructor expects an object" % (own_flag, gs), "tool/templates/js/struct.js.jinja")
        if nst < 1:
            ck.bad("R8", "js/struct.js.jinja/_fromFFI/raw-scalar/floor", "no direct `structObj.<field> = primitiveValue` store found in _fromFFI (1 counted)", "tool/templates/js/struct.js.jinja")
    # the three ForcePaddingStatus decisions stay three different texts wherever they are printed (NoForce: nothing, Force: `true`, PassThrough: the caller's own
    # `forcePadding`): a table that prints two of them alike drops a decision C08.R6 checks the computation of
    nfp = 0
    for f_ in tool.fn_list:
        if "hir" not in f_ or f_.get("dk") == "Closure" or not C.norm_path(f_["path"]).startswith("diplomat_tool::js::"):
            continue
        for m_ in C.walk(C.fn_body(f_)):
            if m_.get("k") != "match" or not (m_.get("sadt") or "").endswith("ForcePaddingStatus"):
                continue
            outs = {}
            for v, hits in C.decision_table(m_, adts):
                arm_i = next((i for i, cond in hits if not cond), None)
                r = T.arm_result(m_["arms"][arm_i]["b"]) if arm_i is not None else ("nomatch",)
                if r[0] == "str":
                    outs[v.variant] = r[1]
            if len(outs) < 3:
                continue
            nfp += 1
            ck.expect(len(set(outs.values())) == len(outs), "R6", "%s/force-padding-texts-distinct" % C.norm_path(f_["path"]).replace("diplomat_tool::", ""), str(outs),
                      "two ForcePaddingStatus values are printed alike (%s): a nested struct no longer receives its caller's `forcePadding`, so the padding slots of the innermost struct "
                      "vanish from the flattened argument list" % outs, C.loc(f_, m_.get("ln")))
    if nfp < 1:
        ck.bad("R6", "force-padding-texts/floor", "no table printing the three ForcePaddingStatus values found in the JS backend (1 counted)")
    # top-level arguments of an export (the receiver and each parameter) are flattened alike and never with forced padding: padding is forced only for a
    # two-scalar struct *nested* in a larger aggregate (the field decision above); receiver and parameters are siblings in one argument list
    gm = next(iter(tool.fns_matching(r"::js::gen::.*::generate_method$")), None)
    tops = []
    # (the sites that name the status outright; the one nested site, generate_fields, passes the status it computed)
    for g_ in ([gm] + [h for h in tool.fn_list if "::js::" in h["path"] and "hir" in h and h is not gm]) if gm is not None else []:
        for x in C.walk(C.fn_body(g_)):
            if x.get("k") == "call" and (C.callee(x) or x.get("p") or "").endswith("JsToCConversionContext::List"):
                a0 = C.strip(x["a"][0]) if x.get("a") else {}
                if a0.get("k") == "def" and "ForcePaddingStatus::" in (a0.get("ctor") or a0.get("p") or ""):
                    tops.append(((a0.get("ctor") or a0.get("p") or "?").split("::")[-1], x.get("ln")))
    ck.expect(len(tops) >= 2 and {t for t, _ in tops} == {"NoForce"}, "R6", "js::generate_method/top-level-arguments-unforced", "%d top-level List conversions, all NoForce" % len(tops),
              "generate_method converts its top-level arguments with %s (2 counted: receiver and parameters, both NoForce): a struct receiver / parameter with two scalars is flattened "
              "with padding slots the export does not take, every later argument shifts" % sorted({t for t, _ in tops}), C.loc(gm) if gm else None)
    js_runtime_call_rules(ck, "R8", facts)
    # an enum-typed field is written as the enum object's ffiValue: the JS enum class indexes by discriminant only for 0..N-1 enums (C11.R2, C11.R1 for js)
    import c11
    c11.run(C.SubCheck(ck, "R7", "", ["R1", "R2"], key_re=r"^js[:/]"), facts)

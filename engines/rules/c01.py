"""C01 — Rust extern "C" layer and C headers agree on the ABI (structural clauses)."""
import re
import common as C
import tables as T
import cdecl
import tmpl
from common import MirFn, sym_show, sym_leaves, sym_walk


def rust_field_shape(adt, layout=None):
    """Kind sequence of a Rust repr(C) struct's fields in declaration order (ZST PhantomData dropped)."""
    out = []
    for f in adt["variants"][0]["fields"]:
        t = f["ty"]
        if t.startswith("core::marker::PhantomData"):
            continue
        if t.startswith("*"):
            out.append(("ptr", f["name"], t.startswith("*const")))
        elif re.match(r"^(unsafe )?extern \"C\" fn", t) or re.match(r"^core::option::Option<(unsafe )?extern \"C\" fn", t):
            out.append(("fnptr", f["name"]))
        elif t in ("usize", "isize"):
            out.append(("scalar", f["name"], "uint" if t == "usize" else "int", "ptr"))
        elif t == "bool":
            out.append(("scalar", f["name"], "bool", 8))
        elif "DiplomatResultValue" in t:
            out.append(("union", f["name"]))
        else:
            out.append(("other", f["name"], t))
    return out


def macro_repr_flag_rule(ck, rule, facts):
    """by-value structs get #[repr(C)] unless they carry a `repr` of their own: AttributeInfo::extract sets the flag for the `repr` attribute only (whatever its argument:
    adding repr(C) next to repr(transparent) / repr(u8) does not compile, leaving a repr-less struct out loses the layout).  Shared with C09."""
    mac = facts.macro
    # by-value structs get #[repr(C)] unless they carry a `repr` of their own: the flag is set for the `repr` attribute only
    exf = mac.fn("AttributeInfo::extract")
    repr_conds = []
    for n, st in C.with_conditions(C.fn_body(exf)):
        if n.get("k") == "assign" and C.strip(n["l"]).get("n") == "repr" and str(C.strip(n["r"]).get("v")).lower() == "true":
            lits = set()
            for kind, a, b in st:
                if kind == "if" and b == "t":
                    lits |= {y["v"] for y in C.walk(a) if y.get("k") == "lit" and y.get("t") == "str"}
                elif kind == "arm":
                    lits |= set(C.pattern_str_lits({"k": "match", "arms": [b], "s": {}}))
            repr_conds.append(sorted(lits))
    ck.expect(repr_conds == [["repr"]], rule, "macro::extract/repr-flag-only-for-repr", str(repr_conds),
              "AttributeInfo::extract sets `repr` under %s (expected only for the `repr` attribute): a by-value struct carrying that attribute no longer gets #[repr(C)], rustc may reorder its fields while the C header keeps declaration order" % repr_conds, C.loc(exf))


def run(ck, facts):
    tool, rt, mac = facts.tool, facts.runtime, facts.macro
    adts = facts.all_adts()
    ft = T.foreign_types()
    pl = T.prims_layout(tool)
    ck.units += ["diplomat_tool.lib (HIR decision tables)", "diplomat_runtime.lib (layouts)", "diplomat.lib (macro)", "templates/c/*.jinja"]
    ck.rule("R1", "C primitive table: each hir primitive maps to a C type of the same kind and width as the Rust type rustc lays out (Int128 = documented exclusion)", exhaustive=True)
    ck.rule("R2", "derived-type names: (name-for-derived-type, C type) of every primitive is one of the MAKE_SLICES_AND_OPTIONS instantiations; slice/str/option names used by the formatter are defined by the macro expansion", exhaustive=True)
    ck.rule("R3", "C mirrors of runtime carrier types list the same field kinds in the same order as the repr(C) Rust types (DiplomatWrite, slice views, option/result records, callback struct)")
    ck.rule("R4", "argument order self -> params -> write in the macro and in the C method generator; no reordering call on the parameter list")
    ck.rule("R5", "generated extern fns of the repo's bridges: user method called exactly once on every path, each parameter flows (only) into its own argument position, return derives from the call through allowed conversions; bridge structs/enums are repr(C)")
    ck.rule("R6", "passing mode of self: the gate accepts a receiver form only if macro (pointer for &self, by value otherwise) and C backend (pointer for opaques, by value for struct/enum) agree")
    ck.not_decided += ["bit-for-bit delivery of argument values for all values (runtime quantity; rustc's ABI lowering is trusted once declarations agree)",
                       "macro behaviour on type shapes absent from feature_tests/example (R5 is a corpus rule)"]

    # ---------------- R1
    fmt_c = tool.fn("c::formatter::CFormatter::fmt_primitive_as_c")
    tab, mnode = T.prim_table(fmt_c, adts)
    for prim in T.ALL_PRIMS:
        r = tab.get(prim)
        key = "fmt_primitive_as_c/" + prim
        where = C.loc(fmt_c, r[2] if r else None)
        if r is None:
            ck.bad("R1", key, "primitive not covered by the table", where)
            continue
        if prim.startswith("Int128"):
            ck.expect(r[0] == "panic", "R1", key, "documented exclusion (panics)", "128-bit integers must stay excluded from C (found %s)" % (r[:2],), where)
            continue
        if r[0] != "str":
            ck.bad("R1", key, "arm does not evaluate to a C type name: %s" % (r[:2],), where)
            continue
        cty = r[1]
        want = T.rust_kind(T._PRIM_MAP[prim], pl)
        got = tuple(ft["c"].get(cty, ("unknown", 0)))
        ck.expect(got == want, "R1", key, "%s -> %s %s" % (prim, cty, got), "%s is emitted as C `%s` %s but the Rust type %s is %s" % (prim, cty, got, T._PRIM_MAP[prim], want), where)

    # ---------------- R2
    fmt_n = tool.fn("c::formatter::CFormatter::fmt_primitive_name_for_derived_type")
    ntab, _ = T.prim_table(fmt_n, adts)
    capi_raw = C.read_repo("tool/templates/c/capi.h.jinja")
    inst = cdecl.invocations(capi_raw, "MAKE_SLICES_AND_OPTIONS")
    inst_pairs = {tuple(a) for a in inst if len(a) == 2}
    ck.expect(len(inst_pairs) >= 18, "R2", "capi.h/instantiations", "%d instantiations" % len(inst_pairs), "only %d MAKE_SLICES_AND_OPTIONS instantiations (18 counted)" % len(inst_pairs), "tool/templates/c/capi.h.jinja")
    for prim in T.ALL_PRIMS:
        if prim.startswith("Int128"):
            r = ntab.get(prim)
            ck.expect(r and r[0] == "panic", "R2", "derived-name/" + prim, "excluded", "128-bit must be excluded", C.loc(fmt_n))
            continue
        nm, cn = ntab.get(prim), tab.get(prim)
        key = "derived-name/" + prim
        if not nm or nm[0] != "str" or not cn or cn[0] != "str":
            ck.bad("R2", key, "no constant name for %s: %s" % (prim, nm), C.loc(fmt_n))
            continue
        ck.expect((nm[1], cn[1]) in inst_pairs, "R2", key, "(%s, %s) instantiated" % (nm[1], cn[1]),
                  "%s uses derived-type name `%s` with C type `%s`, but capi.h instantiates %s for that name: slices/options of this primitive get the wrong element type"
                  % (prim, nm[1], cn[1], sorted(c for n, c in inst_pairs if n == nm[1]) or "nothing"), C.loc(fmt_n, nm[2]))
    # names the formatter can produce must be defined by the expansion
    macros = cdecl.parse_macros(capi_raw)
    expanded = cdecl.expand(capi_raw, macros)
    structs = cdecl.parse_structs(expanded)
    defined = set(structs)
    names_to_check = []
    for fnname in ("fmt_str_view_name", "fmt_strs_view_name", "fmt_write_name"):
        f = tool.fn("c::formatter::CFormatter::" + fnname)
        for s in C.str_lits(C.fn_body(f)):
            if re.match(r"^[A-Za-z]\w+$", s):
                names_to_check.append((fnname, s))
    f = tool.fn("c::formatter::CFormatter::fmt_optional_type_name")
    for s in C.str_lits(C.fn_body(f)):
        if re.match(r"^Option\w+$", s):
            names_to_check.append(("fmt_optional_type_name", s))
    prim_names = sorted({v[1] for v in ntab.values() if v[0] == "str"})
    f_slice = tool.fn("c::formatter::CFormatter::fmt_primitive_slice_name")
    pieces = " ".join(C.str_lits(C.fn_body(f_slice)))
    ck.expect("Diplomat{prim}View{mtb}" in pieces, "R2", "fmt_primitive_slice_name/pattern", pieces, "slice name pattern changed: %s" % pieces, C.loc(f_slice))
    for pn in prim_names:
        for pat in ("Diplomat%sView", "Diplomat%sViewMut", "Option%s", "Option%sView", "Option%sViewMut"):
            names_to_check.append(("derived", pat % pn))
    for src, nme in names_to_check:
        ck.expect(nme in defined, "R2", "defined/" + nme, src, "the C formatter (%s) can emit the type name `%s`, which capi.h.jinja does not define" % (src, nme), "tool/templates/c/capi.h.jinja")

    # ---------------- R3 mirrors
    cft = ft["c"]

    def cmp_shape(key, rust_adt, cfields, expect_names=None, where=None):
        rs = rust_field_shape(rust_adt)
        cs = cdecl.shape(cfields, cft)
        ok = len(rs) == len(cs)
        detail = "rust %s vs C %s" % ([(x[0],) + tuple(x[2:]) if x[0] == "scalar" else x[0] for x in rs], cs)
        if ok:
            for r, c in zip(rs, cs):
                if r[0] == "ptr":
                    ok &= c[0] == "ptr"
                elif r[0] == "fnptr":
                    ok &= c[0] == "fnptr"
                elif r[0] == "scalar":
                    ok &= c[0] == "scalar" and (c[1], c[2]) == (r[2], r[3])
                elif r[0] == "union":
                    ok &= c[0] == "union"
                else:
                    ok = False
        ck.expect(ok and rust_adt["repr_c"], "R3", key, detail, "field kind sequence differs (or type not repr(C)): " + detail, where)
        if ok and expect_names:
            cn = [f["name"] for f in cfields]
            ck.expect(cn == expect_names, "R3", key + "/names", str(cn), "C field names %s, expected %s" % (cn, expect_names), where)

    W = "tool/templates/c/capi.h.jinja"
    if "DiplomatWrite" not in structs:
        ck.bad("R3", "DiplomatWrite", "struct DiplomatWrite not found in capi.h.jinja", W)
    else:
        cmp_shape("DiplomatWrite", rt.adt("write::DiplomatWrite"), structs["DiplomatWrite"], ["context", "buf", "len", "cap", "grow_failed", "flush", "grow"], W)
        # fn pointer signatures
        fl = {f["name"]: f for f in structs["DiplomatWrite"]}
        ck.expect(re.sub(r"\s+", "", fl["grow"]["ret"]) == "bool" and re.sub(r"\s+", "", fl["grow"]["params"]) == "structDiplomatWrite*,size_t", "R3", "DiplomatWrite.grow/sig", "bool(DiplomatWrite*, size_t)", "grow signature is %s(%s)" % (fl["grow"]["ret"], fl["grow"]["params"]), W)
        ck.expect(re.sub(r"\s+", "", fl["flush"]["ret"]) == "void" and re.sub(r"\s+", "", fl["flush"]["params"]) == "structDiplomatWrite*", "R3", "DiplomatWrite.flush/sig", "void(DiplomatWrite*)", "flush signature is %s(%s)" % (fl["flush"]["ret"], fl["flush"]["params"]), W)
    for rust_name, cname, const in (("slices::DiplomatSlice", "DiplomatU16View", True), ("slices::DiplomatSliceMut", "DiplomatU16ViewMut", False), ("slices::DiplomatOwnedSlice", "DiplomatU16Array", None)):
        if cname not in structs:
            ck.bad("R3", cname, "not defined by the macro expansion", W)
            continue
        cmp_shape(rust_name + "<->" + cname, rt.adt(rust_name), structs[cname], ["data", "len"], W)
        p = structs[cname][0]
        ck.expect(p["kind"] == "ptr" and p.get("pointee") == "uint16_t" and (const is None or p.get("const") == const), "R3", cname + "/element", "%s %s" % ("const" if p.get("const") else "mut", p.get("pointee")),
                  "%s.data is `%s`, expected %suint16_t*" % (cname, p.get("ctype"), "const " if const else ""), W)
    # option records: {union{ok}; bool is_ok}
    res = rt.adt("result::DiplomatResult")
    for cname in ("OptionU16", "OptionU16View", "OptionStringView"):
        if cname not in structs:
            ck.bad("R3", cname, "not defined", W)
            continue
        cmp_shape("DiplomatResult<->" + cname, res, structs[cname], None, W)
        ck.expect([f["name"] for f in structs[cname][0]["sub"]] == ["ok"] and structs[cname][1]["name"] == "is_ok", "R3", cname + "/arms", "union{ok}; is_ok", "option record arms %s" % structs[cname], W)
    # Rust layout of the record: flag after the union
    lays = {tuple(l["args"]): l["layout"] for l in res["layouts"]}
    bad_l = [a for a, l in lays.items() if not (l["offsets"][0] == 0 and l["offsets"][1] >= l["fields"][0]["size"])]
    ck.expect(not bad_l and len(lays) >= 200, "R3", "DiplomatResult/layout", "%d instantiations: value at 0, is_ok after the union" % len(lays), "unexpected DiplomatResult layout for %s" % bad_l[:3], C.loc(res))
    ck.expect([f["name"] for f in res["variants"][0]["fields"]] == ["value", "is_ok"], "R3", "DiplomatResult/field-order", "", "DiplomatResult fields are %s" % [f["name"] for f in res["variants"][0]["fields"]], C.loc(res))
    # struct/enum templates' *_option typedefs and gen_result_ty literal
    for rel in ("c/struct.h.jinja", "c/enum.h.jinja"):
        fl = tmpl.flat_file(rel, resolve_includes=False)
        fl = tmpl.strip_stmts(fl)
        m = re.search(r"typedef\s+struct\s+⟦\s*ty_name\s*⟧_option\s*\{(.*?)\}\s*⟦\s*ty_name\s*⟧_option\s*;", fl, re.S)
        okm = False
        if m:
            body = m.group(1).replace("⟦", "").replace("⟧", "")
            fs = cdecl.parse_fields(body)
            okm = len(fs) == 2 and fs[0]["kind"] == "union" and [x["name"] for x in fs[0]["sub"]] == ["ok"] and fs[1].get("ctype") == "bool" and fs[1]["name"] == "is_ok"
        ck.expect(okm, "R3", rel + "/_option", "union{T ok}; bool is_ok", "`{{ty_name}}_option` record in %s is not {union{T ok;}; bool is_ok;}" % rel, "tool/templates/" + rel)
    g = tool.fn("c::ty::TyGenContext::gen_result_ty")
    lits = C.str_lits(C.fn_body(g))
    rec = [s for s in lits if "_result" in s and "typedef" in s]
    uni = [s for s in lits if s.strip().startswith("union")]
    okr = len(rec) == 1 and re.search(r"typedef struct \{fn_name\}_result \{\{\s*\{union_def\}\s*bool is_ok;\s*\}\}", rec[0]) is not None
    oku = len(uni) == 1 and re.match(r"union \{\{\s*\{ok_line\}\s*\{err_line\}\s*\}\};", uni[0]) is not None
    okl = any(re.fullmatch(r"\{\w*\} ok;", s) for s in lits) and any(re.fullmatch(r"\{\w*\} err;", s) for s in lits)
    ck.expect(okr and oku and okl, "R3", "gen_result_ty/record", "struct {union {T ok; E err;}; bool is_ok;}", "the per-method result typedef is no longer {union{ok;err}; bool is_ok;}: %s / %s" % (rec, uni), C.loc(g))
    # callback struct
    impl = tmpl.strip_stmts(tmpl.flat_file("c/impl.h.jinja", resolve_includes=False))
    m = re.search(r"typedef\s+struct\s+⟦[^⟧]*name\s*⟧\s*\{(.*?)\}\s*⟦[^⟧]*name\s*⟧\s*;", impl, re.S)
    okc = False
    if m:
        body = re.sub(r"⟦[^⟧]*⟧", "T", m.group(1))
        fs = cdecl.parse_fields(body)
        cb = rt.adt("callback::DiplomatCallback")
        rs = rust_field_shape(cb)
        okc = [f["kind"] for f in fs] == ["ptr", "fnptr", "fnptr"] and [r[0] for r in rs] == ["ptr", "fnptr", "fnptr"] and [f["name"] for f in fs] == [r[1] for r in rs] and cb["repr_c"]
    ck.expect(okc, "R3", "DiplomatCallback<->impl.h callback struct", "data, run_callback, destructor", "callback struct in impl.h.jinja does not mirror DiplomatCallback {data, run_callback, destructor}", "tool/templates/c/impl.h.jinja")
    # runtime.h prototypes vs runtime exports
    rth = tmpl.flat_file("c/runtime.h.jinja", resolve_includes=False)
    protos = {m.group(2): (m.group(1).strip(), m.group(3)) for m in re.finditer(r"^([\w\* ]+?)\s*\b(diplomat_\w+)\s*\(([^)]*)\)\s*;", rth + "\n" + capi_raw, re.M)}
    for name, (ret, params) in sorted(protos.items()):
        f = next((x for x in rt.fn_list if x.get("name") == name and x.get("no_mangle")), None)
        if not f:
            ck.bad("R3", "runtime.h/" + name, "C header declares %s but the runtime exports no such #[no_mangle] fn" % name, "tool/templates/c/runtime.h.jinja")
            continue
        nparams = 0 if params.strip() in ("", "void") else len(params.split(","))
        ck.expect(nparams == len(f["inputs"]), "R3", "runtime.h/" + name, "%d params" % nparams, "%s has %d parameters in C and %d in Rust" % (name, nparams, len(f["inputs"])), C.loc(f))

    # bridge structs: the C and C++ struct generators declare every field, in order (rule shared with C07 / C08)
    import c07
    c07.field_walk_rules(ck, "R3", facts, {"c", "cpp"})
    c07.trait_vtable_rules(ck, "R3", facts, {"c"})

    # ---------------- R4 argument order
    gm = tool.fn("c::ty::TyGenContext::gen_method")
    body = C.fn_body(gm)
    stmts = body.get("s", []) + ([body["e"]] if body.get("e") else [])
    idx_self = idx_for = idx_write = None
    for i, st in enumerate(stmts):
        # a statement fills the declaration list if it pushes onto it, or hands it (`&mut param_decls`) to a helper that does
        touches = any(x.get("k") == "local" and x.get("n") == "param_decls" for x in C.walk(st)) and \
            any(x.get("k") == "mcall" and x.get("m") in ("push", "extend") for x in C.walk_inl(tool, st, 2, max_nodes=1500))
        if not touches:
            continue
        inner = C.strip(st)
        if inner.get("k") in ("if", "match") and any(x.get("k") == "field" and x.get("n") == "param_self" for x in C.walk(inner.get("c") or inner.get("s") or {})) and idx_self is None:
            idx_self = i
        elif inner.get("k") == "for" and any(x.get("k") == "field" and x.get("n") == "params" for x in C.walk(inner["iter"])):
            idx_for = i
        elif any(re.search(r"\bwrite\b", s_) for x in C.walk_inl(tool, st, 2, max_nodes=1500) for s_ in ([x["v"]] if x.get("k") == "lit" and x.get("t") == "str" else ([x.get("src", "")] if x.get("k") == "macro" else []))):
            idx_write = i
    ck.expect(idx_self is not None and idx_for is not None and idx_write is not None and idx_self < idx_for < idx_write, "R4", "c::gen_method/self<params<write",
              "statements %s < %s < %s" % (idx_self, idx_for, idx_write), "C method generator no longer pushes self, then params, then write (positions %s, %s, %s)" % (idx_self, idx_for, idx_write), C.loc(gm))
    reorder = [x["m"] for x in C.calls_in(body) if x.get("k") == "mcall" and x["m"] in ("reverse", "rev", "sort", "sort_by", "sort_by_key", "sort_unstable", "swap", "rotate_left", "rotate_right", "insert", "swap_remove", "dedup")
               and any(y.get("n") == "param_decls" for y in C.walk(x["recv"]))]
    ck.expect(not reorder, "R4", "c::gen_method/no-reorder", "", "parameter list is reordered by %s" % reorder, C.loc(gm))
    mg = mac.fn("gen_custom_type_method")
    mb = C.fn_body(mg)
    ins = [x for x in C.calls_in(mb) if x.get("k") == "mcall" and x["m"] in ("insert", "reverse", "sort", "sort_by", "swap", "rotate_left", "push") and C.strip(x["recv"]).get("n") == "all_params"]
    ins0 = [x for x in ins if x["m"] == "insert"]
    others = [x["m"] for x in ins if x["m"] not in ("insert", "push")]
    ok_ins = len(ins0) == 1 and C.strip(ins0[0]["a"][0]).get("v") == 0 and not others
    ck.expect(ok_ins, "R4", "macro::gen_custom_type_method/this-first", "all_params.insert(0, this) is the only reordering", "macro parameter list: inserts %s, other reorderings %s" % ([C.strip(x["a"][0]).get("v") for x in ins0], others), C.loc(mg))
    # params pushed in iteration order of m.params, names and types in the same closure
    fe = [x for x in C.calls_in(mb) if x.get("k") == "mcall" and x["m"] in ("for_each",) and any(y.get("n") == "params" for y in C.walk(x["recv"]))]
    ok_fe = False
    if fe:
        pushes = [C.strip(x["recv"]).get("n") for x in C.calls_in(fe[0]["a"][0]) if x.get("k") == "mcall" and x["m"] == "push"]
        ok_fe = "all_params" in pushes and "all_params_names" in pushes and not any(x.get("k") == "mcall" and x["m"] in ("rev",) for x in C.calls_in(fe[0]["recv"]))
    else:
        # a plain `for p in &m.params` loop is equivalent
        for x in C.walk(mb):
            if x.get("k") == "for" and any(y.get("n") == "params" for y in C.walk(x["iter"])):
                pushes = [C.strip(c["recv"]).get("n") for c in C.calls_in(x["body"]) if c.get("k") == "mcall" and c["m"] == "push"]
                ok_fe = ok_fe or ("all_params" in pushes and "all_params_names" in pushes)
    ck.expect(ok_fe, "R4", "macro::gen_custom_type_method/params-in-order", "declaration and call argument lists are filled by one in-order loop over m.params", "macro no longer fills the extern signature and the call arguments from one in-order pass over m.params", C.loc(mg))

    # ---------------- R5 corpus
    allowed_conv = re.compile(r"(core::convert::Into<U>>::into|core::convert::From<\w+>>::from|core::option::Option::ok_or|core::option::Option::map|core::result::Result::map|core::result::Result::map_err|"
                              r"diplomat_runtime::write::DiplomatWrite::flush|into_option|into_converted_option|core::ops::function::FnOnce|core::mem::transmute|core::intrinsics::transmute)")
    n5 = 0
    shapes = {}
    for unit in (facts.ft, facts.example):
        ck.units.append(unit.name + " (macro-generated bodies, MIR)")
        gens = [f for f in unit.fn_list if f.get("exp") == "diplomat::bridge" and f.get("no_mangle")]
        destroy_types = set()
        for f in gens:
            if len(f["inputs"]) == 1 and f["output"] == "()" and re.match(r"^alloc::boxed::Box<", f["inputs"][0]) and not list(MirFn(f).calls()):
                destroy_types.add(re.sub(r"<.*$", "", f["inputs"][0][len("alloc::boxed::Box<"):-1]))
        for f in gens:
            mod = f["path"].rsplit("::", 1)[0] + "::"
            m = MirFn(f)
            ucalls = [(bb, t) for bb, t in m.calls() if (C.mir_callee(t) or "").startswith(mod)]
            if not ucalls and not [1 for _ in m.calls()]:
                continue  # destroy fns (C03.R4)
            n5 += 1
            key = "%s::%s" % (unit.crate, f["name"])
            if len(ucalls) != 1:
                ck.bad("R5", key + "/one-call", "generated fn calls %d user methods (expected exactly one)" % len(ucalls), C.loc(f))
                continue
            ubb, ut = ucalls[0]
            on_all = all(ubb in p for r in m.cfg.returns() for p in m.paths(0, r))
            ck.expect(on_all and m.cfg.returns(), "R5", key + "/one-call", "called once on every path", "the user method is not called on every path", C.loc(f))
            # parameters -> argument positions
            nargs = len(ut["args"])
            okp = nargs == m.argc
            detail = ""
            if okp:
                for i, a in enumerate(ut["args"]):
                    lv = {l for l in sym_leaves(m.sym_op(a)) if l[0] == "arg"}
                    if lv != {("arg", i + 1)}:
                        okp = False
                        detail = "argument %d of the call derives from %s" % (i, sorted(lv))
                    extra = [x[1] for x in sym_walk(m.sym_op(a)) if x[0] == "call" and isinstance(x[1], str) and not allowed_conv.search(x[1]) and not x[1].startswith(mod)]
                    if extra:
                        okp = False
                        detail = "argument %d passes through unexpected call %s" % (i, extra)
            else:
                detail = "call has %d arguments, the extern fn %d parameters" % (nargs, m.argc)
            ck.expect(okp, "R5", key + "/params", "each parameter flows into its own position", "parameter plumbing: " + detail, C.loc(f))
            # return value
            if f["output"] != "()":
                rets = m.sym_local(0)
                calls_in_ret = [x[1] for x in sym_walk(rets) if x[0] == "call" and isinstance(x[1], str)]
                user_in = [c for c in calls_in_ret if c.startswith(mod)]
                extra = [c for c in calls_in_ret if not c.startswith(mod) and not allowed_conv.search(c)]
                ck.expect(len(user_in) >= 1 and not extra, "R5", key + "/return", sym_show(rets)[:120], "return value is %s: not the user method's result through allowed conversions" % sym_show(rets)[:200], C.loc(f))
            shapes[re.sub(r"diplomat_feature_tests::|diplomat_example::|'\w+ ", "", " | ".join(f["inputs"]) + " -> " + f["output"])[:0]] = 1
        # repr(C) of bridge value types
        for p, a in unit.adts.items():
            if a.get("kind") in ("struct", "enum") and "::ffi::" in p and p not in destroy_types and not a.get("exp"):
                fields = sum(len(v["fields"]) for v in a["variants"])
                if a["kind"] == "struct" and fields == 0:
                    continue
                ck.expect(a["repr_c"] or a["repr_transparent"] or a.get("repr_int"), "R5", p + "/repr(C)", "", "bridge type %s crosses the boundary by value but is not repr(C)" % p, C.loc(a))
    if n5 < 180:
        ck.bad("R5", "corpus-floor", "only %d generated method wrappers analysed (floor 180)" % n5)
    # macro source: repr(C) is forced
    gb = mac.fn("gen_bridge")
    srcs = [n.get("src", "") for b_ in C.bodies_inl(mac, C.fn_body(gb), depth=2, exclude=[gb["path"]], max_nodes=8000) for n in C.walk(b_) if n.get("k") == "macro" and n.get("name") in ("parse_quote", "quote")]
    n_repr = sum(1 for s in srcs if re.search(r"#\s*\[\s*repr\s*\(\s*C\s*\)\s*\]", s))
    # the enum template (the one that also derives Clone, Copy) carries the literal attribute: the C/C++/Dart/Kotlin backends declare every bridge enum as a C `int`-sized
    # enum whatever `repr` the user wrote, so the attribute may not depend on one (a second repr is a compile error, which is the safe outcome)
    enum_tpls = [s_ for s_ in srcs if re.search(r"derive\s*\(\s*Clone\s*,\s*Copy\s*\)", s_)]
    ck.expect(bool(enum_tpls) and all(re.search(r"#\s*\[\s*repr\s*\(\s*C\s*\)\s*\]", s_) for s_ in enum_tpls), "R5", "macro::gen_bridge/enum-repr(C)-unconditional", "%d enum templates" % len(enum_tpls),
              "the template that rewrites a bridge enum no longer spells `#[repr(C)]` itself (it is interpolated or dropped): an enum with its own `#[repr(u8)]` compiles with a 1-byte "
              "discriminant while every backend declares it `int`-sized", C.loc(gb))
    ck.expect(n_repr >= 2, "R5", "macro::gen_bridge/forces-repr(C)", "%d repr(C) templates" % n_repr, "gen_bridge no longer adds #[repr(C)] to structs and enums (found %d templates)" % n_repr, C.loc(gb))

    macro_repr_flag_rule(ck, "R5", facts)

    # ---------------- R6 passing mode (gate vs macro vs C backend)
    core = facts.core
    lsp = core.fn("hir::lowering::LoweringContext::lower_self_param")
    arms_seen = {}
    for n in C.walk(C.fn_body(lsp)):
        if n.get("k") == "match" and (n.get("sadt") or "").endswith("ast::types::CustomType"):
            for arm in n["arms"]:
                v = arm["pat"].get("v")
                arm_nodes = list(C.walk_inl(core, arm["b"], 1, exclude=[lsp["path"]], max_nodes=1500))    # the arm, or the per-kind helper it delegates to
                reads_ref = any(x.get("k") == "field" and x.get("n") == "reference" for x in arm_nodes)
                pushes_err = any((C.callee(x) or "").endswith("ErrorStore::push") for x in arm_nodes if x.get("k") in ("call", "mcall"))
                arms_seen[v] = (reads_ref, pushes_err, arm.get("ln"))
    if set(arms_seen) < {"Struct", "Opaque", "Enum"}:
        ck.bad("R6", "lower_self_param/arms", "cannot find the Struct/Opaque/Enum arms of lower_self_param: %s" % sorted(arms_seen), C.loc(lsp))
    else:
        # macro: &self -> pointer; C backend: struct/enum by value => gate must reject references for by-value kinds
        for kind in ("Struct", "Enum"):
            reads_ref, pushes_err, ln = arms_seen[kind]
            ck.expect(reads_ref and pushes_err, "R6", "lower_self_param/%s/&self" % kind, "references to by-value receivers are rejected",
                      "`&self` on a non-opaque %s is accepted by the gate: the macro exports `this: &T` (pointer) while the C header declares `T self` (by value)" % kind.lower(), C.loc(lsp, ln))
        reads_ref, pushes_err, ln = arms_seen["Opaque"]
        ck.expect(reads_ref and pushes_err, "R6", "lower_self_param/Opaque/self", "by-value opaque receivers are rejected", "by-value `self` on an opaque must be rejected", C.loc(lsp, ln))

    # ---------------- R7/R8: clauses shared with C11 and C16 (enum values and NULL+0 slices are part of what C sees)
    import c11
    import c16
    c11.run(C.SubCheck(ck, "R7", "enum values seen by C are rustc's: discriminant inference, HIR copy and the C/C++ enum templates (rules of C11)", {"R3", "R4"}, key_re=r"^(?!.*dart::)"), facts)
    c11.run(C.SubCheck(ck, "R7", "", {"R1"}, key_re=r"^c/|^cpp/"), facts)
    c16.run(C.SubCheck(ck, "R8", "slices and strings cross unchanged, NULL+0 is the empty slice: raw-parts reconstruction rules of the runtime views (rules of C16)", {"R1", "R2"}), facts)


    # an optional slice / primitive / struct parameter is declared as the {payload, is_ok} record the macro compiles (rule of C10.R2: the HIR keeps the DiplomatOption wrapper)
    import c10
    c10.run(C.SubCheck(ck, "R2", "", ["R2"], key_re=r"/wrapper$|opt-wrapper"), facts)
    # ... and the macro leaves a parameter type unconverted only when the type is already the C-compatible one (C10.R3: is_ffi_safe(ffi_safe_version(T)) cells)
    c10.run(C.SubCheck(ck, "R2", "", ["R3"], key_re=r"is_ffi_safe"), facts)

    # the type a C header is named after is the type whose fields it declares (ids are positions in unfiltered vectors; rule shared with C14.R2)
    import c14
    c14.positional_id_rules(ck, "R3", facts)

    # ---------------- R9 clauses shared with C05 and C06 (what C sees must be what the macro exports)
    import c05
    import c06
    sub = C.SubCheck(ck, "R9", "the write parameter is accepted only in last position (the C header always appends it last; shares C05.R4) and every native symbol the C "
                     "header declares is the recorded ABI name, destructors included (shares C06.R2/R3 for the C backend)", ["R4"], key_re=r"write-is-last")
    c05.run(sub, facts)
    sub2 = C.SubCheck(ck, "R9", "", ["R2", "R3"], key_re=r"^c::|^c/")
    c06.run(sub2, facts)

    # ---------------- R10 strings written by Rust arrive whole (clauses of C12 on the runtime writer)
    import c12
    sub3 = C.SubCheck(ck, "R10", "a string Rust writes through DiplomatWrite arrives whole whenever it fits: exact capacity test, bounded copy, len after copy, fixed writer reserves only the NUL byte (rules of C12; every generated writer method flushes)", ["R1", "R4", "R6", "R7"])
    c12.run(sub3, facts)
    # the C result record declares the payloads Rust returns: only zero-field structs are left out of the union (rule of C09.R5 on c::gen_result_ty)
    import c09
    c09.run(C.SubCheck(ck, "R3", "", ["R5"], key_re=r"^c::gen_result_ty/"), facts)

"""C09 — whatever the tool accepts builds (structural clauses: attribute agreement, strip coverage, include pairing, escaping)."""
import json
import os
import re
import common as C
import flow
import tmpl
import tables as T


def lits_compared_with(node, local_name):
    """string literals compared (==) with a local inside node"""
    out = []
    for n in C.walk(node):
        if n.get("k") == "bin" and n.get("op") == "Eq":
            sides = [C.strip(n["l"]), C.strip(n["r"])]
            if any(s.get("k") == "local" and s.get("n") == local_name for s in sides):
                out += [s["v"] for s in sides if s.get("k") == "lit" and s.get("t") == "str"]
    return out


def cpp_struct_field_window(ck, rule, facts):
    """cpp::gen_struct_def raises `generating_struct_fields` only around the field declarations: with the flag still up, types named in method signatures are
    included (complete type) instead of forward declared, and two structs that mention each other (one by value, one in a method) include each other.  Shared with C02."""
    tool = facts.tool
    f = tool.fn("cpp::ty::TyGenContext::gen_struct_def")
    body = C.fn_body(f)
    items = (body.get("s") or []) + ([body["e"]] if body.get("e") is not None else [])
    up = down = None
    for i, st in enumerate(items):
        for x in C.walk(st):
            if x.get("k") == "assign" and C.strip(x["l"]).get("k") == "field" and C.strip(x["l"]).get("n") == "generating_struct_fields":
                v = C.strip(x["r"]).get("v")
                if v is True and up is None:
                    up = i
                if v is False:
                    down = i
    if up is None or down is None:
        ck.bad(rule, "cpp::gen_struct_def/field-phase-flag", "assignments raising and lowering generating_struct_fields not found (up %s, down %s)" % (up, down), C.loc(f))
        return
    inside = [i for i, st in enumerate(items) if up < i < down and any(x.get("k") == "mcall" and x.get("m") in ("gen_method_info",) for x in C.walk_inl(tool, st, 1, exclude=[f["path"]]))]
    meth = [i for i, st in enumerate(items) if any(x.get("k") == "mcall" and x.get("m") == "gen_method_info" for x in C.walk(st))]
    ck.expect(not inside and bool(meth) and all(i > down for i in meth), rule, "cpp::gen_struct_def/methods-after-field-phase", "flag lowered at statement %d, methods generated at %s" % (down, meth),
              "struct methods are generated (statements %s) while generating_struct_fields is still raised (lowered at statement %d): types in method signatures get `#include \"X.d.hpp\"` instead of a "
              "forward declaration, and a struct that holds another by value whose methods mention it back no longer compiles when included first" % (meth, down), C.loc(f))


def _pat_nodes(p):
    st = [p]
    while st:
        x = st.pop()
        if isinstance(x, dict):
            yield x
            st.extend(v for v in x.values() if isinstance(v, (dict, list)))
        elif isinstance(x, list):
            st.extend(x)


def run(ck, facts):
    core, tool, mac = facts.core, facts.tool, facts.macro
    adts = facts.all_adts()
    ck.units += ["diplomat_core.lib+hir (ast)", "diplomat.lib (macro)", "diplomat_tool.lib (c, cpp)"]
    ck.rule("R1", "attribute agreement: every #[diplomat::X] the AST layer gives meaning to is accepted (not panicked on) by the bridge macro")
    ck.rule("R2", "strip coverage: for every syn node kind whose attributes the AST layer reads, the macro extracts (strips) that node's attributes, so rustc never sees diplomat attributes")
    ck.rule("R3", "use => include pairing: every generator arm that names a custom type also records the include / forward declaration for the same id, through the same path formatter that names generated files; C++ relative include paths are computed per path component")
    ck.rule("R6", "callback arguments: every converting arm of the macro's param_conversion converts toward the given FFI type when one is given (callbacks pass values outward), and every C++ "
                  "argument type the cpp backend prints for an accepted callback parameter is one the runtime's fn_traits::replace can build from the C argument")
    ck.rule("R5", "no dangling names in generated files: both payloads of a C result union pass the zero-sized-struct filter before being named; the JS generator removes the "
                  "self-import under the emitted (renamed) type name; every extern fn template of the macro carries the method's #[cfg]")
    ck.rule("R4", "identifier escaping: every emitted C/C++ parameter name passes through fmt_identifier, whose C table covers the C keywords and whose C++ table covers the C++ keywords")
    ck.not_decided += ["that any generated file compiles or parses (needs the compilers)"]

    # ---------------- R1
    accepted = set()
    for f in core.fn_list:
        if not f["path"].startswith("diplomat_core::ast::") or "hir" not in f:
            continue
        for s in C.str_lits(C.fn_body(f)) + C.pattern_str_lits(C.fn_body(f)):
            m = re.fullmatch(r"diplomat ?:: ?(\w+)", s)
            if m:
                accepted.add(m.group(1))
    cfg_f = tool.fn("config::find_top_level_attr")
    for s in C.str_lits(C.fn_body(cfg_f)):
        m = re.fullmatch(r"diplomat ?:: ?(\w+)", s)
        if m:
            accepted.add(m.group(1))
    ck.expect(accepted >= {"attr", "abi_rename", "demo", "rust_link", "out", "opaque", "opaque_mut"}, "R1", "ast/accepted-set", str(sorted(accepted)), "could not find the attribute names the AST accepts: %s" % sorted(accepted), None)
    ex = mac.fn("diplomat::AttributeInfo::extract")
    # classify the attribute names `extract` recognises: literals compared with the path segment (`seg == "x"` chains) and string
    # patterns of a match on the segment's text (`match seg.to_string().as_str() { "x" | "y" => .. }`); those whose branch panics are rejected
    seg_lits = set()
    panicking = set()
    ex_bodies = [C.fn_body(g) for g in C.fns_inl(mac, ex)]    # the classification may live in a helper `extract` calls
    for b_ in ex_bodies:
        seg_lits |= set(lits_compared_with(b_, "seg"))
    for n in (x for b_ in ex_bodies for x in C.walk(b_)):
        if n.get("k") == "if":
            ls = lits_compared_with(n["c"], "seg")
            if ls and C.panic_macro_of(n["t"]):
                panicking |= set(ls)
        # the classifying match: over the segment's text -- recognised by its scrutinee's name or by what it classifies (two or more attribute names among its patterns)
        if n.get("k") == "match" and (any(x.get("k") == "local" and x.get("n") in ("seg", "segment", "name") for x in C.walk(n["s"]))
                                      or len(set(C.pattern_str_lits({"k": "match", "s": {}, "arms": n["arms"]})) & accepted) >= 2):
            for arm in n["arms"]:
                ls = []

                def plits(p_):
                    if isinstance(p_, dict):
                        if p_.get("k") == "lit" and p_.get("t") == "str":
                            ls.append(p_["v"])
                        for q in (p_.get("alts") or []) + ([p_["sub"]] if isinstance(p_.get("sub"), dict) else []):
                            plits(q)
                plits(arm["pat"])
                seg_lits |= set(ls)
                if ls and (C.panic_macro_of(arm["b"]) or C.diverges(arm["b"])):
                    panicking |= set(ls)
    handled = seg_lits - panicking
    for a in sorted(accepted - {"bridge", "config"}):
        ck.expect(a in handled, "R1", "macro-accepts/" + a, "", "the AST gives meaning to #[diplomat::%s] but the bridge macro panics on it (\"Only #[diplomat::opaque] and #[diplomat::rust_link] are supported\")" % a, C.loc(ex))

    # ---------------- R2
    reads = {}
    for f in core.fn_list:
        if not f["path"].startswith("diplomat_core::ast::") or "hir" not in f:
            continue
        for n in C.walk(C.fn_body(f)):
            if n.get("k") not in ("call", "mcall"):
                continue
            cal = C.callee(n) or ""
            if re.search(r"(Attrs::add_attrs|Attrs::from_attrs|Docs::from_attrs|DiplomatStructAttribute::parse|DiplomatTypeAttribute::parse)$", cal) or re.search(r"as core::convert::From<&\[syn::attr::Attribute\]>>::from$", cal):
                for a in n.get("a", []):
                    for x in C.walk(a):
                        if x.get("k") == "field" and x.get("n") == "attrs" and (x.get("bty") or "").replace("&", "").replace("mut ", "").strip().startswith("syn::"):
                            reads.setdefault(x["bty"].replace("&", "").replace("mut ", "").strip(), f["path"])
    strips = set()
    for f in mac.fn_list:
        if "hir" not in f:
            continue
        fdefs_ = None
        for n in C.walk(C.fn_body(f)):
            if n.get("k") == "call" and (C.callee(n) or "").endswith("AttributeInfo::extract"):
                todo_, seen_ = [n["a"][0]], set()
                while todo_:
                    e_ = todo_.pop()
                    for x in C.walk(e_):
                        if x.get("k") == "field" and x.get("n") == "attrs":
                            strips.add((x.get("bty") or "").replace("&", "").replace("mut ", "").strip())
                        elif x.get("k") == "local" and x.get("id") not in seen_:
                            # the attribute list may be picked first (`let attrs = match arg { Receiver(r) => &mut r.attrs, Typed(t) => &mut t.attrs }`)
                            seen_.add(x.get("id"))
                            if fdefs_ is None:
                                fdefs_ = dict(flow.defs_of(f))
                            d_ = fdefs_.get(x.get("id"))
                            if d_ and d_[0] == "expr" and d_[1] is not None:
                                todo_.append(d_[1])
    # ItemMod is read through a local in Module::from_syn: make sure it is in the read set when the macro strips it
    ck.expect(len(reads) >= 9, "R2", "ast/read-kinds", str(sorted(k.split("::")[-1] for k in reads)), "only %d attribute-reading node kinds found in core::ast (9 counted)" % len(reads), None)
    for kind, where in sorted(reads.items()):
        ck.expect(kind in strips, "R2", "stripped/" + kind.split("::")[-1], "", "the AST reads attributes of %s (in %s) but the bridge macro never strips them from that node: rustc will reject `#[diplomat::…]` placed there although the tool accepts it" % (kind, where.split("::", 2)[-1]), None)

    # the expansion compiles for every struct the tool accepts: #[repr(C)] is added exactly when the struct has no `repr` of its own (rule of C01.R5)
    import c01
    c01.macro_repr_flag_rule(ck, "R2", facts)

    # ---------------- R3 include pairing
    def arm_pairs(fn, name_call, include_calls):
        res = []
        for n in C.walk(C.fn_body(fn)):
            if n.get("k") != "match" or not (n.get("sadt") or "").endswith("hir::types::Type"):
                continue
            for arm in n["arms"]:
                inl = list(C.walk_inl(tool, arm["b"], 1, exclude=[fn["path"]]))
                names = [x for x in inl if x.get("k") == "mcall" and x.get("m") == name_call]
                if not names:
                    continue
                incs = [x for x in inl if x.get("k") == "mcall" and x.get("m") in include_calls]
                res.append((arm, names, incs, inl))
        return res

    def arg_local(call, idx=0):
        ids = [(x.get("n"), x.get("id")) for x in C.walk(call["a"][idx]) if x.get("k") == "local"] if call.get("a") else []
        return ids[0] if ids else None
    cg = tool.fn("c::ty::TyGenContext::gen_ty_name")
    pairs = arm_pairs(cg, "fmt_type_name_maybe_namespaced", ("fmt_decl_header_path",))
    ck.expect(len(pairs) >= 4, "R3", "c::gen_ty_name/arms", "%d arms name a custom type" % len(pairs), "only %d arms naming custom types found (4 counted)" % len(pairs), C.loc(cg))
    for arm, names, incs, inl in pairs:
        v = arm["pat"].get("v")
        same = bool(incs) and arg_local(names[0]) == arg_local(incs[0])
        inserted = any(x.get("k") == "mcall" and x.get("m") == "insert" and any(y.get("k") == "field" and y.get("n") == "includes" for y in C.walk(x["recv"])) for x in inl)
        ck.expect(same and inserted, "R3", "c::gen_ty_name/%s" % v, "names and includes the same id", "the %s arm names a custom type without inserting fmt_decl_header_path of the same id into header.includes" % v, C.loc(cg, arm.get("ln")))
    cpg = tool.fn("cpp::ty::TyGenContext::gen_type_name")
    n_cpp = 0
    for n in C.walk(C.fn_body(cpg)):
        if n.get("k") != "match" or not (n.get("sadt") or "").endswith("hir::types::Type"):
            continue
        for arm in n["arms"]:
            v = arm["pat"].get("v")
            if v not in ("Opaque", "Struct", "Enum"):
                continue
            n_cpp += 1
            calls = [x.get("m") for x in C.calls_in(arm["b"]) if x.get("k") == "mcall"]
            ok = "append_forward" in calls and "fmt_impl_header_path" in calls and "insert" in calls
            ck.expect(ok, "R3", "cpp::gen_type_name/%s" % v, "forward + impl include", "the C++ %s arm no longer records a forward declaration and the impl-header include for the named type" % v, C.loc(cpg, arm.get("ln")))
    if n_cpp < 3:
        ck.bad("R3", "cpp::gen_type_name/arms", "only %d custom-type arms found" % n_cpp, C.loc(cpg))
    # file names come from the same formatter functions
    for path, fmts in (("diplomat_tool::c::run", ("fmt_decl_header_path", "fmt_impl_header_path")), ("diplomat_tool::cpp::run", ("fmt_decl_header_path", "fmt_impl_header_path"))):
        f = tool.fn(path)
        calls = {x.get("m") for g_ in C.fns_inl(tool, f, depth=1) for x in C.calls_in(C.fn_body(g_)) if x.get("k") == "mcall"}     # run and the phase functions it is split into
        ck.expect(set(fmts) <= calls and "add_file" in calls, "R3", path.split("::")[-2] + "::run/file-names", str(fmts), "generated file names are no longer produced by %s (includes could name files that are not generated)" % (fmts,), C.loc(f))
    pd = tool.fn("path_diff")
    body = C.fn_body(pd)
    comp_eq = False
    pd_defs = dict(flow.defs_of(pd))

    def is_component(e_):
        # the first part of a `split_once('/')` result: `.0` of it, or the binding in position 0 of a pattern it is destructured with
        e_ = C.strip(e_)
        if e_.get("k") == "field" and e_.get("n") == "0":
            return True
        if e_.get("k") == "local":
            d_ = pd_defs.get(e_.get("id"))
            return bool(d_) and d_[0] == "destructure" and d_[1] is not None and any(x.get("k") == "mcall" and x.get("m") in ("split_once", "split") for x in C.walk(d_[1]))
        return False
    for n in C.walk(body):
        if n.get("k") == "bin" and n.get("op") in ("Eq", "Ne"):
            if is_component(n["l"]) and is_component(n["r"]):
                comp_eq = True
    splits = [x for x in C.calls_in(body) if x.get("k") == "mcall" and x.get("m") in ("split_once", "split") and any(C.strip(a).get("v") == "/" for a in x.get("a", []))]
    charwise = [x.get("m") for x in C.calls_in(body) if x.get("k") == "mcall" and x.get("m") in ("bytes", "chars", "char_indices", "as_bytes")]
    # one `../` per directory level of the including header that is not shared: `"../".repeat(<number of '/' left in the base's directory>)`
    reps = [x for x in C.calls_in(body) if x.get("k") == "mcall" and x.get("m") == "repeat" and "../" in C.str_lits(x["recv"])]
    pd_defs2 = dict(flow.defs_of(pd))

    def counts_levels(e_, depth=0):
        for y in C.walk(e_):
            if y.get("k") == "mcall" and y.get("m") in ("count", "len") and any(z.get("k") == "mcall" and z.get("m") in ("matches", "split", "match_indices") and any(
                    C.strip(a_).get("v") == "/" for a_ in z.get("a") or []) for z in C.walk(y["recv"])):
                return True
            if y.get("k") == "local" and depth < 3:
                d_ = pd_defs2.get(y.get("id"))
                if d_ and d_[0] == "expr" and counts_levels(d_[1], depth + 1):
                    return True
        return False
    ck.expect(len(reps) == 1 and counts_levels(reps[0]["a"][0]), "R3", "cpp::path_diff/one-dotdot-per-level", "\"../\".repeat(levels)",
              "path_diff no longer climbs one `../` per remaining directory level of the including header: a type two namespaces deep includes `../diplomat_runtime.hpp` instead of `../../diplomat_runtime.hpp`", C.loc(pd))
    ck.expect(comp_eq and len(splits) >= 2 and not charwise, "R3", "cpp::path_diff/component-wise", "compares '/'-separated components",
              "path_diff no longer matches the common prefix per '/'-separated component (%s): namespaces sharing leading characters (icu / icu4x) produce include paths to files that do not exist" % (charwise or "no component comparison"), C.loc(pd))

    # ---------------- R4 escaping
    cm = tool.fn("c::ty::TyGenContext::gen_method")
    on_path = False
    for n in C.walk(C.fn_body(cm)):
        if n.get("k") == "letst" and n["pat"].get("n") == "params":
            on_path = any(x.get("k") == "mcall" and x.get("m") == "fmt_identifier" for x in C.walk_inl(tool, n["init"], 2, exclude=[cm["path"]]))
    ck.expect(on_path, "R4", "c::gen_method/escape-on-path", "", "C parameter names are no longer passed through fmt_identifier", C.loc(cm))
    cf = tool.fn("cpp::formatter::Cpp2Formatter::fmt_param_name")
    ck.expect(any(x.get("k") == "mcall" and x.get("m") == "fmt_identifier" for x in C.calls_in(C.fn_body(cf))), "R4", "cpp::fmt_param_name/escape", "", "C++ parameter names are no longer escaped with fmt_identifier", C.loc(cf))
    kw = json.load(open(os.path.join(C.VERIF, "spec", "keywords.json")))
    fi = tool.fn("c::formatter::CFormatter::fmt_identifier")
    # the keyword tables: the statics fmt_identifier names (wherever they are declared), and the statics those are built from
    all_st = {s["path"]: s for s in tool.data.get("statics", [])}
    st, todo_ = {}, [C.fn_body(fi)]
    while todo_:
        for x in C.walk(todo_.pop()):
            if x.get("k") == "def" and x.get("p") in all_st and x["p"].split("::")[-1] not in st:
                st[x["p"].split("::")[-1]] = all_st[x["p"]]
                todo_.append(all_st[x["p"]]["hir"]["body"])

    def table_words(name, seen=()):
        s_ = st[name]
        words = set(C.str_lits(s_["hir"]["body"]))
        for x in C.walk(s_["hir"]["body"]):
            if x.get("k") == "def":
                other = (x.get("p") or "").split("::")[-1]
                if other in st and other != name and other not in seen:
                    words |= table_words(other, seen + (name,))
        return words
    # which table is consulted for C and which for C++
    used = [x.get("p", "").split("::")[-1] for x in C.walk(C.fn_body(fi)) if x.get("k") == "def" and (x.get("p") or "").split("::")[-1] in st]
    c_tab = cpp_tab = None
    for n in C.walk(C.fn_body(fi)):
        if n.get("k") == "if" and C.strip(n["c"]).get("k") == "field" and C.strip(n["c"]).get("n") == "is_for_cpp" and n.get("e"):
            t_names = [x.get("p", "").split("::")[-1] for x in C.walk(n["t"]) if x.get("k") == "def" and x.get("p", "").split("::")[-1] in st]
            e_names = [x.get("p", "").split("::")[-1] for x in C.walk(n["e"]) if x.get("k") == "def" and x.get("p", "").split("::")[-1] in st]
            if t_names and e_names:
                cpp_tab, c_tab = t_names[0], e_names[0]
    if c_tab is None and len(set(used)) == 1:
        c_tab = cpp_tab = used[0]
    if c_tab is None or cpp_tab is None:
        ck.bad("R4", "fmt_identifier/tables", "cannot determine which keyword table fmt_identifier consults (tables: %s)" % sorted(st), C.loc(fi))
    else:
        cset = table_words(c_tab)
        cppset = table_words(cpp_tab)
        miss_c = sorted(set(kw["c"]) - cset)
        miss_cpp = sorted((set(kw["cpp"]) | set(kw["cpp20"])) - cppset)     # the generated C++ must compile as C++17 and as C++20
        ck.expect(not miss_c, "R4", "fmt_identifier/C-keywords", "table %s: %d words, all %d C11 keywords covered" % (c_tab, len(cset), len(kw["c"])),
                  "in C mode fmt_identifier consults %s, which misses the C keywords %s: a parameter with such a name yields a header that is not valid C" % (c_tab, miss_c), C.loc(fi))
        ck.expect(not miss_cpp, "R4", "fmt_identifier/C++-keywords", "table %s: %d words" % (cpp_tab, len(cppset)), "in C++ mode fmt_identifier consults %s, which misses %s" % (cpp_tab, miss_cpp), C.loc(fi))
        esc = any(re.fullmatch(r"\{[\w.]+\}_", C.macro_fmt_canon(x) or "") for x in C.walk(C.fn_body(fi)) if x.get("k") == "macro")
        ck.expect(esc, "R4", "fmt_identifier/escape-form", "{name}_", "reserved words are no longer escaped by appending an underscore", C.loc(fi))


    # ---------------- R5 sibling agreement / dangling names
    # (a) C result union: ok and err payloads are treated alike, and zero-field structs (which have no C definition) never become members
    grt = tool.fn("c::ty::TyGenContext::gen_result_ty")
    gb = C.fn_body(grt)
    rebound = {}
    for n in C.walk(gb):
        if n.get("k") == "letst" and isinstance(n.get("pat"), dict) and n["pat"].get("k") == "bind" and n["pat"].get("n") in ("ok_ty", "err_ty"):
            rebound.setdefault(n["pat"]["n"], set()).add(n["pat"].get("id"))
    closures = {}
    for n in C.walk(gb):
        if n.get("k") == "letst" and isinstance(n.get("pat"), dict) and n["pat"].get("k") == "bind" and n.get("init") and C.strip(n["init"]).get("k") == "closure":
            closures[n["pat"].get("id")] = C.strip(n["init"])
    param_ids = {p_.get("n"): p_.get("id") for p_ in (grt["hir"].get("params") or []) if isinstance(p_, dict) and p_.get("k") == "bind"}
    for name in ("ok_ty", "err_ty"):
        if name in param_ids:       # the parameter itself, whatever later bindings reuse its name
            is_param = lambda x, i_=param_ids[name]: x.get("k") == "local" and x.get("id") == i_
        else:
            is_param = lambda x: x.get("k") == "local" and x.get("n") == name and x.get("id") not in rebound.get(name, set())
        uses = [x for x in C.walk(gb) if is_param(x)]
        filt = []
        for n in C.walk(gb):
            if n.get("k") == "mcall" and n.get("m") == "filter" and is_param(C.strip(n["recv"])):
                pred = C.strip(n["a"][0])
                if pred.get("k") == "local":
                    pred = closures.get(pred.get("id"), pred)
                nodes_ = list(C.walk_inl(tool, pred, 2))
                is_zst_test = lambda x: x.get("k") == "mcall" and x.get("m") == "is_empty" and any(y.get("k") == "field" and y.get("n") == "fields" for y in C.walk(x["recv"]))
                zst = any(is_zst_test(x) for x in nodes_)
                # every kind of struct definition is asked for its fields: no arm of the match over the resolved definition answers with a constant
                for mt_ in (x for x in nodes_ if x.get("k") == "match" and (x.get("sadt") or "").endswith("ReturnableStructDef")):
                    for arm_ in mt_["arms"]:
                        if C.diverges(arm_["b"]) or (arm_["pat"].get("k") in ("wild",) ):
                            continue
                        b_ = C.strip(arm_["b"])
                        if not (b_.get("k") == "un" and b_.get("op") == "Not" and is_zst_test(C.strip(b_["e"]))):
                            zst = False
                filt.append(zst)
        ok_ = filt == [True] and len(uses) == 1
        ck.expect(ok_, "R5", "c::gen_result_ty/%s-filtered" % name, "parameter used once, as receiver of the zero-field-struct filter",
                  "the `%s` payload of the result union is used %d times unfiltered / filtered %s: a zero-field struct (which gets no C definition) can become a union member, the header names an undefined type" % (name, len(uses), filt), C.loc(grt))
    # (b) JS: the import removed for the file being generated is keyed by the emitted type name
    jr = tool.fn("js::run")
    defs = flow.defs_of(jr)
    nrm = 0
    for n in C.walk(C.fn_body(jr)):
        if n.get("k") == "mcall" and n.get("m") == "remove_import" and n.get("a"):
            nrm += 1
            leaves = set(flow.trace(n["a"][0], defs))
            for mnode in C.walk(n["a"][0]):
                if mnode.get("k") == "macro" and mnode.get("name") == "format":
                    for y in C.walk(mnode):
                        if y.get("k") == "field" and "TyGenContext" in (y.get("bty") or ""):
                            leaves.add(("field", y["n"], y.get("bty")))
                        if y.get("k") == "mcall" and y.get("m") in ("name", "as_str") and "TypeDef" in (y.get("rty") or ""):
                            leaves.add(("call", y.get("p") or "name"))
                        if y.get("k") == "local" and y.get("n") not in ("args", "context") and not str(y.get("n")).startswith("arg"):
                            leaves |= set(flow.trace(y, defs))
            flds = sorted({l[1] for l in leaves if l[0] == "field"})
            calls = sorted({l[1].split("::")[-1] for l in leaves if l[0] == "call"})
            ck.expect(flds == ["type_name"] and "name" not in calls, "R5", "js::run/remove_import#%d" % nrm, "keyed by context.type_name",
                      "the self-import is removed under a name derived from %s %s instead of the emitted `context.type_name`: a type renamed for JS keeps an import of itself (duplicate declaration)" % (flds, calls), C.loc(jr, n.get("ln")))
    if nrm < 2:
        ck.bad("R5", "js::run/remove_import-floor", "expected 2 self-import removals (type and `_obj`), found %d" % nrm, C.loc(jr))
    # (c) macro: every template that defines an extern "C" fn carries #[no_mangle] and the method's #cfg
    mac = facts.macro
    nt = 0
    for f in mac.fn_list:
        if "hir" not in f:
            continue
        for n in C.walk(C.fn_body(f)):
            if n.get("k") == "macro" and n.get("name") in ("parse_quote", "quote"):
                src = n.get("src", "")
                if re.search(r'extern\s*"C"\s*fn\s*#', src):
                    nt += 1
                    flat_src = re.sub(r"\s+", " ", src)
                    has_nm = re.search(r"#\s*\[\s*no_mangle\s*\]", flat_src) is not None
                    has_cfg = re.search(r"#\s*cfg\b", flat_src) is not None
                    needs_cfg = any(x.get("k") == "local" and x.get("n") == "cfg" for x in C.walk(C.fn_body(f))) or "cfg" in [p_.get("n") for p_ in f.get("params", []) if isinstance(p_, dict)]
                    key = "%s/extern-template#%d" % (f["name"], sum(1 for i in ck.instances if i["rule"] == "R5" and i["key"].startswith(f["name"] + "/extern-template")))
                    ck.expect(has_nm and (has_cfg or not needs_cfg), "R5", key, "#[no_mangle]%s" % (" #cfg" if has_cfg else ""),
                              "an extern \"C\" fn template in %s lacks %s: the shim is emitted even when the method it calls is compiled out by #[cfg] (or is mangled)" % (f["name"], "#cfg" if has_nm else "#[no_mangle]"), C.loc(f, n.get("ln")))
    if nt < 3:
        ck.bad("R5", "macro/extern-template-floor", "only %d extern fn templates found in the macro (3 counted)" % nt)


    # ---------------- R3 (cont.) the two header-path formatters of a backend build a type's `.d.h(pp)` and `.h(pp)` paths the same way (same directory from the
    # namespace, same file stem): the impl header includes the decl header by the stem, and generated files are written under the one and included under the other
    def path_recipe(fn_):
        ops, fmts = [], []
        for x in C.walk_inl(tool, C.fn_body(fn_), 2, exclude=[fn_["path"]]):
            if x.get("k") == "mcall" and x.get("m") not in ("into", "as_str", "as_ref", "clone", "to_string", "to_owned", "unwrap", "deref"):
                ops.append((x["m"], tuple(re.sub(r"\.d(?=\.h(pp)?$)", "", l_) for a_ in x.get("a") or [] for l_ in C.str_lits(a_))))
            elif x.get("k") == "macro" and x.get("name") == "format":
                fmts.append(re.sub(r"\.d(?=\.h(pp)?$)", "", re.sub(r"\{[^{}]*\}", "{}", C.macro_fmt_canon(x) or "")))
        return sorted(ops), sorted(fmts)
    for mod_ in ("cpp::formatter::Cpp2Formatter", "c::formatter::CFormatter"):
        fd_, fi_ = tool.fn(mod_ + "::fmt_decl_header_path", optional=True), tool.fn(mod_ + "::fmt_impl_header_path", optional=True)
        if fd_ is None or fi_ is None:
            ck.bad("R3", "%s/header-path-siblings" % mod_.split("::")[0], "fmt_decl_header_path / fmt_impl_header_path not found", None)
            continue
        rd_, ri_ = path_recipe(fd_), path_recipe(fi_)
        ck.expect(rd_ == ri_, "R3", "%s/header-path-siblings" % mod_.split("::")[0], "same recipe up to the `.d` infix", "fmt_decl_header_path and fmt_impl_header_path build their paths differently "
                  "(decl: %s / impl: %s): for some types (nested namespaces, renamed types) `X.d.hpp` is written to another directory than the one `X.hpp` includes it from" %
                  ([o for o in rd_[0] if o not in ri_[0]] + [f_ for f_ in rd_[1] if f_ not in ri_[1]], [o for o in ri_[0] if o not in rd_[0]] + [f_ for f_ in ri_[1] if f_ not in rd_[1]]), C.loc(fd_))

    # ---------------- R3 (cont.) a forward declaration is removed from the table of the type's own namespace only (append_forward files it under `attrs().namespace`;
    # rm_forward, used to drop a header's forward of itself, looks it up under the same key): sweeping every namespace also deletes the forward of a same-named type elsewhere
    rmf = tool.fn("cpp::header::Header::rm_forward", optional=True)
    if rmf is None:
        ck.bad("R3", "cpp::rm_forward/anchor", "Header::rm_forward not found", None)
    else:
        calls_ = [x.get("m") for x in C.walk(C.fn_body(rmf)) if x.get("k") == "mcall"]
        sweep = sorted(set(calls_) & {"retain", "values_mut", "iter_mut", "for_each", "drain", "clear", "retain_mut"}) + (["for"] if any(x.get("k") == "for" for x in C.walk(C.fn_body(rmf))) else [])
        keyed = any(x.get("k") == "mcall" and x.get("m") in ("get_mut", "entry", "get") and any(y.get("k") == "field" and y.get("n") == "forwards" for y in C.walk(x["recv"])) and
                    any(y.get("k") in ("field", "local") and "namespace" in (y.get("n") or "") or (y.get("k") == "local") for a_ in x.get("a") or [] for y in C.walk(a_)) for x in C.walk(C.fn_body(rmf)))
        ck.expect(keyed and not sweep, "R3", "cpp::rm_forward/own-namespace-only", "forwards.get_mut(namespace)", "Header::rm_forward goes through every namespace's table (%s) instead of the one the type "
                  "lives in: a header that mentions a same-named type of another namespace loses that forward declaration and does not compile" % (sweep or "no keyed lookup"), C.loc(rmf))

    # ---------------- R6 (receivers) the receiver the macro writes for a trait-method wrapper is the trait's: wherever the macro takes SelfParam.reference
    # (lifetime, mutability) apart, both parts are named and used (`&mut self` written as `&self` makes the generated `impl Trait for ..` differ from the trait: E0053)
    mac_ = facts.macro
    nrecv = 0
    for f_ in mac_.fn_list:
        if "hir" not in f_ or f_.get("dk") == "Closure":
            continue
        for x in C.walk(C.fn_body(f_)):
            tests = []
            if x.get("k") == "if" and C.strip_keep_macro(x["c"]).get("k") == "let":
                c_ = C.strip_keep_macro(x["c"])
                tests.append((c_.get("pat"), c_.get("init"), x["t"]))
            elif x.get("k") == "match":
                for arm in x["arms"]:
                    tests.append((arm["pat"], x["s"], arm["b"]))
            elif x.get("k") == "letst" and x.get("els") is not None and x.get("init") is not None:
                tests.append((x.get("pat"), x["init"], C.fn_body(f_)))     # let-else: the bindings live to the end of the enclosing block
            for pat, init, body_ in tests:
                if not (isinstance(init, dict) and any(y.get("k") == "field" and y.get("n") == "reference" and "SelfParam" in (y.get("bty") or "") for y in C.walk(init))):
                    continue
                tups = [p_ for p_ in [pat] + list(_pat_nodes(pat)) if isinstance(p_, dict) and p_.get("k") == "tuple" and len(p_.get("sub") or []) == 2]
                if not tups:
                    continue
                nrecv += 1
                used = {lid for _, lid in C.free_locals(body_)} | {y.get("id") for y in C.walk(body_) if y.get("k") == "local"}
                parts = []
                for sub in tups[0]["sub"]:
                    b_ = sub
                    while isinstance(b_, dict) and b_.get("k") == "ref":
                        b_ = b_.get("sub")
                    parts.append(isinstance(b_, dict) and b_.get("k") == "bind" and b_.get("id") in used)
                ck.expect(all(parts), "R6", "macro::%s/receiver-keeps-lifetime-and-mutability" % f_["name"], "", "the macro takes `SelfParam.reference` apart in %s but does not use its %s: "
                          "the receiver it writes (`&self` for a `&mut self` trait method) no longer matches the trait the wrapper implements, and the expansion does not compile" %
                          (f_["name"], "mutability" if parts and parts[0] else "lifetime"), C.loc(f_, x.get("ln")))
    if nrecv < 1:
        ck.bad("R6", "macro/receiver-sites-floor", "no site taking SelfParam.reference apart found in the macro (1 counted: gen_custom_trait_impl)")

    # ---------------- R6 callback arguments
    # (a) macro: direction of the conversion
    pc = facts.macro.fn("param_conversion")
    mt = next((n for n in C.walk(C.fn_body(pc)) if n.get("k") == "match" and (n.get("sadt") or "").endswith("ast::types::TypeName")), None)
    if not mt:
        ck.bad("R6", "macro::param_conversion/anchor", "match on TypeName not found", C.loc(pc))
    else:
        na = 0
        for arm in mt["arms"]:
            pv = arm["pat"]
            names = sorted({(v or "").split("::")[-1] for v in [pv.get("v")] + [a_.get("v") for a_ in (pv.get("alts") or [])] if v})
            if "Function" in names:
                continue
            # the arm's own body, or the body of the helper it delegates to: the unit that holds the annotated template must itself consult cast_to
            holders = [b_ for b_ in C.bodies_inl(facts.macro, arm["b"], exclude=[pc["path"]])
                       if any(m_.get("k") == "macro" and m_.get("name") in ("quote", "parse_quote") and re.search(r"let\s+#name\s*:", m_.get("src", "")) for m_ in C.walk(b_))]
            if not holders:
                continue
            na += 1
            uses_cast = all(any(x.get("k") == "local" and x.get("n") == "cast_to" for x in C.walk(b_)) for b_ in holders)
            ck.expect(uses_cast, "R6", "macro::param_conversion/%s/uses-cast_to" % "+".join(names), "annotated conversion depends on cast_to",
                      "the %s arm annotates its conversion with a fixed (incoming-direction) type and ignores `cast_to`: for a callback argument the Rust value is handed to the "
                      "foreign function pointer unconverted (E0308 in the macro expansion)" % "+".join(names), C.loc(pc, arm.get("ln")))
            # ... and it is emitted whenever the whole parameter type is not FFI-safe: never nested under a test of a *part* of the type
            # (`Option<u8>`: the payload is FFI-safe, the Option is not)
            # parts of the type: what the arm's pattern binds (`TypeName::Option(inner, ..)`), followed into the parameters of a helper the arm hands them to
            part_by_body = {id(arm["b"]): set(C.pat_bind_ids(arm["pat"]) or [])}
            for c_ in C.walk(arm["b"]):
                if c_.get("k") in ("call", "mcall"):
                    g_ = next((h for h in facts.macro.fn_list if "hir" in h and C.norm_path(h["path"]) == C.norm_path(c_.get("p") or C.callee(c_) or "")), None)
                    if g_ is None:
                        continue
                    args_ = ([c_["recv"]] + list(c_.get("a") or [])) if c_.get("k") == "mcall" else list(c_.get("a") or [])
                    ps_ = [p_.get("id") if isinstance(p_, dict) else None for p_ in (g_["hir"].get("params") or [])]
                    for i_, a_ in enumerate(args_):
                        if i_ < len(ps_) and any(y.get("k") == "local" and y.get("id") in part_by_body[id(arm["b"])] for y in C.walk(a_)):
                            part_by_body.setdefault(id(C.fn_body(g_)), set()).add(ps_[i_])
            for b_ in holders:
                parts_ = part_by_body.get(id(b_), set())
                for m_, st_ in C.with_conditions(b_):
                    if not (m_.get("k") == "macro" and m_.get("name") in ("quote", "parse_quote") and re.search(r"let\s+#name\s*:", m_.get("src", ""))):
                        continue
                    other = []
                    for ent in st_:
                        # the condition itself: an `if` test, a match scrutinee or an arm guard (not the whole match, whose other arms are other paths)
                        c_ = ent[1] if ent[0] in ("if", "guard") else (ent[1].get("s") if ent[0] == "arm" else None)
                        for c_ in ([c_] if isinstance(c_, dict) else []):
                            for y in C.walk(c_):
                                if y.get("k") == "mcall" and y.get("m") == "is_ffi_safe":
                                    r_ = C.strip(y["recv"])
                                    while r_.get("k") in ("addr", "deref"):
                                        r_ = C.strip(r_["e"])
                                    if r_.get("k") == "local" and r_.get("id") in parts_:
                                        other.append(r_.get("n") or r_.get("k"))
                    ck.expect(not other, "R6", "macro::param_conversion/%s/conversion-under-whole-type-test" % "+".join(names), "",
                              "the %s arm emits its annotated conversion only when `%s.is_ffi_safe()` fails, a test of a part of the type: a parameter whose part is FFI-safe but which is "
                              "not itself (Option<u8>) is handed over unconverted (E0308 in the macro expansion)" % ("+".join(names), ", ".join(map(str, other))), C.loc(pc, m_.get("ln")))
        if na < 2:
            ck.bad("R6", "macro::param_conversion/floor", "only %d annotated converting arms found (2 counted: slices/Result, Option)" % na, C.loc(pc))
    # (b) C++: argument wrappers vs fn_traits::replace
    import c05
    if not c05.LAST_TABLE:
        c05.run(C.SubCheck(ck, "R6", "", []), facts)
    tab = c05.LAST_TABLE

    def accepted(pred):
        return sorted(sh for (sh, pos, pn), v in tab.items() if pos == "cbparam" and pn == "all" and pred(sh) and (v == "accept"))
    rth = C.read_repo("tool/templates/cpp/runtime.hpp.jinja")
    i0 = rth.find("struct as_ffi")
    i1 = rth.find("fn_traits(T) -> fn_traits<T>")
    region = rth[i0:i1] if i0 >= 0 and i1 > i0 else ""
    ck.expect(bool(region), "R6", "cpp/fn_traits/anchor", "", "fn_traits region not found in runtime.hpp.jinja", "tool/templates/cpp/runtime.hpp.jinja")
    cf = [f for f in tool.fn_list if "::cpp::formatter::" in f["path"] and "hir" in f]
    fmt_lits = " ".join(l for f in cf for l in C.str_lits(C.fn_body(f)) + [m_.get("src", "") for m_ in C.walk(C.fn_body(f)) if m_.get("k") == "macro"])
    wrappers = [
        ("std::optional", lambda sh: sh.startswith("opt(") and not sh.startswith("opt(ref(") and not sh.startswith("opt(box("), "Option<primitive/enum/struct>"),
        ("diplomat::span", lambda sh: sh.startswith("pslice:borrowed"), "&[primitive]"),
        ("std::u16string_view", lambda sh: sh.startswith("str:borrowed"), "&DiplomatStr16"),
        ("std::string_view", lambda sh: sh.startswith("str:borrowed"), "&str / &DiplomatStr"),
    ]
    for w, pred, human in wrappers:
        acc = accepted(pred)
        printed = w in fmt_lits
        handled = w in region
        if not acc or not printed:
            ck.ok("R6", "cpp-callback-arg/" + w, "not accepted as a callback parameter or not printed by the formatter")
            continue
        ck.expect(handled, "R6", "cpp-callback-arg/" + w, "fn_traits handles " + w,
                  "the gate accepts %s as a callback parameter (%s) and the C++ backend declares the std::function argument as %s<..>, but fn_traits::replace / replace_fn_t have no case for "
                  "it: the generated header does not compile" % (human, acc[:2], w), "tool/templates/cpp/runtime.hpp.jinja")

    # ---------------- R3 (cont.) a type is never named against a throw-away header (its include would be lost)
    nty = 0
    for f in tool.fn_list:
        if "hir" not in f or not re.search(r"^diplomat_tool::c::", f["path"]) or f.get("exp"):   # the C backend builds the header it names types against; C++ only borrows C type names for expressions
            continue
        for n in C.walk(C.fn_body(f)):
            if n.get("k") == "mcall" and n.get("m") in ("gen_ty_name", "gen_type_name", "gen_result_ty", "gen_struct_name") and len(n.get("a", [])) >= 2:
                nty += 1
                fresh = [C.callee(y) or y.get("m") for a in n["a"] for y in C.walk(a) if y.get("k") in ("call", "mcall", "struct") and
                         (re.search(r"::header::Header$", (y.get("ty") or y.get("adt") or "")) is not None or re.search(r"Header::(new|default)$", C.callee(y) or "") is not None)]
                if fresh:
                    ck.bad("R3", "%s/%s-into-fresh-header" % (C.norm_path(f["path"]).replace("diplomat_tool::", ""), n["m"]),
                           "a type is named with `%s` against a freshly constructed header (%s): the include / forward declaration recorded for it is thrown away, so the generated header uses a type it never declares" % (n["m"], fresh[0]), C.loc(f, n.get("ln")))
    ck.expect(nty >= 4, "R3", "c+cpp/type-naming-sites", "%d naming calls pass the caller's header" % nty, "only %d type-naming calls with a header argument found in the C/C++ backends" % nty)

    # ---------------- R5 (cont.) Send and Sync are emitted independently of each other
    gbf = mac.fn("gen_bridge")
    marker = {}
    for n, st in C.with_conditions_inl(mac, C.fn_body(gbf)):
        if n.get("k") == "macro" and n.get("name") in ("parse_quote", "quote"):
            mm = re.search(r"unsafe\s+impl\s+std\s*::\s*marker\s*::\s*(Send|Sync)\s+for", n.get("src", ""))
            if not mm:
                continue
            flags = []
            for kind, a, b in st:
                if kind == "if":
                    fl = sorted({y["n"] for y in C.walk(a) if y.get("k") == "field" and y["n"] in ("is_send", "is_sync")})
                    if fl:
                        flags.append((tuple(fl), b))
            marker[mm.group(1)] = flags
    ck.expect(marker.get("Send") == [(("is_send",), "t")] and marker.get("Sync") == [(("is_sync",), "t")], "R5", "macro::gen_bridge/send-sync-independent", str(marker),
              "the `unsafe impl Send/Sync` items for a trait wrapper are emitted under %s (expected: Send iff is_send, Sync iff is_sync): a trait declared with both bounds "
              "loses one of them and the expansion no longer type-checks where that bound is required" % marker, C.loc(gbf))

    # ---------------- R7 C++ const-correctness the templates rely on, and the field/method phases of the struct generator
    ck.rule("R7", "C++ members the hard-coded `const` comparison operators call are const themselves: a method whose self is a shared borrow or a by-value (consuming) struct/enum is declared "
                  "`const`; while struct methods are generated the field phase (by-value types need complete definitions, so includes instead of forward declarations) is over")
    import exprval
    gmi = tool.fn("cpp::ty::TyGenContext::gen_method_info")
    conds = []
    for b_ in C.bodies_inl(tool, C.fn_body(gmi), depth=1, exclude=[gmi["path"]]):
        for n in C.walk(b_):
            if n.get("k") == "match":
                for a_ in n["arms"]:
                    if a_.get("g") is not None and any(l_ == "const" for l_ in C.str_lits(a_["b"])):
                        conds.append((a_["g"], n.get("ln")))
            elif n.get("k") == "if" and any(l_ == "const" for l_ in C.str_lits(n["t"])) and C.strip_keep_macro(n["c"]).get("k") != "let":
                conds.append((n["c"], n.get("ln")))
    if not conds:
        ck.bad("R7", "cpp::gen_method_info/const-qualifier", "no condition selecting the `const` qualifier found (anchor lost)", C.loc(gmi))
    for c_, ln_ in conds:
        res = {}
        for nm, env in (("&self", {"()is_immutably_borrowed": True, "()is_consuming": False}), ("self", {"()is_immutably_borrowed": False, "()is_consuming": True}),
                        ("&mut self", {"()is_immutably_borrowed": False, "()is_consuming": False})):
            try:
                res[nm] = bool(exprval.bev(c_, env))
            except exprval.Unknown as e_:
                res[nm] = "unknown: %s" % e_
        ck.expect(res == {"&self": True, "self": True, "&mut self": False}, "R7", "cpp::gen_method_info/const-qualifier", str(res),
                  "the `const` qualifier is chosen as %s (expected for `&self` and by-value `self`, not for `&mut self`): the comparison operators of a struct or enum are hard-coded `const` in "
                  "method_impl.h.jinja and call the by-value-self comparator, so the header no longer compiles" % res, C.loc(gmi, ln_))
    ops = re.findall(r"operator(==|!=|<=|>=|<|>)\(const [^)]*\) const", C.read_repo("tool/templates/cpp/method_impl.h.jinja"))
    ck.expect(len(ops) >= 6, "R7", "cpp/method_impl.h/const-comparison-operators", "%d const operators" % len(ops), "the comparison operators are no longer the 6 hard-coded const members this rule pairs the qualifier with (%d found)" % len(ops), "tool/templates/cpp/method_impl.h.jinja")
    cpp_struct_field_window(ck, "R7", facts)
    # a generated JS enum module parses for every discriminant, negative ones included (computed keys; rule of C11.R1)
    import c11
    c11.run(C.SubCheck(ck, "R5", "", ["R1"], key_re=r"js/enum\.js\.jinja/computed"), facts)
    # the C names the C++ headers mention (the embedded capi declarations are printed by the C backend) are produced by the C formatter itself: every `fmt_c_*` function of the
    # C++ formatter delegates to CFormatter and builds nothing of its own
    nfc = 0
    for f in tool.fn_list:
        if "hir" not in f or not re.search(r"^diplomat_tool::cpp::formatter::.*::fmt_c_\w+$", C.norm_path(f["path"])):
            continue
        nfc += 1
        calls_ = [C.callee(x) or "" for x in C.calls_in(C.fn_body(f))]
        own = [m_.get("name") for m_ in C.walk(C.fn_body(f)) if m_.get("k") == "macro" and m_.get("name") in ("format", "write", "concat")]
        ck.expect(any("::c::formatter::CFormatter" in c_ for c_ in calls_) and not own, "R7", "cpp::formatter::%s/delegates-to-c-formatter" % f["name"], "",
                  "%s builds the C name itself (%s) instead of asking the C formatter that printed the declaration: with a C++-only rename the header refers to a C enumerator / type that the embedded "
                  "capi block does not declare" % (f["name"], own or "no CFormatter call"), C.loc(f))
    if nfc < 3:
        ck.bad("R7", "cpp::formatter/fmt_c-floor", "only %d fmt_c_* functions found in the C++ formatter (3 counted)" % nfc)
    # a C++ impl header pulls in its own declaration header before the headers of the types it uses (with mutually referring types the other order finds the type incomplete)
    bh = tmpl.flat_file("cpp/base.h.jinja", resolve_includes=False)
    i_own, i_dep = bh.find("decl_include"), bh.find("for include in includes")
    ck.expect(0 <= i_own < i_dep, "R7", "cpp/base.h.jinja/own-declaration-first", "decl_include before the includes loop",
              "the C++ header template includes the types it uses before its own `.d.hpp` (positions %d / %d): for cyclic references the other header is entered while this type is still undeclared" % (i_own, i_dep), "tool/templates/cpp/base.h.jinja")
    # the extern "C" fn the macro emits takes its lifetime generics (and their bounds) from the method's LifetimeEnv: bounds written in a `where` clause
    # must be in it, or the expansion fails borrow checking (shares C05.R4)
    import c05
    c05.parse_rules(C.SubCheck(ck, "R7", "", ["R4w"]), "R3w", "R4w", facts)

    # ---------------- R3 (cont.) include guards are derived from the whole relative path (two files of the same name in different directories get different guards)
    ng = 0
    for f in tool.fn_list:
        if "hir" not in f or not re.search(r"::(c|cpp)::header::", f["path"]) or not f["path"].endswith("::fmt"):
            continue
        defs_ = flow.defs_of(f)
        guard_inits = [(n, n["init"]) for n in C.walk(C.fn_body(f)) if n.get("k") == "letst" and isinstance(n.get("pat"), dict) and "guard" in str(n["pat"].get("n")) and n.get("init") is not None]
        if not guard_inits:
            # no local: the value handed to the base template's guard slot
            guard_inits = [(n, fl_["e"]) for n in C.walk(C.fn_body(f)) if n.get("k") == "struct" for fl_ in n.get("fields") or [] if "guard" in fl_.get("n", "")]
        for n, g_init in guard_inits:
            if True:
                ng += 1
                nodes, todo, seen_ = [], [g_init], set()
                while todo:
                    e_ = todo.pop()
                    for x in C.walk_inl(tool, e_, 2, exclude=[f["path"]]):     # the computation may sit in a helper (`self.header_guard()`)
                        nodes.append(x)
                        if x.get("k") == "local" and x.get("id") not in seen_:
                            seen_.add(x.get("id"))
                            d_ = defs_.get(x.get("id"))
                            if d_ and d_[0] == "expr":
                                todo.append(d_[1])
                from_path = any(x.get("k") == "field" and x.get("n") == "path" for x in nodes)
                cut = sorted({x["m"] for x in nodes if x.get("k") == "mcall" and x.get("m") in ("rsplit", "split", "rsplit_once", "split_once", "file_name", "file_stem", "rsplitn", "splitn", "rfind", "find", "last", "next", "nth", "trim_start_matches", "strip_prefix")})
                ck.expect(from_path and not cut, "R3", "%s/include-guard-from-full-path" % C.norm_path(f["path"]).split("::")[1], "guard = path with separators replaced",
                          "the include guard is built from part of the path only (%s): two generated headers with the same file name in different namespace directories share one guard, the second one is skipped" % cut, C.loc(f, n.get("ln")))
    if ng < 2:
        ck.bad("R3", "include-guard/anchor", "include guard computation not found in c::header / cpp::header (2 counted)")

    # ---------------- R5 (cont.) the JS slice conversion is assembled from fragments chosen by (conversion context, ABI): balanced for every reachable combination
    import fragbal
    jf = next(iter(tool.fns_matching(r"::js::converter::.*::gen_js_to_c_for_type$")), None)
    combos = [("List", "Legacy"), ("SlicePrealloc", "Legacy"), ("SlicePrealloc", "CSpec"), ("WriteToBuffer", "Legacy"), ("WriteToBuffer", "CSpec")]  # List mode only exists in the legacy ABI
    nbal = 0
    if jf is None:
        ck.bad("R5", "js::slice-conversion/anchor", "gen_js_to_c_for_type not found")
    else:
        mt = next((n for n in C.walk(C.fn_body(jf)) if n.get("k") == "match" and (n.get("sadt") or "").endswith("hir::types::Type")), None)
        arm = next((a for a in (mt["arms"] if mt else []) if (a["pat"].get("v") or "").split("::")[-1] == "Slice"), None)
        if arm is None:
            ck.bad("R5", "js::slice-conversion/arm", "Slice arm not found", C.loc(jf))
        else:
            # the fragment code lives in the innermost block that defines `alloc_end`-like fragment locals: take every block of the arm in order
            # (in the arm, or in the helper the arm delegates to)
            blocks = [b for b_ in C.bodies_inl(tool, arm["b"], depth=1, exclude=[jf["path"]]) for b in C.walk(b_)
                      if b.get("k") == "block" and any(C.strip_keep_macro(st).get("k") == "letst" for st in (b.get("s") or []))]
            blk = max(blocks, key=lambda b: len(b.get("s") or [])) if blocks else None
            for ctx, abi in combos:
                fr = fragbal.Frag({"gen_context": ctx, "abi": abi})
                if blk is not None:
                    fr.run(blk.get("s") or [])
                finals = [fragbal.fmt_literal(m_) for m_ in C.walk(blk.get("e") or {}) if m_.get("k") == "macro" and m_.get("name") == "format"] if blk is not None else []
                for l_ in [l_ for l_ in finals if l_]:
                    for text in fragbal.expand_all(l_, fr.vals):
                        if "diplomatRuntime" not in text:
                            continue   # not a conversion expression
                        nbal += 1
                        bal = fragbal.balance(text)
                        key_ = "js::slice-conversion/balanced/%s+%s#%d" % (ctx, abi, sum(1 for i in ck.instances if i["rule"] == "R5" and i["key"].startswith("js::slice-conversion/balanced/%s+%s#" % (ctx, abi))))
                        ck.expect(bal["()"] == 0 and bal["[]"] == 0, "R5", key_, text[:70],
                                  "for context %s under the %s ABI the slice conversion expands to `%s`: unbalanced brackets %s, the generated module does not parse" % (ctx, abi, text[:110], bal), C.loc(jf, arm.get("ln")))
    if nbal < 15:
        ck.bad("R5", "js::slice-conversion/floor", "only %d (combination, literal) pairs evaluated" % nbal)
    # the other arms of the same dispatcher (options, ...): the expression the arm evaluates to under each (context, ABI) is balanced as well
    nother = 0
    if jf is not None and mt is not None:
        for arm_ in mt["arms"]:
            vname = (arm_["pat"].get("v") or "").split("::")[-1]
            if vname in ("Slice", "") or C.diverges(arm_["b"]):
                continue
            bodies_ = C.bodies_inl(tool, arm_["b"], depth=1, exclude=[jf["path"]])
            for ctx, abi in combos + [("List", "CSpec")]:   # option parameters take the List context under both ABIs
                for b_ in bodies_:
                    fr = fragbal.Frag({"gen_context": ctx, "abi": abi})
                    try:
                        val = fr.sval(b_)
                    except Exception:
                        val = None
                    texts = []
                    if isinstance(val, fragbal.Alt):
                        for a_ in val.alts:
                            texts += fragbal.expand_all(a_, fr.vals)
                    elif isinstance(val, str):
                        texts = fragbal.expand_all(val, fr.vals)
                    for text in texts:
                        if "(" not in text and "[" not in text:
                            continue
                        nother += 1
                        bal = fragbal.balance(text)
                        ck.expect(bal["()"] == 0 and bal["[]"] == 0, "R5", "js::%s-conversion/balanced/%s+%s" % (vname, ctx, abi), text[:70],
                                  "for context %s under the %s ABI the %s conversion expands to `%s`: unbalanced brackets %s, the generated module does not parse" % (ctx, abi, vname, text[:120], bal), C.loc(jf, arm_.get("ln")))
    if nother < 4:
        ck.bad("R5", "js::other-conversions/floor", "only %d non-slice conversion expressions evaluated (4 counted: DiplomatOption under List+Legacy, List/WriteToBuffer+CSpec, WriteToBuffer+Legacy)" % nother)

    js_import_rule(ck, facts)
    cpp_special_method_names_rule(ck, facts)
    exact_count_rule(ck, facts)


def js_import_rule(ck, facts):
    """R5 (cont.): the JS backend writes one module per *enabled* type; an `add_import` of a module named by `fmt_type_name(id)` therefore needs the
    `resolve_type(id).attrs().disable` test (which pushes an error) in the same block, as the three sibling sites in gen_js_type_str have."""
    tool = facts.tool
    n_direct = 0

    def rec(n, blocks, f, defs):
        nonlocal n_direct
        if not isinstance(n, dict):
            return
        if n.get("k") == "block":
            blocks = blocks + [n]
            for st in n.get("s") or []:
                st_ = C.strip_keep_macro(st)
                if st_.get("k") == "letst" and (st_.get("pat") or {}).get("k") == "bind" and st_.get("init"):
                    defs[st_["pat"]["id"]] = st_["init"]
        if n.get("k") == "mcall" and n.get("m") == "add_import" and n.get("a"):
            # where does the module name come from?
            seen, todo, direct = set(), [n["a"][0]], False
            while todo:
                e_ = todo.pop()
                for x in C.walk(e_):
                    if x.get("k") == "mcall" and x.get("m") == "fmt_type_name":
                        direct = True
                    if x.get("k") == "local" and x.get("id") in defs and x["id"] not in seen:
                        seen.add(x["id"])
                        todo.append(defs[x["id"]])
            if direct and blocks:
                n_direct += 1
                inner = blocks[-1]
                tested = any(x.get("k") == "if" and any(y.get("k") == "field" and y.get("n") == "disable" for y in C.walk(x["c"]))
                             and any(y.get("k") == "mcall" and y.get("m") == "push_error" for y in C.walk(x["t"])) for x in C.walk(inner))
                fname = C.norm_path(f["path"]).split("::")[-1]
                idx = sum(1 for i in ck.instances if i["rule"] == "R5" and i["key"].startswith("js::import/%s/disable-checked#" % fname))
                ck.expect(tested, "R5", "js::import/%s/disable-checked#%d" % (fname, idx), "import of a type module next to its disabled-type test",
                          "%s imports the module of a type named through fmt_type_name without testing `attrs().disable`: a method that uses a type disabled for js is accepted and the "
                          "generated module imports a file that is never written (the sibling sites push `Found usage of disabled type`)" % fname, C.loc(f, n.get("ln")))
        for c in C.children(n):
            rec(c, blocks, f, defs)

    for f in tool.fn_list:
        if "::js::" not in f["path"] or "hir" not in f or f["path"].endswith("::add_import"):
            continue
        rec(C.fn_body(f), [], f, {})
    if n_direct < 4:
        ck.bad("R5", "js::import/floor", "only %d add_import sites named through fmt_type_name found (4 counted)" % n_direct)


def cpp_special_method_names_rule(ck, facts):
    """R5 (cont.): the extra C++ members a special method brings (operator==, begin(), operator+=, ...) call the generated member by the name the
    generator gave it ({{ m.method_name }}), never by a spelled-out name: the Rust method may be called anything."""
    text = C.read_repo("tool/templates/cpp/method_impl.h.jinja")
    m = re.search(r"\{%-?\s*match\s+m\.method\.attrs\.special_method\b.*?%\}(.*?)\{%-?\s*endmatch", text, re.S)
    if not m:
        ck.bad("R5", "cpp::special-members/anchor", "special_method match not found in cpp/method_impl.h.jinja")
        return
    nblocks = 0
    parts = re.split(r"\{%-?\s*when\s+(.*?)-?%\}", m.group(1), flags=re.S)
    for i in range(1, len(parts), 2):
        which = "+".join(re.findall(r"SpecialMethod::(\w+)", parts[i])) or parts[i].strip()
        body = parts[i + 1]
        plain = re.sub(r"\{\{.*?\}\}", "\x00", re.sub(r"\{%.*?%\}", "", body, flags=re.S), flags=re.S)
        lits = []
        for line in plain.splitlines():
            if re.match(r"\s*inline\b", line):
                continue        # the signature line declares the new member (operator==, begin, ...)
            lits += [w for w in re.findall(r"(?<![\x00\w])([A-Za-z_]\w*)\s*\(", line) if w not in ("return", "if", "while", "sizeof", "static_cast", "move")]
        if not plain.strip():
            continue
        nblocks += 1
        ck.expect(not lits, "R5", "cpp::special-members/%s/calls-by-generated-name" % which, "calls only {{ m.method_name }}",
                  "the C++ members generated for SpecialMethod::%s call `%s(..)` by a spelled-out name instead of {{ m.method_name }}: a bridge whose method has another name "
                  "is accepted and its header does not compile" % (which, ", ".join(sorted(set(lits)))), "tool/templates/cpp/method_impl.h.jinja")
    # a compound-assignment member (`operator+=`: the generated `{{ m.method_name }}=`) assigns to *this: it carries no qualifier after its parameter list
    ncomp = 0
    for rel in ("tool/templates/cpp/method_decl.h.jinja", "tool/templates/cpp/method_impl.h.jinja"):
        t_ = C.read_repo(rel)
        for mm in re.finditer(r"method_name\s*-?\}\}=\(", t_):
            i_, depth = mm.end(), 1
            while i_ < len(t_) and depth:
                depth += {"(": 1, ")": -1}.get(t_[i_], 0)
                i_ += 1
            j_ = i_
            while j_ < len(t_) and not (t_[j_] == ";" or (t_[j_] == "{" and t_[j_ + 1:j_ + 2] not in ("{", "%", "#"))):
                j_ += 2 if t_[j_] == "{" else 1
            tail = re.sub(r"\{#.*?#\}", "", t_[i_:j_], flags=re.S).strip()
            ncomp += 1
            ck.expect(not tail, "R5", "cpp::special-members/compound-assignment-unqualified/%s" % rel.split("/")[-1].split(".")[0], "",
                      "the compound-assignment operator derived from an arithmetic special method is printed with `%s` after its parameter list: for a by-value receiver that is `const`, "
                      "and a const member that assigns to *this does not compile" % tail[:80], rel)
    if ncomp < 2:
        ck.bad("R5", "cpp::special-members/compound-assignment/floor", "only %d compound-assignment members found in the C++ method templates (2 counted: declaration, definition)" % ncomp)
    if nblocks < 3:
        ck.bad("R5", "cpp::special-members/floor", "only %d special-method blocks with generated members found (3 counted: arithmetic, Iterable, Comparison)" % nblocks)


def exact_count_rule(ck, facts):
    """R5 (cont.): the special-method shapes the backends print (`operator[](i)`, `set x(v)`, ...) have a fixed arity; the validation that says
    "must have exactly N" rejects every other count: its guard is an inequality (`len != N`), not a one-sided comparison."""
    core = facts.core
    fv = core.fn("hir::attrs::Attrs::validate")
    n_ = 0
    # the check may be a closure inside validate or a helper function of the same module
    cands = [g for g in core.fn_list if "hir" in g and g.get("dk") != "Closure" and C.norm_path(g["path"]).startswith("diplomat_core::hir::attrs::")]
    for f, m_, st_ in ((g, m_, st_) for g in cands for m_, st_ in C.with_conditions(C.fn_body(g))):
        if not (m_.get("k") == "macro" and "must have exactly" in (m_.get("src") or "")):
            continue
        n_ += 1
        conds = [(e[1], e[2] if len(e) > 2 else "t") for e in st_ if e[0] == "if" and isinstance(e[1], dict) and C.strip(e[1]).get("k") in ("bin", "un")]
        ok = False
        if conds:
            c_, br = C.strip(conds[-1][0]), conds[-1][1]
            neg = False
            while c_.get("k") == "un" and c_.get("op") == "Not":
                c_, neg = C.strip(c_["e"]), not neg
            if br not in ("t", ("t",)):
                neg = not neg
            ok = c_.get("k") == "bin" and ((c_.get("op") == "Ne" and not neg) or (c_.get("op") == "Eq" and neg))
        ck.expect(ok, "R5", "hir::Attrs::validate/exact-count-is-an-inequality#%d" % (n_ - 1), "len != count",
                  "the check that reports `must have exactly N parameters` is not guarded by an inequality test: a special method with more (or fewer) parameters than its generated "
                  "form has is accepted, and the backends print an operator / accessor with the wrong arity", C.loc(f, m_.get("ln")))
    if n_ < 1:
        ck.bad("R5", "hir::Attrs::validate/exact-count/floor", "no `must have exactly` check found in hir::attrs (1 counted: check_param_count)", C.loc(fv))

"""Shared structural rules about method generators: native parameter order self -> params -> write,
no reordering of the parameter lists, write parameter appended for every write-returning shape."""
import re
import common as C

REORDER = {"reverse", "rev", "sort", "sort_by", "sort_by_key", "sort_unstable", "sort_unstable_by", "sort_unstable_by_key", "swap", "rotate_left",
           "rotate_right", "swap_remove", "dedup", "retain", "truncate", "pop", "remove", "drain"}


def top_items(body):
    b = C.strip_keep_macro(body)
    if b.get("k") == "block":
        return (b.get("s") or []) + ([b["e"]] if b.get("e") else [])
    return [b]


def params_chain(e, defs, depth=0):
    """method names between expression e and `<x>.params` (following local definitions), or None if e does not derive from it"""
    e = C.strip(e)
    if not isinstance(e, dict) or depth > 8:
        return None
    if e.get("k") == "field" and e.get("n") == "params":
        return []
    if e.get("k") == "mcall":
        r = params_chain(e["recv"], defs, depth + 1)
        return None if r is None else r + [e.get("m")]
    if e.get("k") == "local" and defs is not None:
        d = defs.get(e.get("id"))
        chain = params_chain(d[1], defs, depth + 1) if d and d[0] == "expr" else None
        if chain is not None:
            # in-place reorderings applied to the local after its definition
            chain = chain + list(defs.get(("inplace", e.get("id")), []))
        return chain
    if e.get("k") in ("addr", "deref", "paren"):
        ch = list(C.children(e))
        return params_chain(ch[0], defs, depth + 1) if ch else None
    return None


def region_of(st, defs=None):
    s = C.strip(st)
    if not isinstance(s, dict):
        return None
    if s.get("k") == "if":
        c = C.strip(s["c"])
        if c.get("k") == "let" and any(x.get("k") == "field" and x.get("n") == "param_self" for x in C.walk(c["init"])):
            return "SELF"
    if s.get("k") == "match" and any(x.get("k") == "field" and x.get("n") == "param_self" for x in C.walk(s["s"])):
        return "SELF"
    if s.get("k") == "for" and any(x.get("k") == "field" and x.get("n") == "params" for x in C.walk(s["iter"])):
        return "PARAMS"
    if s.get("k") == "for" and defs is not None and params_chain(s["iter"], defs) is not None:
        return "PARAMS"
    if s.get("k") == "mcall" and s.get("m") in ("for_each",) and any(x.get("k") == "field" and x.get("n") == "params" for x in C.walk(s["recv"])):
        return "PARAMS"
    return None


def list_name(recv):
    """name of the list a push goes to: `x` for a local, `x.f` for a field of a local struct (a record of lists is one list per field)"""
    r = C.strip(recv)
    while isinstance(r, dict) and r.get("k") in ("addr", "deref", "paren") and list(C.children(r)):
        r = C.strip(list(C.children(r))[0])
    if isinstance(r, dict) and r.get("k") == "field" and C.strip(r.get("e") or {}).get("k") == "local":
        return ["%s.%s" % (C.strip(r["e"])["n"], r["n"])]
    return [y["n"] for y in C.walk(recv) if y.get("k") == "local"]


def pushes(node):
    """(list name, push node) for every `<list>.push(..)` / `.extend(..)` below node (also through `&mut x` selections)."""
    out = []
    for x in C.walk(node):
        if x.get("k") == "mcall" and x.get("m") in ("push", "extend", "push_str", "extend_from_slice"):
            for nm in list_name(x["recv"]):
                out.append((nm, x))
    return out


def holder(unit, fn, pred):
    """fn itself, or the same-crate helper it calls (2 levels) whose body satisfies pred: where an extracted construct now lives"""
    for g in C.fns_inl(unit, fn):
        if pred(g):
            return g
    return fn


def has_params_region(fn):
    defs = None
    return any(region_of(st, defs) == "PARAMS" for st in top_items(C.fn_body(fn)))


def is_write_push(p):
    for s in C.str_lits(p["a"][0]) if p.get("a") else []:
        if re.search(r"\bwrite\b", s):
            return True
    return False


def method_param_order(ck, rule, fn, label, min_lists=1, unit=None):
    import flow
    if unit is not None and not has_params_region(fn):
        fn = holder(unit, fn, has_params_region)
    items = top_items(C.fn_body(fn))
    defs = dict(flow.defs_of(fn))
    for x in C.walk(C.fn_body(fn)):
        if x.get("k") == "mcall" and x.get("m") in REORDER | {"retain", "dedup_by_key"} and C.strip(x["recv"]).get("k") == "local":
            defs.setdefault(("inplace", C.strip(x["recv"]).get("id")), []).append(x.get("m"))
    for st in items:
        s_ = C.strip(st)
        if isinstance(s_, dict) and s_.get("k") == "for":
            ch = params_chain(s_["iter"], defs)
            if ch:
                badm = [m for m in ch if m in REORDER or m in ("filter", "filter_map", "skip", "take", "step_by", "skip_while", "take_while")]
                ck.expect(not badm, rule, "%s/params-source" % label, "loop over %s" % ch,
                          "the loop that fills the native declaration and the call arguments iterates the method's parameters through %s: the native parameter order no longer "
                          "matches the order the Rust function was compiled with" % badm, C.loc(fn, s_.get("ln")))
    lists = {}
    for i, st in enumerate(items):
        reg = region_of(st, defs)
        for name, p in pushes(st):
            r = reg
            if is_write_push(p) and reg != "PARAMS":
                r = "WRITE"
            if r is None:
                continue
            lists.setdefault(name, []).append((r, i))
    checked = 0
    for name, evs in sorted(lists.items()):
        regs = {r for r, _ in evs}
        if len(regs) < 2 or "PARAMS" not in regs:
            continue
        checked += 1
        first = {r: min(i for rr, i in evs if rr == r) for r in regs}
        last = {r: max(i for rr, i in evs if rr == r) for r in regs}
        ok = True
        if "SELF" in regs:
            ok &= last["SELF"] < first["PARAMS"]
        if "WRITE" in regs:
            ok &= last["PARAMS"] < first["WRITE"]
            if "SELF" in regs:
                ok &= last["SELF"] < first["WRITE"]
        ck.expect(ok, rule, "%s/%s/self<params<write" % (label, name), "regions %s" % sorted((r, first[r]) for r in regs),
                  "list `%s` is not filled in the order self -> params -> write (statement positions %s)" % (name, sorted(evs, key=lambda e: e[1])), C.loc(fn))
        # no reordering of that list anywhere in the function
        bad = [x["m"] for x in C.walk(C.fn_body(fn)) if x.get("k") == "mcall" and x.get("m") in REORDER | {"insert"} and name in list_name(x["recv"])]
        ck.expect(not bad, rule, "%s/%s/no-reorder" % (label, name), "", "list `%s` is reordered by %s" % (name, bad), C.loc(fn))
    if checked < min_lists:
        ck.bad(rule, label + "/anchor", "no parameter list filled from self/params/write found in %s (anchor lost)" % fn["path"], C.loc(fn))
    return checked


RT = "diplomat_core::hir::methods::ReturnType"


def write_cells(ck, rule, fn, label, adts, core_unit):
    """Every ReturnType shape whose success value is `Write` must lead to the write parameter being appended."""
    body = C.fn_body(fn)
    found = False
    for n in C.walk(body):
        if n.get("k") not in ("if", "match"):
            continue
        mt = n if n.get("k") == "match" else C.iflet_as_match(n)
        if n.get("k") == "if":
            c = C.strip(n["c"])
            if c.get("k") == "mcall" and c.get("m") == "is_write" and any(is_write_push(p) for _, p in pushes(n["t"])):
                found = True
                ck.ok(rule, label + "/write-appended", "guarded by ReturnType::is_write()", C.loc(fn, n.get("ln")))
                continue
        if not mt:
            continue
        sty = mt.get("sty") or ""
        if "hir::methods::ReturnType" not in sty:
            continue
        # arms that append write
        arm_writes = [bool([1 for _, p in pushes(a["b"]) if is_write_push(p)]) or _nested_write(a["b"]) for a in mt["arms"]]
        if not any(arm_writes):
            continue
        found = True
        m2 = dict(mt)
        m2["sadt"] = RT
        table = C.decision_table(m2, adts, RT)
        missing = []
        for v, hits in table:
            shown = v.show()
            succ = v.subs[0] if v.subs else None
            is_write_val = succ is not None and succ.variant == "Write"
            unknown_succ = succ is not None and succ.variant is None
            arm = next((i for i, cond in hits if not cond), None)
            if is_write_val and (arm is None or not arm_writes[arm]):
                missing.append(shown)
            if unknown_succ and arm is not None and not arm_writes[arm]:
                # the arm matched without looking at the success type: is the write case handled inside? conservative: report
                missing.append(shown + " (success type not inspected)")
        ck.expect(not missing, rule, label + "/write-appended", "all ReturnType(.., Write) shapes append the write parameter",
                  "the write parameter is not appended for %s although the C ABI of such a method takes a trailing DiplomatWrite*" % missing, C.loc(fn, n.get("ln")))
    if not found:
        ck.bad(rule, label + "/write-appended", "no site appending the write parameter found in %s" % fn["path"], C.loc(fn))


def _nested_write(b):
    """an arm that decides on the success type in a nested match containing a write push"""
    for x in C.walk(b):
        if x.get("k") == "match" and "SuccessType" in (x.get("sty") or ""):
            for a in x["arms"]:
                if a["pat"].get("v") == "Write" and any(is_write_push(p) for _, p in pushes(a["b"])):
                    return True
    return False


def is_write_table(ck, rule, core, adts):
    """`method.output.is_write()` = SuccessType::is_write(Deref(ReturnType)): deref must pick the success payload of every
    ReturnType constructor and is_write must be true exactly for SuccessType::Write."""
    f = core.fn("hir::methods::SuccessType::is_write")
    mt = next((n for n in C.walk(C.fn_body(f)) if n.get("k") == "match"), None)
    bad = []
    if not mt:
        ck.bad(rule, "SuccessType::is_write", "no match found", C.loc(f))
    else:
        m2 = dict(mt)
        ST = "diplomat_core::hir::methods::SuccessType"
        m2["sadt"] = ST
        for v, hits in C.decision_table(m2, adts, ST):
            arm = next((i for i, cond in hits if not cond), None)
            r = C.strip(mt["arms"][arm]["b"]) if arm is not None else {}
            val = r.get("v") if r.get("k") == "lit" else None
            if val != (v.variant == "Write"):
                bad.append(v.show())
        ck.expect(not bad, rule, "SuccessType::is_write/table", "true exactly for Write", "is_write() is wrong for %s" % bad, C.loc(f))
    d = core.fn("<diplomat_core::hir::methods::ReturnType as core::ops::deref::Deref>::deref")
    mt = next((n for n in C.walk(C.fn_body(d)) if n.get("k") == "match"), None)
    ok = False
    seen = set()
    if mt:
        ok = True
        m2 = dict(mt)
        m2["sadt"] = RT
        for v, hits in C.decision_table(m2, adts, RT):
            arm = next((i for i, cond in hits if not cond), None)
            if arm is None:
                ok = False
                continue
            a = mt["arms"][arm]
            seen.add(v.variant)
            # the arm must return the binding in tuple position 0 of this variant
            pats = [a["pat"]] if a["pat"].get("k") != "or" else a["pat"]["alts"]
            names = set()
            for p in pats:
                if p.get("k") == "ref":
                    p = p["sub"]
                if p.get("k") == "variant" and p.get("v") == v.variant and p.get("sub"):
                    s0 = p["sub"][0]
                    while s0.get("k") == "ref":
                        s0 = s0["sub"]
                    names.add(s0.get("n"))
            r = C.strip(a["b"])
            ok &= r.get("k") == "local" and r.get("n") in names
    ck.expect(ok and seen == {"Infallible", "Fallible", "Nullable"}, rule, "ReturnType::deref/success-payload", "position 0 of every constructor",
              "ReturnType's Deref no longer yields the success payload of every constructor (%s)" % sorted(seen), C.loc(d))

"""Fragment-balance analysis: generators assemble target-language expressions from string fragments chosen by a few configuration values
(conversion context, ABI).  For every combination of those values (a finite domain) the fragment locals are evaluated abstractly
(their literal text, placeholders of other values left open) and the final literals must have balanced parentheses / brackets / braces.
Nothing is executed: this is evaluation of string-valued `let`s and assignments over a finite environment."""
import re
import common as C
import exprval


def fmt_literal(m):
    src = m.get("src", "")
    mm = re.search(r'r#"(.*?)"#', src, re.S) or re.search(r'"((?:[^"\\]|\\.)*)"', src, re.S)
    if not mm:
        return None
    return mm.group(1).replace("{{", "\x01").replace("}}", "\x02")


class Alt:
    """a fragment whose text depends on a value outside the configuration: one of several strings"""

    def __init__(self, alts):
        self.alts = [a for a in alts if isinstance(a, str)][:8]


class Frag:
    def __init__(self, env):
        self.env = env          # configuration values: name -> variant
        self.vals = {}          # fragment locals: name -> str | tuple

    def cond(self, c):
        return exprval.bev(c, self.env)

    def sval(self, e):
        e = C.strip_keep_macro(e)
        if not isinstance(e, dict):
            return None
        k = e.get("k")
        if k == "lit" and e.get("t") == "str":
            return e["v"]
        if k == "macro" and e.get("name") == "format":
            return fmt_literal(e)
        if k == "macro":
            return self.sval(e.get("inner") or e.get("e"))
        if k == "mcall" and e.get("m") in ("into", "to_string", "as_str", "clone", "to_owned", "as_ref", "borrow"):
            return self.sval(e["recv"])
        if k == "call" and e.get("a") and re.search(r"(Cow::Borrowed|Cow::Owned|From::from|String::from)$", C.callee(e) or e.get("ctor") or ""):
            return self.sval(e["a"][0])
        if k == "local":
            return self.vals.get(e["n"])
        if k == "tup":
            return tuple(self.sval(a) for a in e["a"])
        if k == "block":
            self.run(e.get("s") or [])
            return self.sval(e["e"]) if e.get("e") is not None else None
        if k == "if":
            try:
                br = e["t"] if self.cond(e["c"]) else e.get("e")
            except exprval.Unknown:
                return None
            return self.sval(br) if br is not None else None
        if k == "match" and C.strip(e["s"]).get("k") == "tup" and all(isinstance(a_["pat"], dict) and a_["pat"].get("k") in ("tuple", "wild", "bind") for a_ in e["arms"]):
            # `match (flag, abi) { (false, _) => .., (true, Abi::X) => .. }`: component-wise, with unknown components matching "maybe"
            comps = []
            for c_ in C.strip(e["s"])["a"]:
                try:
                    comps.append(exprval.bev(c_, self.env))
                except exprval.Unknown:
                    comps.append(None)

            def pm(p_, v_):
                """True / False / None (maybe)"""
                while isinstance(p_, dict) and p_.get("k") == "ref":
                    p_ = p_.get("sub")
                if not isinstance(p_, dict) or p_.get("k") in ("wild", "bind", "rest"):
                    return True
                if v_ is None:
                    return None
                if p_.get("k") == "lit":
                    return p_.get("v") == v_
                names = [(x or "").split("::")[-1] for x in [p_.get("v")] + [a_.get("v") for a_ in (p_.get("alts") or [])] if x]
                return (v_ in names) if names else None
            alts = []
            for arm in e["arms"]:
                subs = arm["pat"].get("sub") or [] if arm["pat"].get("k") == "tuple" else []
                res = [pm(subs[i_] if i_ < len(subs) else None, comps[i_]) for i_ in range(len(comps))]
                if any(r_ is False for r_ in res):
                    continue
                if C.diverges(arm["b"]) or C.panic_macro_of(arm["b"]):
                    if all(r_ is True for r_ in res):
                        break
                    continue
                x = self.sval(arm["b"])
                if all(r_ is True for r_ in res):
                    if not alts:
                        return x
                    alts.append(x)
                    break
                alts.append(x)
            flat = []
            for x in alts:
                flat += x.alts if isinstance(x, Alt) else ([x] if x is not None else [])
            return Alt(flat) if flat else None
        if k == "match":
            try:
                v = exprval.bev(e["s"], self.env)
            except exprval.Unknown:
                # a scrutinee outside the configuration (the kind of slice, the string encoding): every non-diverging arm is an alternative
                alts = []
                for arm in e["arms"]:
                    if C.diverges(arm["b"]) or C.panic_macro_of(arm["b"]):
                        continue
                    x = self.sval(arm["b"])
                    if isinstance(x, Alt):
                        alts += x.alts
                    elif x is not None:
                        alts.append(x)
                return Alt(alts) if alts else None
            for arm in e["arms"]:
                pv = arm["pat"]
                names = [(x or "").split("::")[-1] for x in [pv.get("v")] + [a_.get("v") for a_ in (pv.get("alts") or [])] if x]
                if pv.get("k") in ("wild", "bind") and not pv.get("v") or v in names:
                    return self.sval(arm["b"])
            return None
        if k in ("addr", "deref", "paren", "cast"):
            return self.sval(list(C.children(e))[0])
        return None

    def run(self, stmts):
        for st in stmts:
            n = C.strip_keep_macro(st)
            if not isinstance(n, dict):
                continue
            if n.get("k") == "semi":
                n = C.strip_keep_macro(n["e"])
            k = n.get("k")
            if k == "letst" and n.get("init") is not None and isinstance(n.get("pat"), dict):
                v = self.sval(n["init"])
                p = n["pat"]
                if v is None and p.get("k") == "bind":
                    # a configuration-valued local (`let wrapped = matches!(gen_context, ..)`) joins the environment
                    try:
                        bv = exprval.bev(n["init"], self.env)
                        if isinstance(bv, (bool, str, int)):
                            self.env[p["n"]] = bv
                    except exprval.Unknown:
                        pass
                if p.get("k") == "bind":
                    self.vals[p["n"]] = v
                elif p.get("k") == "tuple" and isinstance(v, tuple):
                    for q, x in zip(p.get("sub") or [], v):
                        if isinstance(q, dict) and q.get("k") == "bind":
                            self.vals[q["n"]] = x
            elif k == "assign":
                tgt = C.strip(n["l"])
                if tgt.get("k") == "local":
                    self.vals[tgt["n"]] = self.sval(n["r"])
            elif k == "if":
                try:
                    br = n["t"] if self.cond(n["c"]) else n.get("e")
                except exprval.Unknown:
                    continue
                if br is not None:
                    b = C.strip(br)
                    self.run((b.get("s") or []) + ([b["e"]] if b.get("e") is not None else []) if b.get("k") == "block" else [b])
            elif k == "block":
                self.run((n.get("s") or []) + ([n["e"]] if n.get("e") is not None else []))


def balance(text):
    """net count of each bracket kind, ignoring brackets inside string literals of the target language"""
    t = re.sub(r'"(?:[^"\\]|\\.)*"|\'(?:[^\'\\]|\\.)*\'', '""', text)
    return {"()": t.count("(") - t.count(")"), "[]": t.count("[") - t.count("]"), "{}": t.count("\x01") - t.count("\x02")}


def expand(lit, vals):
    """the literal with the fragment placeholders filled in (other placeholders dropped)"""
    return expand_all(lit, vals)[0]


def expand_all(lit, vals, limit=32, depth=0):
    """all texts the literal can expand to: a placeholder bound to an Alt contributes each of its alternatives; fragment values are expanded
    recursively (4 levels), placeholders of non-fragment values are dropped"""
    PH = re.compile(r"\{(\w*)[^{}]*\}")
    m = PH.search(lit)
    if not m:
        return [lit]
    v = vals.get(m.group(1))
    reps = v.alts if isinstance(v, Alt) else [v if isinstance(v, str) else ""]
    heads = []
    for r in reps or [""]:
        heads += expand_all(r, vals, limit, depth + 1) if depth < 4 else [PH.sub("", r)]
    tails = expand_all(lit[m.end():], vals, limit, depth)
    return [lit[:m.start()] + h + t for h in heads for t in tails][:limit]

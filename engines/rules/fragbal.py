"""Fragment-balance analysis: generators assemble target-language expressions from string fragments chosen by a few configuration values
(conversion context, ABI).  For every combination of those values (a finite domain) the fragment locals are evaluated abstractly
(their literal text, placeholders of other values left open) and the final literals must have balanced parentheses / brackets / braces.
Nothing is executed: this is evaluation of string-valued `let`s and assignments over a finite environment."""
import re
import common as C
import exprval


def fmt_literal(m):
    src = m.get("src", "")
    mm = re.search(r'r#"(.*?)"#', src, re.S) or re.search(r'"((?:[^"\\]|\\.)*)"', src, re.S)
    if not mm:
        return None
    return mm.group(1).replace("{{", "\x01").replace("}}", "\x02")


class Frag:
    def __init__(self, env):
        self.env = env          # configuration values: name -> variant
        self.vals = {}          # fragment locals: name -> str | tuple

    def cond(self, c):
        return exprval.bev(c, self.env)

    def sval(self, e):
        e = C.strip_keep_macro(e)
        if not isinstance(e, dict):
            return None
        k = e.get("k")
        if k == "lit" and e.get("t") == "str":
            return e["v"]
        if k == "macro" and e.get("name") == "format":
            return fmt_literal(e)
        if k == "macro":
            return self.sval(e.get("inner") or e.get("e"))
        if k == "mcall" and e.get("m") in ("into", "to_string", "as_str", "clone", "to_owned", "as_ref", "borrow"):
            return self.sval(e["recv"])
        if k == "call" and e.get("a") and re.search(r"(Cow::Borrowed|Cow::Owned|From::from|String::from)$", C.callee(e) or e.get("ctor") or ""):
            return self.sval(e["a"][0])
        if k == "local":
            return self.vals.get(e["n"])
        if k == "tup":
            return tuple(self.sval(a) for a in e["a"])
        if k == "block":
            self.run(e.get("s") or [])
            return self.sval(e["e"]) if e.get("e") is not None else None
        if k == "if":
            try:
                br = e["t"] if self.cond(e["c"]) else e.get("e")
            except exprval.Unknown:
                return None
            return self.sval(br) if br is not None else None
        if k == "match":
            try:
                v = exprval.bev(e["s"], self.env)
            except exprval.Unknown:
                return None
            for arm in e["arms"]:
                pv = arm["pat"]
                names = [(x or "").split("::")[-1] for x in [pv.get("v")] + [a_.get("v") for a_ in (pv.get("alts") or [])] if x]
                if pv.get("k") in ("wild", "bind") and not pv.get("v") or v in names:
                    return self.sval(arm["b"])
            return None
        if k in ("addr", "deref", "paren", "cast"):
            return self.sval(list(C.children(e))[0])
        return None

    def run(self, stmts):
        for st in stmts:
            n = C.strip_keep_macro(st)
            if not isinstance(n, dict):
                continue
            if n.get("k") == "semi":
                n = C.strip_keep_macro(n["e"])
            k = n.get("k")
            if k == "letst" and n.get("init") is not None and isinstance(n.get("pat"), dict):
                v = self.sval(n["init"])
                p = n["pat"]
                if p.get("k") == "bind":
                    self.vals[p["n"]] = v
                elif p.get("k") == "tuple" and isinstance(v, tuple):
                    for q, x in zip(p.get("sub") or [], v):
                        if isinstance(q, dict) and q.get("k") == "bind":
                            self.vals[q["n"]] = x
            elif k == "assign":
                tgt = C.strip(n["l"])
                if tgt.get("k") == "local":
                    self.vals[tgt["n"]] = self.sval(n["r"])
            elif k == "if":
                try:
                    br = n["t"] if self.cond(n["c"]) else n.get("e")
                except exprval.Unknown:
                    continue
                if br is not None:
                    b = C.strip(br)
                    self.run((b.get("s") or []) + ([b["e"]] if b.get("e") is not None else []) if b.get("k") == "block" else [b])
            elif k == "block":
                self.run((n.get("s") or []) + ([n["e"]] if n.get("e") is not None else []))


def balance(text):
    """net count of each bracket kind, ignoring brackets inside string literals of the target language"""
    t = re.sub(r'"(?:[^"\\]|\\.)*"|\'(?:[^\'\\]|\\.)*\'', '""', text)
    return {"()": t.count("(") - t.count(")"), "[]": t.count("[") - t.count("]"), "{}": t.count("\x01") - t.count("\x02")}


def expand(lit, vals):
    def rep(m):
        v = vals.get(m.group(1))
        return v if isinstance(v, str) else ""
    prev = None
    out = lit
    for _ in range(4):
        if out == prev:
            break
        prev = out
        out = re.sub(r"\{(\w*)[^{}]*\}", rep, out)
    return out

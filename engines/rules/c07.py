"""C07 — Dart (dart:ffi) and Kotlin (JNA) native declarations match the C ABI (structural clauses)."""
import re
import common as C
import flow
import tables as T
import tmpl
import order


def compose(tab, prim, other_tabs):
    """Resolve an arm that delegates to another primitive table with the same primitive."""
    r = tab.get(prim)
    if r and r[0] == "expr" and isinstance(r[1], dict) and r[1].get("k") in ("mcall", "call"):
        name = (C.callee(r[1]) or "").split("::")[-1]
        if name in other_tabs:
            return other_tabs[name].get(prim)
    return r


FIELD_WALK_OK = {"iter", "iter_mut", "into_iter", "map", "enumerate", "collect", "zip", "peekable", "by_ref", "cloned", "copied", "is_empty", "len", "first", "unwrap",
                 "get", "as_slice", "for_each", "inspect", "count", "all", "any", "join", "expect", "to_vec", "clone", "unzip", "fold"}


def field_walk_rules(ck, rule, facts, backends):
    """Every walk over a struct definition's field list in the named backends visits all fields, in declaration order: the chain of iterator adaptors between
    `def.fields` and its consumer contains only cardinality- and order-preserving steps, and a `for` loop over the fields has no `continue` / `break`.
    (A dropped or reordered field changes the layout the foreign side declares for the same repr(C) struct.)  Shared by C01 (c, cpp), C07 (dart, kotlin), C08 (js)."""
    tool = facts.tool
    nwalk = 0
    for f in tool.fn_list:
        if "hir" not in f or f.get("exp"):
            continue
        p_ = C.norm_path(f["path"])
        be = p_.split("::")[1] if p_.count("::") >= 2 else ""
        if be not in backends:
            continue
        top = set()
        sub = set()
        for n in C.walk(C.fn_body(f)):
            if n.get("k") == "mcall":
                sub.add(id(C.strip(n["recv"])))
        for n in C.walk(C.fn_body(f)):
            if n.get("k") != "mcall" or id(n) in sub:
                continue   # only maximal chains
            ch, r = [], n
            while isinstance(r, dict) and r.get("k") == "mcall":
                ch.append(r["m"])
                r = C.strip(r["recv"])
            if not (isinstance(r, dict) and r.get("k") == "field" and r.get("n") == "fields" and "StructDef" in (r.get("bty") or "")):
                continue
            ch = list(reversed(ch))
            # the walk proper ends at the first consumer that leaves the iterator world
            walk = []
            for m_ in ch:
                walk.append(m_)
                if m_ in ("collect", "for_each", "count", "all", "any", "join", "fold", "unzip", "to_vec", "first", "len", "is_empty", "get"):
                    break
            bad = [m_ for m_ in walk if m_ not in FIELD_WALK_OK]
            nwalk += 1
            key = "%s/fields-walk#%d" % (p_.replace("diplomat_tool::", ""), sum(1 for i in ck.instances if i["rule"] == rule and i["key"].startswith(p_.replace("diplomat_tool::", "") + "/fields-walk")))
            ck.expect(not bad, rule, key, ".".join(walk), "the struct's field list is walked through `%s`: fields are dropped or reordered on the foreign side only, so the declared record no longer has the layout of "
                      "the repr(C) struct Rust compiled (wrong offsets / size for by-value uses)" % ".".join(bad), C.loc(f, n.get("ln")))
        for lp in C.walk(C.fn_body(f)):
            if lp.get("k") == "for" and any(x.get("k") == "field" and x.get("n") == "fields" and "StructDef" in (x.get("bty") or "") for x in C.walk(lp["iter"])):
                nwalk += 1
                skips = [x.get("k") for x in C.walk(lp["body"]) if x.get("k") in ("continue", "break")]
                ck.expect(not skips, rule, "%s/fields-loop" % p_.replace("diplomat_tool::", ""), "no continue/break", "the loop over the struct's fields skips some of them (%s)" % skips, C.loc(f, lp.get("ln")))
    if nwalk < 3:
        ck.bad(rule, "fields-walk-floor/" + "+".join(sorted(backends)), "only %d walks over StructDef.fields found in %s" % (nwalk, sorted(backends)))


def trait_vtable_rules(ck, rule, facts, backends):
    """The foreign-side mirror of a trait's vtable lists EVERY method of the trait, in order: the macro compiles one `run_<m>_callback` slot per trait method
    whatever backend attributes say (it never looks at them), so a walk over `TraitDef.methods` that builds the mirror has no filter / continue / break --
    a method disabled for the backend still needs its slot, or every later slot is read at the wrong offset.  Shared by C01 (c) and C07 (kotlin)."""
    tool = facts.tool
    nw = 0
    for f in tool.fn_list:
        if "hir" not in f or f.get("exp") or f.get("dk") == "Closure":
            continue
        p_ = C.norm_path(f["path"])
        be = p_.split("::")[1] if p_.count("::") >= 2 else ""
        if be not in backends or not p_.endswith("::gen_trait_def"):
            continue
        sub = {id(C.strip(n["recv"])) for n in C.walk(C.fn_body(f)) if n.get("k") == "mcall"}
        for n in C.walk(C.fn_body(f)):
            walk, root, loop = None, None, None
            if n.get("k") == "mcall" and id(n) not in sub:
                ch, r = [], n
                while isinstance(r, dict) and r.get("k") == "mcall":
                    ch.append(r["m"])
                    r = C.strip(r["recv"])
                walk, root = list(reversed(ch)), r
            elif n.get("k") == "for":
                r = C.strip(n["iter"])
                ch = []
                while isinstance(r, dict) and r.get("k") in ("mcall", "addr"):
                    if r.get("k") == "mcall":
                        ch.append(r["m"])
                        r = C.strip(r["recv"])
                    else:
                        r = C.strip(r["e"])
                walk, root, loop = list(reversed(ch)), r, n
            if not (isinstance(root, dict) and root.get("k") == "field" and root.get("n") == "methods" and "TraitDef" in (root.get("bty") or "")):
                continue
            nw += 1
            bad = [m_ for m_ in walk if m_ in ("filter", "filter_map", "skip", "take", "skip_while", "take_while", "rev", "step_by", "find", "flat_map")]
            if loop is not None:
                bad += [x.get("k") for x in C.walk(loop["body"]) if x.get("k") in ("continue", "break")]
            key = "%s::gen_trait_def/vtable-lists-every-method#%d" % (be, sum(1 for i in ck.instances if i["key"].startswith("%s::gen_trait_def/vtable-lists-every-method" % be)))
            ck.expect(not bad, rule, key, "all methods, in order", "the %s mirror of a trait's vtable walks `TraitDef.methods` through %s: a trait method disabled for this backend loses its slot while the "
                      "Rust `<Trait>_VTable` (which ignores backend attributes) keeps it, so every later callback slot sits one pointer earlier than Rust reads it" % (be, bad), C.loc(f, n.get("ln")))
    if nw < 1:
        ck.bad(rule, "gen_trait_def/floor/" + "+".join(sorted(backends)), "no walk over TraitDef.methods found in gen_trait_def of %s" % sorted(backends))
    # ... and `TraitDef.methods` itself holds every method of the AST trait: lowering walks `ast::Trait.methods` without filter / continue / break (an error
    # return aside), for the same reason -- the macro, which compiles the Rust vtable, reads the same AST list and no backend attribute
    core = facts.core
    lt = next(iter(core.fns_matching(r"::hir::lowering::.*::lower_trait$")), None)
    nl = 0
    if lt is not None:
        for g in C.fns_inl(core, lt, 1):
            sub = {id(C.strip(n["recv"])) for n in C.walk(C.fn_body(g)) if n.get("k") == "mcall"}
            for n in C.walk(C.fn_body(g)):
                walk, root, loop = None, None, None
                if n.get("k") == "mcall" and id(n) not in sub:
                    ch, r = [], n
                    while isinstance(r, dict) and r.get("k") == "mcall":
                        ch.append(r["m"])
                        r = C.strip(r["recv"])
                    walk, root = list(reversed(ch)), r
                elif n.get("k") == "for":
                    r, ch = C.strip(n["iter"]), []
                    while isinstance(r, dict) and r.get("k") in ("mcall", "addr"):
                        if r.get("k") == "mcall":
                            ch.append(r["m"])
                            r = C.strip(r["recv"])
                        else:
                            r = C.strip(r["e"])
                    walk, root, loop = list(reversed(ch)), r, n
                if not (isinstance(root, dict) and root.get("k") == "field" and root.get("n") == "methods" and "ast::traits::Trait" in (root.get("bty") or "")):
                    continue
                if walk in (["len"], ["is_empty"]):
                    continue
                nl += 1
                bad = [m_ for m_ in walk if m_ in ("filter", "filter_map", "skip", "take", "skip_while", "take_while", "rev", "step_by", "find", "flat_map")]
                if loop is not None:
                    bad += [x.get("k") for x in C.walk(loop["body"]) if x.get("k") in ("continue", "break")]
                ck.expect(not bad, rule, "hir::lower_trait/keeps-every-method#%d" % sum(1 for i in ck.instances if i["key"].startswith("hir::lower_trait/keeps-every-method")), "all methods, in order",
                          "lowering builds `TraitDef.methods` from the AST trait's methods through %s: a method left out of the HIR trait has no slot in any generated vtable mirror while the "
                          "Rust `<Trait>_VTable` the macro compiles keeps it, so every later callback slot is read at the wrong offset" % bad, C.loc(g, n.get("ln")))
    if nl < 1:
        ck.bad(rule, "hir::lower_trait/floor", "no walk over ast::Trait.methods found in lower_trait")


def run(ck, facts):
    tool, core = facts.tool, facts.core
    adts = facts.all_adts()
    ft = T.foreign_types()
    pl = T.prims_layout(tool)
    ck.units += ["diplomat_tool.lib (dart, kotlin)", "templates/dart, templates/kotlin", "rustc layouts"]
    ck.rule("R1", "primitive -> native type tables of Dart (exact kind and width) and Kotlin/JNA (width; pointer-sized stays pointer-sized) agree with the Rust type's layout; helper name tables are consistent with them", exhaustive=True)
    ck.rule("R2", "record mirrors: result / option / slice records list the same fields in the same order as the Rust repr(C) carriers; in every JNA Structure the @JvmField order equals getFieldOrder()")
    ck.rule("R3", "parameter order self -> params -> write in the native declarations; field order is the HIR field order; the write parameter is declared for every write-returning shape")
    ck.rule("R4", "by-value vs pointer: opaque -> pointer, struct -> by-value record, enum -> 32-bit int, slice -> slice record (same category as the C backend)")
    ck.not_decided += ["per-program signatures (behaviour)", "JNA's mapping of Boolean parameters (JNA type mapper, not in this repository)"]

    def want(prim):
        return T.rust_kind(T._PRIM_MAP[prim], pl)

    # ---------------- R1 Dart
    df = tool.fn("dart::formatter::DartFormatter::fmt_primitive_as_ffi")
    tab, _ = T.prim_table(df, adts, which=1)
    for prim in T.ALL_PRIMS:
        r = tab.get(prim)
        key = "dart::fmt_primitive_as_ffi/" + prim
        if prim.startswith("Int128"):
            ck.expect(r and r[0] == "panic", "R1", key, "excluded", "128-bit integers must stay excluded", C.loc(df))
            continue
        if not r or r[0] != "str":
            ck.bad("R1", key, "no constant ffi type: %s" % (r[:2] if r else None,), C.loc(df))
            continue
        got = tuple(ft["dart_ffi"].get(r[1], ("unknown", 0)))
        ck.expect(got == want(prim), "R1", key, "%s %s" % (r[1], got), "%s is declared as `%s` %s in dart:ffi but the Rust type %s is %s" % (prim, r[1], got, T._PRIM_MAP[prim], want(prim)), C.loc(df, r[2]))
    # string element
    # (the element type of a string slice record: whichever function the `Slice::Str` arm of gen_slice_element_ty reads it from -- a table of ffi type
    # names, or a code-unit IntType handed to the primitive table above)
    ge = tool.fn("dart::TyGenContext::gen_slice_element_ty")
    sf, ms = ge, []
    for cand in C.fns_inl(tool, ge, 2):
        ms = T.find_matches(cand, "StringEncoding")
        if ms:
            sf = cand
            break
    int_word = {"U8": "ffi.Uint8", "I8": "ffi.Int8", "U16": "ffi.Uint16", "I16": "ffi.Int16", "U32": "ffi.Uint32", "I32": "ffi.Int32", "U64": "ffi.Uint64", "I64": "ffi.Int64"}
    if ms:
        for v, hits in C.decision_table(ms[0], adts):
            arm = next((i for i, c in hits if not c), None)
            r = T.arm_result(ms[0]["arms"][arm]["b"]) if arm is not None else ("nomatch",)
            if r[0] == "expr" and isinstance(r[1], dict):
                ctor = next((x.get("p", "").split("::")[-1] for x in C.walk(r[1]) if x.get("k") == "def" and "IntType::" in (x.get("p") or "")), None)
                if ctor in int_word:
                    r = ("str", int_word[ctor])
            exp = {"Utf8": "ffi.Uint8", "UnvalidatedUtf8": "ffi.Uint8", "UnvalidatedUtf16": "ffi.Uint16"}.get(v.variant)
            if exp:
                ck.expect(r[:2] == ("str", exp), "R1", "dart::fmt_string_element_as_ffi/" + v.variant, exp, "the element type of a %s string slice record is %s, expected %s (unsigned code units of the "
                          "encoding's width: the C view is `const char*` / `const char16_t*`)" % (v.variant, r[:2], exp), C.loc(sf))
    else:
        ck.bad("R1", "dart::fmt_string_element_as_ffi", "no table from string encoding to element type found under gen_slice_element_ty", C.loc(ge))
    # helper-name tables: the embedded type word must denote the same (kind,bits)
    word = {"bool": ("bool", 8), "int8": ("int", 8), "uint8": ("uint", 8), "int16": ("int", 16), "uint16": ("uint", 16), "int32": ("int", 32), "uint32": ("uint", 32),
            "int64": ("int", 64), "uint64": ("uint", 64), "usize": ("uint", "ptr"), "isize": ("int", "ptr"), "float32": ("float", 32), "float64": ("float", 64), "float": ("float", 32), "double": ("float", 64), "rune": ("uint", 32)}
    for fname, rx in (("fmt_primitive_alloc_in", r"^_(\w+?)AllocIn$"), ("fmt_prim_slice_type", r"^_Slice(\w+)$")):
        f = tool.fn("dart::formatter::DartFormatter::" + fname)
        t2, _ = T.prim_table(f, adts)
        for prim in T.ALL_PRIMS:
            r = t2.get(prim)
            if prim.startswith("Int128") or not r or r[0] != "str":
                continue
            m = re.match(rx, r[1])
            w = word.get(m.group(1).lower()) if m else None
            ck.expect(w == want(prim), "R1", "dart::%s/%s" % (fname, prim), r[1], "%s uses helper `%s` (%s) but the Rust type is %s" % (prim, r[1], w, want(prim)), C.loc(f, r[2]))

    # ---------------- R1 Kotlin
    kf = tool.fn("kotlin::formatter::KotlinFormatter::fmt_primitive_as_ffi")
    kn = tool.fn("kotlin::formatter::KotlinFormatter::fmt_primitive_type_native")
    kd = tool.fn("kotlin::formatter::KotlinFormatter::fmt_primitive_default")
    ktab, _ = T.prim_table(kf, adts)
    ntab, _ = T.prim_table(kn, adts)
    dtab, _ = T.prim_table(kd, adts)
    others = {"fmt_primitive_as_ffi": ktab}
    jna = {k: v for k, v in ft["jna"].items() if k != "comment"}
    for label, tb, f in (("fmt_primitive_as_ffi", ktab, kf), ("fmt_primitive_type_native", ntab, kn)):
        for prim in T.ALL_PRIMS:
            r = compose(tb, prim, others)
            key = "kotlin::%s/%s" % (label, prim)
            if prim.startswith("Int128"):
                ck.expect(r and r[0] == "panic", "R1", key, "excluded", "128-bit must stay excluded", C.loc(f))
                continue
            if not r or r[0] != "str":
                ck.bad("R1", key, "no constant native type: %s" % (r[:2] if r else None,), C.loc(f))
                continue
            if prim == "Bool" and r[1] == "Boolean":
                ck.ok("R1", key, "Boolean (JNA type mapper; width not decided here)", C.loc(f))
                continue
            got = jna.get(r[1])
            w = want(prim)
            okw = got is not None and got[1] == w[1] and ((got[0] == "float") == (w[0] == "float"))
            ck.expect(okw, "R1", key, "%s %s" % (r[1], got), "%s is declared as JNA `%s` %s but the Rust type %s is %s (width / pointer-size mismatch)" % (prim, r[1], got, T._PRIM_MAP[prim], w), C.loc(f, r[2]))
    # Kotlin unsigned wrappers / conversions: the wrapper class and the .toUxxx() conversion chosen for a primitive have that primitive's width
    def text_of(r):
        if not r:
            return None
        if r[0] == "str":
            return r[1]
        if r[0] == "expr":
            return " ".join(str(x.get("v")) for x in C.walk(r[1]) if x.get("k") == "lit" and x.get("t") in ("str", "bytestr")) + " " + \
                " ".join(x.get("src", "") for x in C.walk(r[1]) if x.get("k") == "macro")
        return None
    KT_CONV = {"toUByte": 8, "toUShort": 16, "toUInt": 32, "toULong": 64, "toByte": 8, "toShort": 16, "toInt": 32, "toLong": 64}
    for fname in ("fmt_unsigned_primitive_ffi_cast", "fmt_primitive_to_native_conversion", "fmt_unsized_conversion"):
        kfun = tool.fn("kotlin::formatter::KotlinFormatter::" + fname, optional=True)
        if not kfun:
            ck.bad("R1", "kotlin::%s/anchor" % fname, "function not found", None)
            continue
        tb, _ = T.prim_table(kfun, adts)
        for prim in T.ALL_PRIMS:
            if prim.startswith("Int128"):
                continue
            txt = text_of(tb.get(prim)) or ""
            w = want(prim)
            key = "kotlin::%s/%s" % (fname, prim)
            wrappers = re.findall(r"FFI(Uint\d+|Sizet|Isizet)", txt)
            convs = re.findall(r"\.(to(?:U?)(?:Byte|Short|Int|Long))\(\)", txt)
            bad = []
            for wr in wrappers:
                nat = ntab.get(prim)
                nat_name = nat[1] if nat and nat[0] == "str" else None
                if nat_name != "FFI" + wr:
                    bad.append("wrapper FFI%s but the native field type is %s" % (wr, nat_name))
            for cv in convs:
                bits = KT_CONV[cv]
                wbits = 64 if w[1] == "ptr" else w[1]
                if bits != wbits or (cv.startswith("toU") != (w[0] == "uint")):
                    bad.append("conversion .%s() (%d-bit) for a %s" % (cv, bits, w))
            ck.expect(not bad, "R1", key, "%s %s" % (wrappers, convs), "Kotlin %s(%s): %s" % (fname, prim, "; ".join(bad)), C.loc(kfun))

    # default value consistent with native type
    for prim in T.ALL_PRIMS:
        if prim.startswith("Int128"):
            continue
        n = compose(ntab, prim, others)
        d = dtab.get(prim)
        if not n or n[0] != "str" or not d or d[0] != "str":
            ck.bad("R1", "kotlin::fmt_primitive_default/" + prim, "no constant default", C.loc(kd))
            continue
        nat, dv = n[1], d[1]
        if nat.startswith("FFI"):
            ok = dv == nat + "()"
        elif nat == "Float":
            ok = dv == "0.0F"
        elif nat == "Double":
            ok = dv == "0.0"
        else:
            ok = dv == "0"
        ck.expect(ok, "R1", "kotlin::fmt_primitive_default/" + prim, "%s = %s" % (nat, dv), "native field of type %s is initialised with `%s`" % (nat, dv), C.loc(kd, d[2]))
    # FFI wrapper class widths in init.kt.jinja
    initk = C.read_repo("tool/templates/kotlin/init.kt.jinja")
    for cls, size in (("FFIUint8", "1"), ("FFIUint16", "2"), ("FFIUint32", "4"), ("FFIUint64", "8"), ("FFISizet", "Native.SIZE_T_SIZE"), ("FFIIsizet", "Native.SIZE_T_SIZE")):
        m = re.search(r"class\s+%s\s*\([^)]*\)\s*:\s*com\.sun\.jna\.IntegerType\(\s*([\w.]+)\s*," % cls, initk)
        ck.expect(bool(m) and m.group(1) == size, "R1", "kotlin/init.kt/" + cls, "IntegerType(%s, ..)" % size, "%s is declared with size %s (expected %s)" % (cls, m.group(1) if m else None, size), "tool/templates/kotlin/init.kt.jinja")

    # ---------------- R2 mirrors
    fl = tmpl.flat_file("dart/result.dart.jinja", resolve_includes=False)
    m = re.search(r"final class ⟦\s*[\w.]+\s*⟧ extends ffi\.Struct \{(.*?)// ignore", fl, re.S)
    okr = False
    if m:
        body = tmpl.strip_stmts(m.group(1))
        decl = re.findall(r"(@ffi\.\w+\(\))?\s*external\s+([^;]+?)\s+(\w+);", body)
        okr = [d[2] for d in decl] == ["union", "isOk"] and decl[1][0] == "@ffi.Bool()"
    ck.expect(okr, "R2", "dart/result.dart.jinja", "union; @ffi.Bool isOk", "Dart result record is not {union; @ffi.Bool() isOk}", "tool/templates/dart/result.dart.jinja")
    um = re.search(r"final class ⟦\s*[\w.]+\s*⟧Union extends ffi\.Union \{(.*?)\n\}", fl, re.S)
    oku = bool(um) and re.findall(r"external\s+⟦\s*[\w.]+\s*⟧\s+(\w+);", um.group(1)) == ["ok", "err"]
    ck.expect(oku, "R2", "dart/result.dart.jinja/union", "ok; err", "Dart result union arms are not (ok, err)", "tool/templates/dart/result.dart.jinja")
    fl = tmpl.flat_file("dart/slice.dart.jinja", resolve_includes=False)
    m = re.search(r"final class ⟦slice_ty⟧ extends ffi\.Struct \{(.*?)// This is expensive", fl, re.S)
    oks = False
    if m:
        decl = re.findall(r"(@ffi\.\w+\(\))?\s*external\s+([^;]+?)\s+(\w+);", m.group(1))
        oks = [d[2] for d in decl] == ["_data", "_length"] and decl[0][1].startswith("ffi.Pointer<") and decl[1][0] == "@ffi.Size()"
    ck.expect(oks, "R2", "dart/slice.dart.jinja", "Pointer _data; @ffi.Size _length", "Dart slice record is not {Pointer _data; @ffi.Size() _length}", "tool/templates/dart/slice.dart.jinja")
    # Dart struct mirror: fields rendered in loop order with annotation + type from the same field
    fl = tmpl.flat_file("dart/struct.dart.jinja", resolve_includes=False)
    m = re.search(r"final class _⟦type_name⟧Ffi extends ffi\.Struct \{(.*?)\n\}", fl, re.S)
    okd = bool(m) and re.search(r"⟪-?\s*for field in fields\s*-?⟫.*@⟦annotation⟧\(\).*external ⟦field\.ffi_cast_type_name⟧ ⟦field\.name⟧;.*⟪-?\s*endfor", m.group(1), re.S) is not None
    ck.expect(okd, "R2", "dart/struct.dart.jinja/ffi-struct", "loop over fields in order", "the Dart ffi.Struct mirror no longer declares `@annotation external <ffi type> <name>;` per field in field order", "tool/templates/dart/struct.dart.jinja")
    # Kotlin Structures: @JvmField order == getFieldOrder
    import glob as _g
    import os
    n_struct = 0
    for path in sorted(_g.glob(os.path.join(C.REPO, "tool/templates/kotlin/*.jinja"))):
        rel = "kotlin/" + os.path.basename(path)
        text = tmpl.flat_file(rel, resolve_includes=False)
        for cm in re.finditer(r"class\s+([\w⟦⟧.\s]+?)\s*(\([^)]*\))?\s*:\s*(Structure|Union)\(\)[^{]*\{", text):
            start = cm.end()
            depth = 1
            j = start
            while j < len(text) and depth:
                if text[j] == "{":
                    depth += 1
                elif text[j] == "}":
                    depth -= 1
                j += 1
            body = text[start:j - 1]
            fields = re.findall(r"@JvmField\s+(?:internal\s+|public\s+|private\s+)?va[rl]\s+(⟦[^⟧]+⟧|\w+)\s*:", body)
            fo = re.search(r"getFieldOrder\(\)\s*:\s*List<String>\s*\{\s*return\s+listOf\((.*?)\)\s*\}", body, re.S)
            if cm.group(3) == "Union" or not fo:
                continue
            n_struct += 1
            listed = re.findall(r"\"([^\"]+)\"", fo.group(1))
            holes = "⟦" in fo.group(1)
            name = re.sub(r"\s+", "", cm.group(1))
            if holes or any(f.startswith("⟦") for f in fields):
                # generated field list: the declarations and the order list must both be printed by loops over the SAME iterable, name by name
                def loop_iter(pos):
                    fors = [g_ for g_ in tmpl.guards_at(text, pos) if g_.startswith("for ")]
                    m_ = re.match(r"for\s+(\w+)\s+in\s+(.+)$", fors[-1]) if fors else None
                    return (m_.group(1), re.sub(r"\s+", "", m_.group(2))) if m_ else (None, None)
                decl_pos = [start + m_.start() for m_ in re.finditer(r"@JvmField", body)]
                order_pos = start + fo.start(1) + max(fo.group(1).find("⟦"), 0)
                dv, di = loop_iter(decl_pos[-1]) if decl_pos else (None, None)
                ov, oi = loop_iter(order_pos)
                name_hole = re.search(r"\"⟦\s*(\w+)\.name\s*⟧\"", fo.group(1))
                ok_gen = di is not None and di == oi and bool(name_hole) and name_hole.group(1) == ov
                pre = re.search(r"⟦\s*(\w+)\s*⟧", fo.group(1)) if not ok_gen and oi is None else None
                if pre:
                    # a pre-joined name list computed in Rust: it must come from the declarations' collection through order-preserving steps only
                    fname_ = pre.group(1)
                    REORD = {"sort", "sort_by", "sort_by_key", "sort_unstable", "sort_unstable_by", "sort_unstable_by_key", "dedup", "rev", "reverse", "retain", "filter", "skip", "take", "swap"}
                    verdicts = []
                    for kf in [f for f in tool.fn_list if f["path"].startswith("diplomat_tool::kotlin::") and "hir" in f and not f.get("exp")]:
                        kdefs = flow.defs_of(kf)
                        for n in C.walk(C.fn_body(kf)):
                            if n.get("k") == "letst" and isinstance(n.get("pat"), dict) and n["pat"].get("n") == fname_ and n.get("init") is not None:
                                chain_nodes = []
                                todo = [n["init"]]
                                seen_ids = set()
                                while todo:
                                    e_ = todo.pop()
                                    for x in C.walk(e_):
                                        chain_nodes.append(x)
                                        if x.get("k") == "local" and x.get("id") not in seen_ids and (di is None or x.get("n") != di.split(".")[-1]):
                                            seen_ids.add(x.get("id"))
                                            d_ = kdefs.get(x.get("id"))
                                            if d_ and d_[0] == "expr":
                                                todo.append(d_[1])
                                bad_ops = sorted({x["m"] for x in chain_nodes if x.get("k") == "mcall" and x.get("m") in REORD} |
                                                 {"collect::<%s>" % t_ for x in chain_nodes if x.get("k") == "mcall" and x.get("m") == "collect" for t_ in re.findall(r"(BTreeSet|HashSet|BTreeMap|HashMap|BinaryHeap)", x.get("ty") or "")})
                                src_ok = di is not None and any(x.get("k") in ("local", "field") and x.get("n") == di.split(".")[-1] for x in chain_nodes)
                                verdicts.append((not bad_ops and src_ok, bad_ops, src_ok))
                    ok_gen = bool(verdicts) and all(v[0] for v in verdicts)
                    if not ok_gen:
                        oi = "precomputed `%s` %s" % (fname_, [v[1:] for v in verdicts])
                ck.expect(ok_gen, "R2", "%s/%s/field-order" % (rel, name), "declarations and getFieldOrder both loop over `%s`" % di,
                          "getFieldOrder() is printed from `%s` (loop over %s) while the @JvmField declarations loop over %s: JNA lays the struct out in getFieldOrder order, "
                          "so a differently ordered list (e.g. sorted names) scrambles the fields" % (fo.group(1).strip()[:60], oi, di), "tool/templates/" + rel)
                continue
            ck.expect(fields == listed, "R2", "%s/%s/field-order" % (rel, name), str(listed), "@JvmField order %s differs from getFieldOrder %s: JNA lays the struct out in getFieldOrder order" % (fields, listed), "tool/templates/" + rel)
    if n_struct < 4:
        ck.bad("R2", "kotlin/structures-floor", "only %d JNA Structure classes with getFieldOrder found (4 counted)" % n_struct)
    for rel, exp in (("kotlin/Result.kt.jinja", ["union", "isOk"]), ("kotlin/Option.kt.jinja", ["value", "isOk"])):
        text = tmpl.flat_file(rel, resolve_includes=False)
        fo = re.search(r"listOf\((.*?)\)", text)
        ck.expect(bool(fo) and re.findall(r"\"([^\"]+)\"", fo.group(1)) == exp, "R2", rel + "/shape", str(exp), "record is not %s" % exp, "tool/templates/" + rel)
        ck.expect(re.search(r"var\s+isOk\s*:\s*Byte\b", text) is not None, "R2", rel + "/flag-width", "isOk: Byte", "the is_ok flag is not one byte wide", "tool/templates/" + rel)
    # the result union has an `ok` member iff the success side has a payload and an `err` member iff the error side has one: each member is guarded by its own side only
    rtxt = tmpl.flat_file("kotlin/Result.kt.jinja", resolve_includes=False)
    nmem = 0
    for side, other in (("ok", "err"), ("err", "ok")):
        for mm in re.finditer(r"internal\s+var\s+%s\s*:" % side, rtxt):
            nmem += 1
            gs = tmpl.guards_at(rtxt, mm.start())
            foreign = [g_ for g_ in gs if re.search(r"(?<![\w.])%s\s*\." % other, g_)]
            own = [g_ for g_ in gs if re.search(r"(?<![\w.])%s\s*\." % side, g_)]
            ck.expect(bool(own) and not foreign, "R2", "kotlin/Result.kt.jinja/union-member-%s-guarded-by-own-side" % side, "",
                      "the `%s` member of the JNA result union is emitted under %s: it depends on the %s side, so Result<(), E> / Result<T, ()> records lose a payload Rust's union has "
                      "(size and flag offset of the record change)" % (side, gs, other), "tool/templates/kotlin/Result.kt.jinja")
    if nmem < 2:
        ck.bad("R2", "kotlin/Result.kt.jinja/union-members/floor", "only %d union members found in the Kotlin result template (2 counted: ok, err)" % nmem, "tool/templates/kotlin/Result.kt.jinja")
    m = re.search(r"class Slice: Structure\(\), Structure\.ByValue \{(.*?)override fun getFieldOrder", initk, re.S)
    oksl = bool(m) and re.findall(r"@JvmField var (\w+): (\w+)", m.group(1)) == [("data", "Pointer"), ("len", "FFISizet")]
    ck.expect(oksl, "R2", "kotlin/init.kt/Slice", "data: Pointer; len: FFISizet", "JNA Slice is not {data: Pointer, len: FFISizet}", "tool/templates/kotlin/init.kt.jinja")

    field_walk_rules(ck, "R2", facts, {"dart", "kotlin"})
    trait_vtable_rules(ck, "R2", facts, {"kotlin"})

    # ---------------- R3 order
    dg = tool.fn("dart::TyGenContext::gen_method_info")
    order.method_param_order(ck, "R3", dg, "dart::gen_method_info", min_lists=1, unit=tool)
    order.write_cells(ck, "R3", dg, "dart::gen_method_info", adts, core)
    kg = tool.fn("kotlin::TyGenContext::gen_native_method_info")
    order.method_param_order(ck, "R3", kg, "kotlin::gen_native_method_info", unit=tool)
    order.write_cells(ck, "R3", kg, "kotlin::gen_native_method_info", adts, core)
    order.is_write_table(ck, "R3", core, adts)
    # struct field order: loops over def.fields / ty.fields without reordering
    for path, label in (("dart::TyGenContext::gen_struct_def", "dart::gen_struct_def"), ("kotlin::TyGenContext::gen_struct_def", "kotlin::gen_struct_def")):
        f = tool.fn(path)
        bad = []
        uses_fields = 0
        for n in C.walk(C.fn_body(f)):
            if n.get("k") == "mcall" and n.get("m") in order.REORDER | {"rev"}:
                if any(y.get("k") == "field" and y.get("n") == "fields" for y in C.walk(n["recv"])) or any(y.get("k") == "local" and "field" in (y.get("n") or "") for y in C.walk(n["recv"])):
                    bad.append(n["m"])
            if n.get("k") == "field" and n.get("n") == "fields":
                uses_fields += 1
            if n.get("k") in ("mcall",) and n.get("m") == "collect" and re.search(r"(BTree|Hash)(Map|Set)", n.get("ty") or "") and any(y.get("k") == "field" and y.get("n") == "fields" for y in C.walk(n["recv"])):
                bad.append("collect into " + n["ty"][:40])
        ck.expect(uses_fields >= 1 and not bad, "R3", label + "/field-order", "iterates def.fields in order", "struct fields are reordered (%s) between HIR and the emitted mirror" % bad, C.loc(f))

    # ---------------- R4 categories (Kotlin native struct field types; Dart ffi type names)
    kt = tool.fn("kotlin::formatter::KotlinFormatter::fmt_struct_field_type_native")
    ms = T.find_matches(kt, "hir::types::Type")
    cat = {}
    if ms:
        for v, hits in C.decision_table(ms[0], adts, "diplomat_core::hir::types::Type"):
            arm = next((i for i, c in hits if not c), None)
            if arm is None:
                continue
            lits = C.str_lits(ms[0]["arms"][arm]["b"])
            cat[v.variant] = lits
    exp = {"Opaque": "Pointer", "Enum": "Int", "Slice": "Slice", "Struct": "Native"}
    for k, needle in exp.items():
        ok = any(needle in s for s in cat.get(k, []))
        ck.expect(ok, "R4", "kotlin::fmt_struct_field_type_native/" + k, str(cat.get(k)), "%s fields are declared as %s in JNA structs (expected a %s-shaped type)" % (k, cat.get(k), needle), C.loc(kt))
    dgf = tool.fn("dart::TyGenContext::gen_type_name_ffi")
    ms = T.find_matches(dgf, "hir::types::Type")
    cat = {}
    if ms:
        for v, hits in C.decision_table(ms[0], adts, "diplomat_core::hir::types::Type"):
            arm = next((i for i, c in hits if not c), None)
            if arm is None:
                continue
            b = ms[0]["arms"][arm]["b"]
            cat.setdefault(v.variant, []).append(" ".join(C.str_lits(b)) + " " + " ".join((C.callee(x) or "").split("::")[-1] for x in C.calls_in(b)))
    ck.expect(any("fmt_opaque_as_ffi" in s for s in cat.get("Opaque", [])), "R4", "dart::gen_type_name_ffi/Opaque", "pointer", "opaques are not passed as pointers in Dart: %s" % cat.get("Opaque"), C.loc(dgf))
    ck.expect(any("fmt_enum_as_ffi" in s for s in cat.get("Enum", [])), "R4", "dart::gen_type_name_ffi/Enum", "enum int", "enums are not passed as the enum integer type in Dart: %s" % cat.get("Enum"), C.loc(dgf))
    ck.expect(any("Ffi" in s for s in cat.get("Struct", [])), "R4", "dart::gen_type_name_ffi/Struct", "by-value ffi struct", "structs are not passed as their ffi.Struct mirror in Dart: %s" % cat.get("Struct"), C.loc(dgf))
    ef = tool.fn("dart::formatter::DartFormatter::fmt_enum_as_ffi")
    eb = C.strip(C.fn_body(ef))
    ctors = [x.get("ctor", "").split("::")[-1] for x in C.walk(eb) if x.get("k") in ("def", "call") and x.get("ctor")]
    ok_e = eb.get("k") == "mcall" and eb.get("m") == "fmt_primitive_as_ffi" and set(ctors) == {"Int", "I32"}
    ck.expect(ok_e, "R4", "dart::fmt_enum_as_ffi", "fmt_primitive_as_ffi(Int(I32))", "Dart enum ABI type is no longer the 32-bit signed int (%s)" % sorted(set(ctors)), C.loc(ef))

    # ---------------- R2b helper-record cache key is as fine as the record's ABI shape
    gr = tool.fn("dart::TyGenContext::gen_result")
    # the key: what `helper_classes.contains_key(..)` is asked -- followed back through locals and through helper functions
    import flow as _flow
    gr_defs = dict(_flow.defs_of(gr))
    key_calls, key_roots = [], set()
    lookups = [x for x in C.walk(C.fn_body(gr)) if x.get("k") == "mcall" and x.get("m") == "contains_key" and any(y.get("k") == "field" and y.get("n") == "helper_classes" for y in C.walk(x["recv"]))]
    todo, seen_l = [a_ for x in lookups for a_ in x.get("a") or []], set()
    while todo:
        e_ = todo.pop()
        for x in C.walk_inl(tool, e_, 2, exclude=[gr["path"]]):
            if x.get("k") == "mcall" and x.get("m") == "gen_type_name_ffi" and len(x.get("a") or []) >= 2:
                key_calls.append(C.strip(x["a"][1]))
            if x.get("k") == "local" and x.get("id") not in seen_l:
                seen_l.add(x.get("id"))
                d_ = gr_defs.get(x.get("id"))
                if d_ and d_[0] == "expr":
                    todo.append(d_[1])
                elif d_ and d_[0] == "param":
                    key_roots.add(x.get("id"))
    uses_key = bool(lookups) and any(x.get("k") == "mcall" and x.get("m") == "insert" and any(y.get("k") == "field" and y.get("n") == "helper_classes" for y in C.walk(x["recv"])) for x in C.walk(C.fn_body(gr)))
    # both payload types (the ok and the err parameter) take part in the key
    ok = len(key_calls) >= 1 and len(key_roots) >= 2 and all(k.get("k") == "lit" and k.get("v") is False for k in key_calls) and uses_key
    ck.expect(ok, "R2", "dart::gen_result/cache-key-is-abi-type", "key built from the ffi (cast=false) type names",
              "the `_Result..` helper class is cached under a name built from the Dart-side type (cast=%s): payloads of different width share one record with the first one's @ffi annotation" % [k.get("v") for k in key_calls], C.loc(gr))

    # ---------------- R2 (cont.) Kotlin: a fallible / nullable return is declared as a `Result..` / `Option..` record; only an optional opaque is a bare (nullable) pointer
    krf = tool.fn("kotlin::TyGenContext::gen_return_type_name_ffi", optional=True)
    kmt = next((n for n in C.walk(C.fn_body(krf)) if n.get("k") == "match" and (n.get("sadt") or "").endswith("methods::ReturnType")), None) if krf else None
    if kmt is None:
        ck.bad("R2", "kotlin::gen_return_type_name_ffi/anchor", "match on ReturnType not found", C.loc(krf) if krf else None)
    else:
        kbad, kn = [], 0
        for v, hits in C.decision_table(kmt, adts, "diplomat_core::hir::methods::ReturnType"):
            if not hits or v.variant not in ("Fallible", "Nullable"):
                continue
            arm = kmt["arms"][hits[0][0]]
            if C.diverges(arm["b"]):
                continue
            kn += 1
            shown = v.show()
            lits = [C.macro_fmt_canon(x) or "" for x in C.walk(arm["b"]) if x.get("k") == "macro" and x.get("name") == "format"] + C.str_lits(arm["b"])
            tail_lits = [l_ for l_ in lits if re.match(r"^(Option|Result|Pointer\?)", l_)]
            pointer_ok = "Opaque" in shown and v.variant == "Nullable"
            if not any(l_.startswith(("Option", "Result")) for l_ in tail_lits) and not (pointer_ok and any(l_.startswith("Pointer?") for l_ in tail_lits)):
                kbad.append(shown)
        ck.expect(kn >= 4 and not kbad, "R2", "kotlin::gen_return_type_name_ffi/result-record", "%d fallible/nullable shapes -> Option../Result.. records" % kn,
                  "the JNA return type of %s is not an `Option..` / `Result..` structure: C returns `{union; bool is_ok}` (24 bytes for a slice, by hidden pointer), JNA reads a bare value" % kbad, C.loc(krf))

    # ---------------- R2 (cont.) every fallible / nullable return is declared as the result record, never as a scalar
    for fn_sfx, label in (("dart::TyGenContext::gen_return_type_name_ffi", "dart"),):
        rf = tool.fn(fn_sfx, optional=True)
        if rf is None:
            ck.bad("R2", "%s::gen_return_type_name_ffi/anchor" % label, "function not found", None)
            continue
        mt = next((n for n in C.walk(C.fn_body(rf)) if n.get("k") == "match" and (n.get("sadt") or "").endswith("methods::ReturnType")), None)
        if mt is None:
            ck.bad("R2", "%s::gen_return_type_name_ffi/match" % label, "match on ReturnType not found", C.loc(rf))
            continue
        bad_shapes = []
        n_shapes = 0
        for v, hits in C.decision_table(mt, adts, "diplomat_core::hir::methods::ReturnType"):
            if not hits or v.variant not in ("Fallible", "Nullable"):
                continue
            n_shapes += 1
            arm = mt["arms"][hits[0][0]]
            rec = any(x.get("k") == "mcall" and x.get("m") == "gen_result" for x in C.walk_inl(tool, arm["b"], 1, exclude=[rf["path"]]))
            if not rec and not C.diverges(arm["b"]):
                bad_shapes.append(v.show())
        ck.expect(n_shapes >= 2 and not bad_shapes, "R2", "%s::gen_return_type_name_ffi/result-record" % label, "%d fallible/nullable shapes -> gen_result" % n_shapes,
                  "the native return type of %s is not the `{union; bool}` result record (gen_result) but a scalar: C returns a struct (by hidden pointer on some ABIs), the binding reads a register" % bad_shapes, C.loc(rf))

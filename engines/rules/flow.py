"""Intra-procedural provenance over the typed HIR tree: where does the value of an expression come from?
A value is traced back through let-bound locals, pattern bindings of tuple-destructuring lets, reference/deref,
pass-through methods (as_str, into, to_string, clone, ?, unwrap, …), known wrappers and format! arguments, down to
leaves: field reads (`x.abi_name` with the base type), string literals, parameters, and opaque calls."""
import common as C

PASS_M = {"as_str", "into", "to_string", "to_owned", "clone", "as_ref", "as_deref", "unwrap", "expect", "borrow", "deref", "into_owned", "as_bytes",
          "to_syn", "unwrap_or_default", "cloned", "copied", "as_mut", "trim", "iter", "into_iter", "collect"}
PASS_CALLS = ("convert::From::from", "string::String::from", "Ident::new", "convert::Into::into", "IdentBuf::from", "borrow::Cow::Borrowed", "borrow::Cow::Owned",
              "option::Option::Some", "boxed::Box::new", "string::ToString::to_string", "alloc::borrow::ToOwned::to_owned")


def defs_of(fn):
    """local id -> init expression (simple `let x = e`), plus (id -> ('param', name)) for parameters"""
    d = {}
    for p in fn["hir"]["params"]:
        if p.get("k") == "bind":
            d[p["id"]] = ("param", p["n"])
    for n in C.walk(C.fn_body(fn)):
        if n.get("k") == "letst" and n.get("init") is not None:
            pat = n["pat"]
            if pat.get("k") == "bind":
                d[pat["id"]] = ("expr", n["init"])
            else:
                for bid in C.pat_bind_ids(pat):
                    d.setdefault(bid, ("destructure", n["init"]))
        if n.get("k") in ("match",):
            for a in n["arms"]:
                for bid in C.pat_bind_ids(a["pat"]):
                    d.setdefault(bid, ("destructure", n["s"]))
        if n.get("k") == "if":
            c = C.strip_keep_macro(n["c"])
            if isinstance(c, dict) and c.get("k") == "let":
                for bid in C.pat_bind_ids(c["pat"]):
                    d.setdefault(bid, ("destructure", c["init"]))
        if n.get("k") == "for":
            for bid in C.pat_bind_ids(n["pat"]):
                d.setdefault(bid, ("iter", n["iter"]))
        if n.get("k") == "closure":
            for p in n.get("params", []):
                for bid in C.pat_bind_ids(p):
                    d.setdefault(bid, ("closure-param", None))
    return d


def trace(expr, defs, extra_pass_calls=(), depth=0, seen=None):
    """-> set of leaves: ('field', name, base type) | ('lit', s) | ('param', name) | ('call', path) | ('other', kind)"""
    seen = seen if seen is not None else set()
    out = set()
    if depth > 40 or not isinstance(expr, dict):
        return {("other", "deep")}
    n = expr
    k = n.get("k")
    if k in ("addr", "use", "type", "semi", "try", "cast"):
        return trace(n["e"], defs, extra_pass_calls, depth + 1, seen)
    if k == "un":
        return trace(n["e"], defs, extra_pass_calls, depth + 1, seen)
    if k == "block":
        if n.get("e") is not None:
            return trace(n["e"], defs, extra_pass_calls, depth + 1, seen)
        return {("other", "block")}
    if k == "lit":
        return {("lit", n.get("v"))}
    if k == "field":
        return {("field", n["n"], (n.get("bty") or "").replace("&", "").replace("mut ", "").strip())}
    if k == "local":
        if n["id"] in seen:
            return set()
        seen = seen | {n["id"]}
        d = defs.get(n["id"])
        if not d:
            return {("other", "unbound:" + n["n"])}
        if d[0] == "param":
            return {("param", d[1])}
        if d[0] in ("expr", "destructure", "iter") and d[1] is not None:
            return trace(d[1], defs, extra_pass_calls, depth + 1, seen)
        return {("other", d[0] + ":" + n["n"])}
    if k == "mcall":
        if n["m"] in PASS_M:
            return trace(n["recv"], defs, extra_pass_calls, depth + 1, seen)
        cal = C.callee(n) or ""
        if any(cal.endswith(p) for p in extra_pass_calls) or n["m"] in extra_pass_calls:
            for a in [n["recv"]] + list(n.get("a", [])):
                out |= trace(a, defs, extra_pass_calls, depth + 1, seen)
            return out
        if n["m"] in ("map", "and_then", "unwrap_or", "unwrap_or_else", "or"):
            out |= trace(n["recv"], defs, extra_pass_calls, depth + 1, seen)
            for a in n.get("a", []):
                a0 = C.strip(a)
                if a0.get("k") == "closure":
                    out |= trace(a0["body"], defs, extra_pass_calls, depth + 1, seen)
                else:
                    out |= trace(a, defs, extra_pass_calls, depth + 1, seen)
            return out
        return {("call", cal or n["m"])}
    if k == "call":
        cal = C.callee(n) or ""
        import re as _re
        if n.get("ctor") or any(cal.endswith(p) for p in PASS_CALLS) or any(cal.endswith(p) for p in extra_pass_calls) or _re.search(r" as core::convert::(From|Into)<.*>>::(from|into)$", cal):
            for a in n.get("a", [])[:1] if cal.endswith("Ident::new") else n.get("a", []):
                out |= trace(a, defs, extra_pass_calls, depth + 1, seen)
            return out or {("call", cal)}
        return {("call", cal)}
    if k == "macro":
        if n.get("name") in ("format", "format_args", "concat", "write"):
            for s in C.macro_strings(n):
                out.add(("lit", s))
            cf = C.macro_fmt_canon(n)
            if cf is not None:
                out.add(("fmt", cf))
            for nm, lid in C.free_locals(n["inner"]):
                d = defs.get(lid)
                if d:
                    out |= trace({"k": "local", "n": nm, "id": lid}, defs, extra_pass_calls, depth + 1, seen)
            return out
        return trace(n["inner"], defs, extra_pass_calls, depth + 1, seen)
    if k == "if":
        out |= trace(n["t"], defs, extra_pass_calls, depth + 1, seen)
        if n.get("e"):
            out |= trace(n["e"], defs, extra_pass_calls, depth + 1, seen)
        return out
    if k == "match":
        for a in n["arms"]:
            out |= trace(a["b"], defs, extra_pass_calls, depth + 1, seen)
        return out
    if k == "closure":
        return trace(n["body"], defs, extra_pass_calls, depth + 1, seen)
    return {("other", k)}


def struct_field_sources(fn, adt_suffix, field, extra_pass_calls=()):
    """For every struct literal `<adt_suffix> { field: e, .. }` in fn: the leaves `e` derives from."""
    defs = defs_of(fn)
    out = []
    for n in C.walk(C.fn_body(fn)):
        if n.get("k") == "struct" and (n.get("adt") or "").endswith(adt_suffix):
            for fl in n["fields"]:
                if fl["n"] == field:
                    out.append((n, trace(fl["e"], defs, extra_pass_calls)))
    return out

"""C12 — DiplomatWrite is exact and never overruns.

Decides the structural clauses (bounded copy, atomic failure path, sticky flag, len-after-copy, accessor gating,
fixed writer keeps one byte, flush after call, who-may-write).  Does not execute anything."""
import re
import common as C
from common import MirFn, sym_show, sym_strip, sym_is_field, sym_is_arg, sym_walk

P = "C12"


def is_self(s):
    return sym_is_arg(s, 1)


def cmp_norm(s):
    """Normalise a comparison to (op in {Gt,Ge}, lhs, rhs) or None."""
    if not (isinstance(s, tuple) and s[0] == "bin"):
        return None
    op, a, b = s[1], s[2], s[3]
    if op in ("Gt", "Ge"):
        return op, a, b
    if op == "Lt":
        return "Gt", b, a
    if op == "Le":
        return "Ge", b, a
    return None


def is_str_len_of_arg2(s):
    s = sym_strip(s)
    if isinstance(s, tuple) and s[0] == "call" and isinstance(s[1], str):
        if s[1].endswith("str>::len") and sym_is_arg(s[2][0], 2):
            return True
        # s.as_bytes().len()
        if s[1].endswith("[T]>::len"):
            inner = sym_strip(s[2][0])
            if isinstance(inner, tuple) and inner[0] == "call" and isinstance(inner[1], str) and inner[1].endswith("str>::as_bytes") and sym_is_arg(inner[2][0], 2):
                return True
    if isinstance(s, tuple) and s[0] == "un" and s[1] == "PtrMetadata" and sym_is_arg(s[2], 2):
        return True
    return False


def is_needed_len(s):
    """len + s.len()"""
    s = sym_strip(s)
    if isinstance(s, tuple) and s[0] == "bin" and s[1] in ("Add", "AddUnchecked"):
        a, b = s[2], s[3]
        for x, y in ((a, b), (b, a)):
            if sym_is_field(x, is_self, "len") and is_str_len_of_arg2(y):
                return True
    if isinstance(s, tuple) and s[0] == "call" and isinstance(s[1], str) and re.search(r"(checked_add|saturating_add|wrapping_add)$", s[1]):
        return False  # a different arithmetic: not accepted silently
    return False


def writer_slots(rt, ctor_suffix):
    """functions installed in the `grow` / `flush` slots of the DiplomatWrite a constructor builds (resolved through the aggregate's fn pointers)"""
    f = rt.fn(ctor_suffix)
    out = {}
    for _, _, fields in C.ctor_aggs(rt, f, "::DiplomatWrite"):
        for slot in ("grow", "flush"):
            x = sym_strip(fields.get(slot))
            while isinstance(x, tuple) and x[0] in ("cast", "ptrcast"):
                x = x[2] if x[0] == "cast" else x[1]
            if isinstance(x, tuple) and x[0] == "fn" and x[1] in rt.fns:
                out[slot] = rt.fns[x[1]]
    return out


def run(ck, facts):
    rt = facts.runtime
    ck.units.append("diplomat_runtime.lib (MIR, mir-opt-level=0)")
    ck.rule("R1", "write_str: every path to the copy passes `needed_len > cap` false, or grow(self, needed_len) returned true; copy is (s.ptr, buf.add(len), s.len())")
    ck.rule("R2", "write_str: on the grow-failed edge only `grow_failed = true` happens before return (no copy, no len store)")
    ck.rule("R3", "write_str: first test is the sticky flag, true edge returns without effects; grow_failed is never reset to false outside constructors")
    ck.rule("R4", "write_str: `len` is stored once, with needed_len, after the copy")
    ck.rule("R5", "buffer accessors return null/0 on the grow_failed edge and the field otherwise")
    ck.rule("R6", "diplomat_simple_write: cap = buf_size - 1, grow returns false, flush stores one 0 byte at buf.add(len)")
    ck.rule("R7", "every generated extern fn with a &mut DiplomatWrite param calls DiplomatWrite::flush on it on every path after the user method; the macro's flush filter depends on the parameter alone")
    ck.rule("R8", "DiplomatWrite bookkeeping fields are private and stored only inside runtime::write")
    ck.rule("R10", "Rust-owned writer grow: rebuilds the Vec from (buf, 0, cap), reserves the requested size, stores cap/buf from the Vec, forgets it, returns true")
    ck.not_decided += ["foreign grow callbacks that violate their documented contract", "values actually written for all chunk sequences (behaviour)"]

    ws = rt.fn("<diplomat_runtime::write::DiplomatWrite as core::fmt::Write>::write_str")
    m = MirFn(C.inline_mir(rt, ws))   # write_str with its private phase helpers spliced in
    L = lambda bb: C.loc(ws, m.cfg.blocks[bb]["term"].get("ln"))

    # --- locate the copy
    copies = []
    for bb, t in m.calls():
        cal = C.mir_callee(t) or ""
        if re.search(r"(ptr::copy_nonoverlapping|ptr::copy|intrinsics::copy_nonoverlapping|intrinsics::copy|ptr::mut_ptr::<impl \*mut T>::copy_from(_nonoverlapping)?|ptr::const_ptr::<impl \*const T>::copy_to(_nonoverlapping)?)$", cal):
            copies.append((bb, t, cal))
    for b in m.mir["blocks"]:
        for s in b["stmts"]:
            if s["k"] == "copy_nonoverlapping":
                copies.append((b["id"], {"args": [s["src"], s["dst"], s["count"]], "ln": s.get("ln")}, "intrinsic"))
    if len(copies) != 1:
        ck.bad("R1", "write_str/copy-site", "expected exactly one memory copy in write_str, found %d" % len(copies), C.loc(ws))
        return
    cbb, ct, ccal = copies[0]
    args = [m.sym_op(a) for a in ct["args"]]
    if "copy_from" in ccal:
        dst, src, cnt = args[0], args[1], args[2]
    else:
        src, dst, cnt = args[0], args[1], args[2]
    # destination = buf.add(len)
    d = sym_strip(dst)
    ok_dst = (isinstance(d, tuple) and d[0] == "call" and isinstance(d[1], str) and re.search(r"mut_ptr::<impl \*mut T>::(add|offset|wrapping_add)$", d[1])
              and sym_is_field(d[2][0], is_self, "buf") and sym_is_field(d[2][1], is_self, "len"))
    ck.expect(ok_dst, "R1", "write_str/copy-dst", "dst = " + sym_show(dst), "copy destination is %s, expected self.buf.add(self.len)" % sym_show(dst), L(cbb))
    ck.expect(is_str_len_of_arg2(cnt), "R1", "write_str/copy-count", "count = " + sym_show(cnt), "copy count is %s, expected s.len()" % sym_show(cnt), L(cbb))
    s0 = sym_strip(src)
    ok_src = isinstance(s0, tuple) and s0[0] == "call" and isinstance(s0[1], str) and s0[1].endswith("::as_ptr")
    ck.expect(ok_src, "R1", "write_str/copy-src", "src = " + sym_show(src), "copy source is %s, expected s.as_bytes().as_ptr()" % sym_show(src), L(cbb))

    # --- classify switches
    sw = {}
    for bid, b in m.cfg.blocks.items():
        if b.get("cleanup") or b["term"]["k"] != "switch":
            continue
        c = m.switch_cond(bid)
        kind = None
        cs = sym_strip(c)
        if sym_is_field(cs, is_self, "grow_failed"):
            kind = "sticky"
        elif cmp_norm(cs):
            op, a, bb_ = cmp_norm(cs)
            if is_needed_len(a) and sym_is_field(bb_, is_self, "cap"):
                kind = "capcheck" if op == "Gt" else "capcheck-off-by-one"      # needed > cap  => must grow
            elif sym_is_field(a, is_self, "cap") and is_needed_len(bb_):
                kind = "capok" if op == "Ge" else "capok-off-by-one"            # cap >= needed => fits (inverse polarity)
            else:
                kind = "othercmp"
        elif isinstance(cs, tuple) and cs[0] == "call" and isinstance(cs[1], tuple) and cs[1][0] == "indirect":
            fn_ = sym_strip(cs[1][1])
            if sym_is_field(fn_, is_self, "grow"):
                a = cs[2]
                kind = "growres" if (len(a) == 2 and is_self(a[0]) and is_needed_len(a[1])) else "growres-badargs"
        elif isinstance(cs, tuple) and cs[0] == "un" and cs[1] == "Not":
            inner = sym_strip(cs[2])
            if isinstance(inner, tuple) and inner[0] == "call" and isinstance(inner[1], tuple):
                fn_ = sym_strip(inner[1][1])
                if sym_is_field(fn_, is_self, "grow"):
                    a = inner[2]
                    kind = "growres-neg" if (len(a) == 2 and is_self(a[0]) and is_needed_len(a[1])) else "growres-badargs"
        elif isinstance(cs, tuple) and cs[0] == "const":
            kind = "const"
        sw[bid] = (kind, c)

    def edge_true(a, b):
        """Is edge a->b the 'condition non-zero' edge of switch a?"""
        ev = m.edge_value(a, b)
        if ev == "otherwise":
            t = m.cfg.blocks[a]["term"]
            return all(v == 0 for v, _ in t["targets"])
        return ev is not None and all(v != 0 for v in ev)

    # --- R1 path rule
    adts_all = facts.all_adts()
    paths = [p_ for p_ in m.paths(0, cbb) if m.feasible(p_, adts_all)]     # a status flag / enum returned by a capacity helper does not create paths it excludes
    if not paths:
        ck.bad("R1", "write_str/paths", "copy unreachable?", L(cbb))
    bad_paths = 0
    for p in paths:
        guarded = False
        sticky_ok = False
        for a, b in zip(p, p[1:]):
            k = sw.get(a, (None,))[0]
            if k == "sticky" and not edge_true(a, b):
                sticky_ok = True
            if k == "capcheck" and not edge_true(a, b):
                guarded = True
            if k == "capok" and edge_true(a, b):
                guarded = True
            if k == "growres" and edge_true(a, b):
                guarded = True
            if k == "growres-neg" and not edge_true(a, b):
                guarded = True
        if not (guarded and sticky_ok):
            bad_paths += 1
            ck.bad("R1", "write_str/path-to-copy", "a path reaches the copy without passing `len+s.len() <= cap` or a successful grow(self, len+s.len())%s: blocks %s; branch conditions seen: %s"
                   % ("" if sticky_ok else " / without the grow_failed early-out", p, [(a, sw[a][0], sym_show(sw[a][1])) for a in p if a in sw]), L(cbb))
    if paths and not bad_paths:
        ck.ok("R1", "write_str/path-to-copy", "%d paths to the copy, all guarded" % len(paths), L(cbb))
    kinds = [v[0] or "" for v in sw.values()]
    ck.expect("capcheck" in kinds or "capok" in kinds, "R1", "write_str/capacity-test", "capacity test present",
              "no branch compares self.len + s.len() with self.cap; conditions: %s" % [sym_show(v[1]) for v in sw.values()], C.loc(ws))
    if any(k.endswith("off-by-one") for k in kinds):
        ck.bad("R1", "write_str/capacity-test-exact", "the capacity test is not exactly `len + s.len() > cap` (found %s): a chunk that exactly fills the remaining capacity is refused "
               "(fixed buffers: output truncated although it fits) or a chunk one byte too long is accepted" % [sym_show(v[1]) for v in sw.values() if v[0].endswith("off-by-one")], C.loc(ws))
    if any(k == "growres-badargs" for k in kinds):
        ck.bad("R1", "write_str/grow-args", "grow is not called with (self, len + s.len())", C.loc(ws))

    # --- R3 sticky flag first
    k0 = sw.get(0, (None, None))
    first_ok = k0[0] == "sticky"
    ck.expect(first_ok, "R3", "write_str/sticky-first", "entry block tests self.grow_failed", "entry block does not test self.grow_failed first (cond: %s)" % (sym_show(k0[1]) if k0[1] else "none"), C.loc(ws))
    if first_ok:
        t = m.cfg.blocks[0]["term"]
        true_succ = [b for b in m.cfg.succ[0] if edge_true(0, b)]
        for ts in true_succ:
            reach = m.cfg.reachable_from(ts)
            eff = []
            for bb, st in m.stores():
                if bb in reach:
                    eff.append("store " + C.place_str(st["lhs"]))
            for bb, tt in m.calls():
                if bb in reach:
                    eff.append("call " + str(C.mir_callee(tt) or "indirect"))
            ck.expect(not eff and cbb not in reach, "R3", "write_str/sticky-edge-pure", "flag-set edge returns without effects", "flag-set edge has effects: %s" % eff, C.loc(ws))
        entry_eff = [C.place_str(s["lhs"]) for s in m.cfg.blocks[0]["stmts"] if s["k"] == "assign" and s["lhs"].get("p")]
        ck.expect(not entry_eff, "R3", "write_str/no-effect-before-test", "", "stores before the sticky test: %s" % entry_eff, C.loc(ws))

    # --- R2 failure edge
    fail_edges = []
    for a, (k, c) in sw.items():
        if k in ("growres", "growres-neg"):
            for b in m.cfg.succ[a]:
                if (k == "growres" and not edge_true(a, b)) or (k == "growres-neg" and edge_true(a, b)):
                    fail_edges.append((a, b))
    if not fail_edges:
        ck.bad("R2", "write_str/fail-edge", "no branch on the result of grow(self, needed_len) found", C.loc(ws))
    for a, b in fail_edges:
        reach = m.feasible_reach(b, adts_all, via=a)
        flag_set = False
        problems = []
        for bb, st in m.stores():
            if bb in reach:
                ls = m.sym_place(st["lhs"])
                if sym_is_field(ls, is_self, "grow_failed"):
                    v = m.sym_rv(st["rv"])
                    if v == ("const", "true"):
                        flag_set = True
                    else:
                        problems.append("grow_failed = %s" % sym_show(v))
                else:
                    problems.append("store to " + sym_show(ls))
        if cbb in reach:
            problems.append("copy reachable")
        for bb, tt in m.calls():
            if bb in reach:
                problems.append("call " + str(C.mir_callee(tt) or "indirect"))
        ck.expect(flag_set and not problems, "R2", "write_str/fail-edge-atomic", "grow-failed edge sets the flag and returns",
                  "grow-failed edge: flag set=%s, other effects=%s" % (flag_set, problems), L(a))

    # --- R4 len store
    len_stores = [(bb, st) for bb, st in m.stores() if sym_is_field(m.sym_place(st["lhs"]), is_self, "len")]
    if len(len_stores) != 1:
        ck.bad("R4", "write_str/len-store-count", "expected one store to self.len, found %d" % len(len_stores), C.loc(ws))
    for bb, st in len_stores:
        v = m.sym_rv(st["rv"])
        ck.expect(is_needed_len(v), "R4", "write_str/len-value", "len = " + sym_show(v), "self.len is assigned %s, expected self.len + s.len()" % sym_show(v), C.loc(ws, st.get("ln")))
        after = m.cfg.dominates(cbb, bb) and (bb != cbb)
        ck.expect(after, "R4", "write_str/len-after-copy", "len store dominated by the copy", "the len store is not dominated by the copy block", C.loc(ws, st.get("ln")))
    # loads of len feeding the copy must precede the store: the store block must not reach the copy
    for bb, st in len_stores:
        ck.expect(cbb not in m.cfg.reachable_from(bb) or bb == cbb, "R4", "write_str/len-store-before-copy", "", "len is updated on a path before the copy", C.loc(ws))

    # --- R3b / R8: crate-wide stores to DiplomatWrite fields
    n_store = 0
    for f in rt.fn_list:
        mir = f.get("mir")
        if not mir or "blocks" not in mir:
            continue
        mf = MirFn(f)
        for bb, st in mf.stores():
            proj = st["lhs"].get("p") or []
            last = proj[-1]
            if last not in (".buf", ".len", ".cap", ".grow_failed", ".context", ".flush", ".grow"):
                continue
            # is the base a DiplomatWrite?
            base_ty = mir["locals"][st["lhs"]["l"]]["ty"]
            if "DiplomatWrite" not in base_ty:
                continue
            n_store += 1
            in_write_mod = f["path"].startswith("diplomat_runtime::write::") or "diplomat_runtime::write::DiplomatWrite" in f["path"]
            ck.expect(in_write_mod, "R8", "%s/store%s" % (f["path"], last), "store inside runtime::write", "DiplomatWrite%s stored outside runtime::write" % last, C.loc(f, st.get("ln")))
            if last == ".grow_failed":
                v = mf.sym_rv(st["rv"])
                ck.expect(v == ("const", "true"), "R3", "%s/grow_failed-store" % f["path"], "only ever set to true", "grow_failed is assigned %s (flag must be sticky)" % sym_show(v), C.loc(f, st.get("ln")))
    # who may write: the functions that store the bookkeeping fields or write through `buf` are exactly the ones R1-R6/R10 analyse
    ws_path = "<diplomat_runtime::write::DiplomatWrite as core::fmt::Write>::write_str"
    simple = writer_slots(rt, "diplomat_simple_write")
    buffer = writer_slots(rt, "diplomat_buffer_write_create")
    role_of = {ws_path: "write_str"}
    if simple.get("flush"):
        role_of[simple["flush"]["path"]] = "simple_write.flush"
    if buffer.get("grow"):
        role_of[buffer["grow"]["path"]] = "buffer_write.grow"
    # private helpers spliced into an analysed function are analysed as part of it -- provided nothing else calls them
    callers = {}
    for f in rt.fn_list:
        for c_ in (f.get("mir") or {}).get("calls", []) or []:
            callers.setdefault(C.norm_path(c_ if isinstance(c_, str) else (c_.get("p") or "")), set()).add(f["path"])
    for owner_path, role in list(role_of.items()):
        of_ = rt.fns.get(owner_path)
        if not of_:
            continue
        spliced = set(C.inline_mir(rt, of_).get("_inlined", []))
        for hp in spliced:
            outside = {c_ for c_ in callers.get(C.norm_path(hp), set()) if c_ != owner_path and c_ not in spliced}
            if not outside:
                role_of.setdefault(hp, role)
    WRITERS = {
        ("write_str", "store.grow_failed"), ("write_str", "store.len"), ("write_str", "write-through-buf"),   # R1-R4
        ("simple_write.flush", "write-through-buf"),                                                          # R6 (the NUL)
        ("buffer_write.grow", "store.cap"), ("buffer_write.grow", "store.buf"),                               # R10
    }
    RAWW = re.compile(r"(ptr::write|copy_nonoverlapping|ptr::copy|write_bytes|write_unaligned|write_volatile|mut_ptr::<impl \*mut T>::(write|copy_from|copy_from_nonoverlapping|write_bytes|copy_to|copy_to_nonoverlapping))$")
    seen_w = set()
    for f in rt.fn_list:
        mir = f.get("mir")
        if not mir or "blocks" not in mir:
            continue
        mf = MirFn(f)
        found = []
        for bb, st in mf.stores():
            proj = st["lhs"].get("p") or []
            if proj and proj[-1] in (".buf", ".len", ".cap", ".grow_failed") and "DiplomatWrite" in mir["locals"][st["lhs"]["l"]]["ty"]:
                found.append(("store" + proj[-1], st.get("ln")))
        for bb, t in mf.calls():
            cal = C.mir_callee(t) or ""
            if RAWW.search(cal):
                # any argument deriving from a DiplomatWrite's buf?
                if any(x[0] == "proj" and x[2] == ".buf" for a in t["args"] for x in sym_walk(mf.sym_op(a)) if isinstance(x, tuple) and len(x) > 2):
                    found.append(("write-through-buf", t.get("ln")))
            elif re.search(r"slice::raw::from_raw_parts_mut$", cal) and any(x[0] == "proj" and x[2] == ".buf" for a in t["args"] for x in sym_walk(mf.sym_op(a)) if isinstance(x, tuple) and len(x) > 2):
                found.append(("write-through-buf", t.get("ln")))
        for kind, ln in found:
            k = (role_of.get(f["path"], f["path"]), kind)
            if k in seen_w:
                continue
            seen_w.add(k)
            ck.expect(k in WRITERS, "R8", "writer/%s/%s" % (k[0], kind), "analysed by R1-R6/R10",
                      "%s now %s of a DiplomatWrite but is not one of the functions whose bounds/flag discipline is analysed (write_str, simple_write::flush, create::grow): "
                      "a second write path must obey the same sticky-flag, bounded-copy and len-after-copy rules" % (f["path"], "writes through `buf`" if kind == "write-through-buf" else "stores `%s`" % kind[6:]), C.loc(f, ln))
    for k in WRITERS - seen_w:
        ck.bad("R8", "writer/%s/%s" % k, "expected writer site not found (anchor moved?)")
    adt = rt.adt("DiplomatWrite")
    ck.expect(adt["repr_c"], "R8", "DiplomatWrite/repr(C)", "", "DiplomatWrite is not repr(C)")
    for fld in adt["variants"][0]["fields"]:
        ck.expect(not fld["vis"].startswith("Public"), "R8", "DiplomatWrite.%s/private" % fld["name"], fld["vis"], "field %s of DiplomatWrite is public: the bookkeeping invariant can be broken by any crate" % fld["name"], C.loc(adt))
    ck.floor("R8", 4 + 7 + 6)

    # --- R5 accessors
    for name, field, nullish in (("diplomat_buffer_write_get_bytes", "buf", "null"), ("diplomat_buffer_write_len", "len", "zero")):
        f = rt.fn(name)
        mf = MirFn(f)
        c0 = mf.switch_cond(0)
        if not (c0 and sym_is_field(sym_strip(c0), is_self, "grow_failed")):
            ck.bad("R5", name + "/flag-test", "accessor does not branch on this.grow_failed first (cond %s)" % (sym_show(c0) if c0 else None), C.loc(f))
            continue
        # value assigned to _0 on each edge
        t = mf.cfg.blocks[0]["term"]
        for succ in mf.cfg.succ[0]:
            ev = mf.edge_value(0, succ)
            truthy = (ev == "otherwise" and all(v == 0 for v, _ in t["targets"])) or (ev != "otherwise" and ev and all(v != 0 for v in ev))
            # find assignment to _0 reachable from succ before join
            val = None
            reach = mf.cfg.reachable_from(succ)
            cur = succ
            seen = set()
            while cur is not None and cur not in seen:
                seen.add(cur)
                b = mf.cfg.blocks[cur]
                for s in b["stmts"]:
                    if s["k"] == "assign" and s["lhs"]["l"] == 0 and not s["lhs"].get("p"):
                        val = mf.sym_rv(s["rv"])
                if b["term"]["k"] == "call" and b["term"]["dest"]["l"] == 0:
                    val = ("call", C.mir_callee(b["term"]), ())
                if val is not None:
                    break
                ss = mf.cfg.succ.get(cur, [])
                cur = ss[0] if len(ss) == 1 else None
            if truthy:
                good = (nullish == "null" and isinstance(val, tuple) and val[0] == "call" and str(val[1]).endswith("ptr::null_mut")) or \
                       (nullish == "zero" and val == ("const", "0_usize"))
                ck.expect(good, "R5", name + "/failed-edge", "returns %s" % sym_show(val), "on grow_failed the accessor returns %s, expected %s" % (sym_show(val), nullish), C.loc(f))
            else:
                good = val is not None and sym_is_field(val, is_self, field)
                ck.expect(good, "R5", name + "/ok-edge", "returns this.%s" % field, "on the ok edge the accessor returns %s, expected this.%s" % (sym_show(val), field), C.loc(f))

    # --- R6 fixed writer
    f = rt.fn("diplomat_simple_write")
    aggs = C.ctor_aggs(rt, f, "::DiplomatWrite")
    agg = aggs[-1][1] if aggs else None
    if not agg:
        ck.bad("R6", "diplomat_simple_write/ctor", "no DiplomatWrite construction found", C.loc(f))
    else:
        fields = aggs[-1][2]
        cap = sym_strip(fields.get("cap"))
        ok_cap = isinstance(cap, tuple) and cap[0] == "bin" and cap[1] in ("Sub",) and sym_is_arg(cap[2], 2) and cap[3] == ("const", "1_usize")
        ck.expect(ok_cap, "R6", "diplomat_simple_write/cap", "cap = " + sym_show(cap), "cap is %s, expected buf_size - 1 (one byte reserved for the NUL)" % sym_show(cap), C.loc(f, agg.get("ln")))
        ck.expect(sym_is_arg(fields.get("buf"), 1), "R6", "diplomat_simple_write/buf", "", "buf is %s, expected the caller's buffer" % sym_show(fields.get("buf")), C.loc(f))
        ck.expect(fields.get("len") == ("const", "0_usize"), "R6", "diplomat_simple_write/len", "", "len starts at %s" % sym_show(fields.get("len")), C.loc(f))
        ck.expect(fields.get("grow_failed") == ("const", "false"), "R6", "diplomat_simple_write/flag", "", "grow_failed starts as %s" % sym_show(fields.get("grow_failed")), C.loc(f))
        g = sym_strip(fields.get("grow"))
        fl = sym_strip(fields.get("flush"))

        def fnpath(x):
            while isinstance(x, tuple) and x[0] in ("cast", "ptrcast"):
                x = x[2] if x[0] == "cast" else x[1]
            return x[1] if isinstance(x, tuple) and x[0] == "fn" else None
        gp, fp = fnpath(g), fnpath(fl)
        gf = rt.fns.get(gp) if gp else None
        if not gf:
            ck.bad("R6", "diplomat_simple_write/grow-fn", "cannot resolve the grow callback (%s)" % sym_show(g), C.loc(f))
        else:
            mg = MirFn(C.inline_mir(rt, gf))
            rets = [mg.sym_rv(s["rv"]) for b in mg.mir["blocks"] for s in b["stmts"] if s["k"] == "assign" and s["lhs"]["l"] == 0 and not s["lhs"].get("p")]
            eff = list(mg.stores()) + list(mg.calls())
            ck.expect(rets == [("const", "false")] and not eff, "R6", "diplomat_simple_write/grow-false", "grow returns false, no effects", "fixed-buffer grow returns %s / has effects" % [sym_show(r) for r in rets], C.loc(gf))
        ff = rt.fns.get(fp) if fp else None
        if not ff:
            ck.bad("R6", "diplomat_simple_write/flush-fn", "cannot resolve the flush callback", C.loc(f))
        else:
            mfl = MirFn(C.inline_mir(rt, ff))
            writes = [(bb, t) for bb, t in mfl.calls() if re.search(r"ptr::(write|write_volatile|write_unaligned|mut_ptr::<impl \*mut T>::write)$", C.mir_callee(t) or "")]
            st = [s for _, s in mfl.stores()]
            okw = False
            detail = ""
            if len(writes) == 1 and not st:
                a = [mfl.sym_op(x) for x in writes[0][1]["args"]]
                dstp = sym_strip(a[0])
                okw = (isinstance(dstp, tuple) and dstp[0] == "call" and str(dstp[1]).endswith("::add") and sym_is_field(dstp[2][0], is_self, "buf")
                       and sym_is_field(dstp[2][1], is_self, "len") and a[1] == ("const", "0_u8"))
                detail = "write(%s, %s)" % (sym_show(a[0]), sym_show(a[1]))
            ck.expect(okw, "R6", "diplomat_simple_write/flush-nul", detail, "flush must store exactly one 0 byte at buf.add(len); found %s, %d raw stores" % (detail or len(writes), len(st)), C.loc(ff))
            if len(writes) == 1:
                wb = writes[0][0]
                every = all(wb in pth for r in mfl.cfg.returns() for pth in mfl.paths(0, r))
                ck.expect(every, "R6", "diplomat_simple_write/flush-nul-every-path", "the terminator is stored on every path", "the fixed writer's flush stores the NUL terminator on some paths only (e.g. `if len < cap`): "
                          "an output that fills the buffer exactly is handed back unterminated although one byte was reserved for the terminator", C.loc(ff))
    # the method the generated code calls after the Rust method returned runs the installed flush callback on every path (also after a failed grow: what was
    # accepted before the failure still has to be terminated / published)
    fm = rt.fn("diplomat_runtime::write::DiplomatWrite::flush")
    mfm = MirFn(C.inline_mir(rt, fm))
    ind = [bb for bb, t in mfm.calls() if not C.mir_callee(t)]
    ok_ind = False
    if len(ind) == 1:
        t = mfm.cfg.blocks[ind[0]]["term"]
        fo = C.sym_field_of(mfm.sym_op(t["f"].get("indirect"))) if t.get("f") else None
        ok_ind = bool(fo) and fo[1] == "flush" and all(ind[0] in pth for r in mfm.cfg.returns() for pth in mfm.paths(0, r))
    ck.expect(ok_ind, "R7", "DiplomatWrite::flush/calls-callback-on-every-path", "(self.flush)(self) on every path",
              "DiplomatWrite::flush does not call the installed flush callback on every path (%d indirect calls): after a failed grow the chunks accepted so far are never terminated / published" % len(ind), C.loc(fm))

    # --- R7 (cont.) a method that takes the write handle returns through it however its `()` return is spelled: in lower_return_type every unit position
    # (no return type, `-> ()`, `Result<(), E>`, `Option<()>`) takes the write-or-unit value computed once from the presence of the handle; `SuccessType::Unit` is
    # written only where that value is computed
    core_ = facts.core
    lrt = core_.fn("hir::lowering::LoweringContext::lower_return_type", optional=True)
    if lrt is None:
        ck.bad("R7", "lower_return_type/anchor", "lower_return_type not found", None)
    else:
        units = [x for x in C.walk(C.fn_body(lrt)) if x.get("k") in ("def", "call") and (x.get("ctor") or x.get("p") or "").endswith("SuccessType::Unit")]
        writes_ = [x for x in C.walk(C.fn_body(lrt)) if x.get("k") in ("def", "call") and (x.get("ctor") or x.get("p") or "").endswith("SuccessType::Write")]
        ck.expect(len(units) == 1 and len(writes_) == 1, "R7", "lower_return_type/unit-positions-take-write-or-unit", "one SuccessType::Unit, one SuccessType::Write",
                  "lower_return_type spells SuccessType::Unit %d times (SuccessType::Write %d): some spelling of a unit return (`-> ()`, `Result<(), E>`, ...) ignores the DiplomatWrite parameter, which was already "
                  "stripped from the parameter list -- the C/C++ API loses the string output and no longer passes a writer to the Rust function that expects one" % (len(units), len(writes_)), C.loc(lrt))
    # --- R10 Rust-owned grow
    # the capacity the new writer publishes is the capacity of the block it allocated (write_str trusts `cap` and copies up to it without asking grow)
    cr_ = rt.fn("diplomat_buffer_write_create")
    aggs_ = C.ctor_aggs(rt, cr_, "DiplomatWrite")
    if len(aggs_) != 1:
        ck.bad("R10", "create/cap-is-the-allocation's", "cannot find the one DiplomatWrite the constructor builds (%d found)" % len(aggs_), C.loc(cr_))
    else:
        flds_ = aggs_[0][2]
        alloc_args = [C.sym_strip(y[2][0]) for y in C.sym_walk(flds_.get("buf")) if isinstance(y, tuple) and y and y[0] == "call" and str(y[1]).endswith("Vec::with_capacity") and len(y) > 2 and y[2]]
        capv_ = C.sym_strip(flds_.get("cap"))
        from_vec = isinstance(capv_, tuple) and capv_ and capv_[0] == "call" and str(capv_[1]).endswith("::capacity")
        ck.expect(bool(alloc_args) and (from_vec or capv_ == alloc_args[0]), "R10", "create/cap-is-the-allocation's", "cap = %s, allocated with_capacity(%s)" % (sym_show(capv_), sym_show(alloc_args[0]) if alloc_args else "?"),
                  "diplomat_buffer_write_create allocates with_capacity(%s) but publishes cap = %s: write_str copies up to `cap` bytes into the block without calling grow" %
                  (sym_show(alloc_args[0]) if alloc_args else "?", sym_show(capv_)), C.loc(cr_))
    f = writer_slots(rt, "diplomat_buffer_write_create").get("grow")
    if f is None:
        raise C.CheckError("cannot resolve the grow callback installed by diplomat_buffer_write_create")
    mg = MirFn(C.inline_mir(rt, f))
    calls = {}
    for bb, t in mg.calls():
        calls.setdefault((C.mir_callee(t) or "indirect"), []).append((bb, t))

    def one(sfx):
        c = [v for k, v in calls.items() if k.endswith(sfx)]
        return c[0][0] if len(c) == 1 and len(c[0]) == 1 else None
    frp = one("vec::Vec::from_raw_parts")
    rsv = one("::reserve") or one("::reserve_exact")
    fgt = one("mem::forget")
    ck.expect(bool(frp and rsv and fgt), "R10", "create::grow/calls", "from_raw_parts, reserve, forget present", "missing one of from_raw_parts/reserve/forget in the Rust-owned grow", C.loc(f))
    if frp and rsv and fgt:
        a = [mg.sym_op(x) for x in frp[1]["args"]]
        this = lambda s: True  # `this` is derived from arg1 through as_mut().unwrap(): accept any base, check fields
        okf = sym_is_field(a[0], lambda b: True, "buf") and a[1] == ("const", "0_usize") and sym_is_field(a[2], lambda b: True, "cap")
        ck.expect(okf, "R10", "create::grow/from_raw_parts", "(buf, 0, cap)", "Vec::from_raw_parts(%s)" % ", ".join(sym_show(x) for x in a), C.loc(f, frp[1].get("ln")))
        ra = [mg.sym_op(x) for x in rsv[1]["args"]]
        ck.expect(sym_is_arg(ra[1], 2), "R10", "create::grow/reserve", "reserve(new_cap)", "reserve argument is %s, expected the requested capacity" % sym_show(ra[1]), C.loc(f, rsv[1].get("ln")))
        sts = {}
        for bb, st in mg.stores():
            sts[(st["lhs"].get("p") or [""])[-1]] = (bb, mg.sym_rv(st["rv"]), st)
        capv = sts.get(".cap")
        bufv = sts.get(".buf")
        ck.expect(bool(capv) and isinstance(capv[1], tuple) and capv[1][0] == "call" and str(capv[1][1]).endswith("::capacity"), "R10", "create::grow/cap-store", "", "cap is stored from %s, expected vec.capacity()" % (sym_show(capv[1]) if capv else None), C.loc(f))
        ck.expect(bool(bufv) and isinstance(bufv[1], tuple) and bufv[1][0] == "call" and str(bufv[1][1]).endswith("::as_mut_ptr"), "R10", "create::grow/buf-store", "", "buf is stored from %s, expected vec.as_mut_ptr()" % (sym_show(bufv[1]) if bufv else None), C.loc(f))
        # forget on every path to return, after reserve
        for r in mg.cfg.returns():
            for p in mg.paths(0, r):
                ck.expect(fgt[0] in p and rsv[0] in p and p.index(rsv[0]) < p.index(fgt[0]), "R10", "create::grow/forget-on-path", "", "a path returns without forgetting the rebuilt Vec (double free of the buffer)", C.loc(f))
        rets = [mg.sym_rv(s["rv"]) for b in mg.mir["blocks"] if not b.get("cleanup") for s in b["stmts"] if s["k"] == "assign" and s["lhs"]["l"] == 0 and not s["lhs"].get("p")]
        ck.expect(rets == [("const", "true")], "R10", "create::grow/returns-true", "", "returns %s" % [sym_show(r) for r in rets], C.loc(f))

    # --- R7 flush after call: generated corpus
    n7 = 0
    for unit in (facts.ft, facts.example):
        ck.units.append(unit.name + " (macro-generated bodies)")
        for f in unit.fn_list:
            if f.get("exp") != "diplomat::bridge" or not f.get("no_mangle"):
                continue
            wparams = [i + 1 for i, t in enumerate(f.get("inputs", [])) if re.search(r"&('\w+ )?mut diplomat_runtime::write::DiplomatWrite$", t)]
            if not wparams:
                continue
            mf = MirFn(f)
            # the user-method call: the call whose callee lives in the same module minus the extern name
            user_calls = [(bb, t) for bb, t in mf.calls() if (C.mir_callee(t) or "").startswith(f["path"].rsplit("::", 1)[0] + "::")]
            flushes = [(bb, t) for bb, t in mf.calls() if (C.mir_callee(t) or "").endswith("write::DiplomatWrite::flush")]
            for wp in wparams:
                n7 += 1
                key = "%s/flush(arg%d)" % (f["path"], wp)
                fl = [(bb, t) for bb, t in flushes if sym_is_arg(mf.sym_op(t["args"][0]), wp)]
                if len(user_calls) != 1:
                    ck.bad("R7", key, "expected exactly one call of the user method, found %d" % len(user_calls), C.loc(f))
                    continue
                ub = user_calls[0][0]
                okp = bool(fl)
                for r in mf.cfg.returns():
                    for p in mf.paths(0, r):
                        if ub in p:
                            after = p[p.index(ub) + 1:]
                            if not any(bb in after for bb, _ in fl):
                                okp = False
                ck.expect(okp, "R7", key, "flush after the call on every path", "generated fn does not flush its DiplomatWrite parameter after calling the Rust method", C.loc(f))
    if n7 < 12:
        ck.bad("R7", "corpus-floor", "only %d generated write-parameter functions found (floor 12)" % n7)

    # --- R7 macro source: the flush filter looks only at the parameter
    mu = facts.macro
    g = mu.fn("gen_custom_type_method")
    found = 0
    for n in C.walk(C.fn_body(g)):
        if n.get("k") == "letst" and n["pat"].get("n") == "write_flushes":
            for c in C.walk(n["init"]):
                if c.get("k") == "mcall" and c["m"] == "filter":
                    clo = C.strip(c["a"][0])
                    if clo.get("k") != "closure":
                        continue
                    found += 1
                    pnames = set()
                    for pp in clo["params"]:
                        pnames.update(C.pat_binds(pp))
                    free = set()
                    for x in C.walk(clo["body"]):
                        if x.get("k") == "local" and x["n"] not in pnames:
                            free.add(x["n"])
                    calls = [C.callee(x) for x in C.calls_in(clo["body"])]
                    uses_is_write = any((cc or "").endswith("Param::is_write") for cc in calls)
                    ck.expect(not free and uses_is_write, "R7", "macro::gen_custom_type_method/flush-filter",
                              "filter predicate = %s over the parameter only" % calls,
                              "the flush filter depends on %s (calls %s): some write parameters would not be flushed" % (sorted(free) or "nothing but p", calls), C.loc(g, c.get("ln")))
    if not found:
        ck.bad("R7", "macro::gen_custom_type_method/flush-filter", "anchor `let write_flushes = …filter(..)` not found", C.loc(g))

    # --- R7 (cont.) a write parameter is recognised under both spellings the runtime types are accepted in (`DiplomatWrite` and `diplomat_runtime::DiplomatWrite`): in the chain
    #     of path tests of TypeName::from_syn that uses is_runtime_type, no runtime type name is compared with a single path segment directly (a parameter spelled with the
    #     crate path would become a named type: no flush after the call, the fixed writer's terminator is never stored)
    fs_ = facts.core.fn("ast::types::TypeName::from_syn")
    nchain, direct = 0, []
    for b_ in C.bodies_inl(facts.core, C.fn_body(fs_), depth=1, exclude=[fs_["path"]]):
        for n in C.walk(b_):
            if n.get("k") != "if":
                continue
            conds, cur = [], n
            while isinstance(cur, dict) and cur.get("k") == "if":
                conds.append(cur["c"])
                cur = C.strip(cur.get("e")) if cur.get("e") is not None else None
            if not any((C.callee(x) or "").endswith("is_runtime_type") for c_ in conds for x in C.calls_in(c_)):
                continue
            nchain += 1
            for c_ in conds:
                for x in C.walk(c_):
                    if x.get("k") == "bin" and x.get("op") == "Eq":
                        for sd in (C.strip(x["l"]), C.strip(x["r"])):
                            if sd.get("k") == "lit" and str(sd.get("v", "")).startswith("Diplomat") and str(sd["v"]) not in direct:
                                direct.append(str(sd["v"]))
    ck.expect(nchain >= 1 and not direct, "R7", "ast::TypeName::from_syn/runtime-types-by-is_runtime_type", "%d chains" % nchain,
              "runtime type(s) %s are recognised by comparing one path segment instead of is_runtime_type: the `diplomat_runtime::`-qualified spelling is taken for a user type "
              "(for DiplomatWrite: the parameter is no write parameter any more, the generated function never flushes it)" % direct, C.loc(fs_))

    # --- R9 C++ std::string-backed writer (token rules on runtime.hpp.jinja; C++ text is not type-resolved)
    ck.rule("R9", "C++ writer adapter: _grow resizes to the requested size then publishes cap = length() and a fresh buf; _flush trims to len; WriteFromString starts with len = cap = length()")
    import c02
    c02.cpp_writer_rules(ck, "R9")
    c02.cpp_write_return_rules(ck, "R9", facts)


def run_thorough(ck, facts):
    """Thorough tier: compile-fail witnesses for the type-level clauses, and the runtime rules again on the feature-less build of diplomat-runtime."""
    import thorough
    thorough.witnesses(ck, "T1", "c12")
    alt = thorough.altcfg_runtime()
    ck.units.append("diplomat_runtime.lib built with --no-default-features (MIR)")
    sub = C.SubCheck(ck, "T2", "the runtime-level rules hold as well for diplomat-runtime compiled without its optional features (what a no-jvm, no-log dependent links)", ['R1', 'R2', 'R3', 'R4', 'R5', 'R6', 'R8', 'R10'])
    run(sub, alt)

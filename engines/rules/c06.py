"""C06 — every backend calls exactly the exported symbols (provenance of symbol names, naming scheme, inheritance)."""
import re
import common as C
import flow
import tmpl
import tables as T

HM = "diplomat_core::hir::methods::Method"
HO = "diplomat_core::hir::defs::OpaqueDef"
AM = "diplomat_core::ast::methods::Method"
AO = "diplomat_core::ast::opaque::OpaqueType"


def only_fields(leaves, allowed, ignore_kinds=("param",)):
    """all 'field' leaves are in allowed; there is at least one; other leaf kinds listed in ignore_kinds are tolerated"""
    fields = {(l[1], l[2]) for l in leaves if l[0] == "field"}
    sym = {f for f in fields if f[0] in ("abi_name", "dtor_abi_name", "name")}
    return bool(sym) and sym <= set(allowed), sym


def run(ck, facts):
    core, tool, mac = facts.core, facts.tool, facts.macro
    adts = facts.all_adts()
    ck.units += ["diplomat_core.lib+hir", "diplomat.lib", "diplomat_tool.lib", "templates"]
    ck.rule("R1", "single source and scheme: the symbol name is abi_rename.apply(\"Type_method\") / abi_rename.apply(\"Type_destroy\"), computed once in the AST")
    ck.rule("R2", "provenance: macro export idents, HIR fields and every backend's symbol slot derive from abi_name / dtor_abi_name and from no other name field")
    ck.rule("R3", "template slots: each template's native-symbol position prints that slot")
    ck.rule("R4", "abi_rename inheritance: module -> type, module -> impl/method, impl -> method, never to variants; HIR copies it verbatim")
    ck.rule("R5", "the macro builds its AST from the unstripped module (attributes are extracted only after ast::Module::from_syn)")
    ck.not_decided += ["the linker's view of the compiled library (nm)"]

    # ---------------- R1
    f = core.fn("ast::methods::Method::from_syn")
    defs = flow.defs_of(f)
    srcs = flow.struct_field_sources(f, "ast::methods::Method", "abi_name")
    ok1 = False
    detail = ""
    applies = [n for n in C.walk(C.fn_body(f)) if n.get("k") == "mcall" and n.get("m") == "apply" and any(x.get("k") == "field" and x.get("n") == "abi_rename" for x in C.walk(n["recv"]))]
    if len(applies) == 1:
        arg_leaves = flow.trace(applies[0]["a"][0], defs)
        lits = [l[1] for l in arg_leaves if l[0] == "fmt"]
        ok1 = "{self_ident}_{method_ident}" in lits
        detail = "apply(%s)" % lits
        # the struct field derives from the apply result
        for _, leaves in srcs:
            ok1 = ok1 and any(l[0] == "call" and l[1].endswith("RenameAttr::apply") for l in leaves)
    ck.expect(ok1 and len(srcs) == 1, "R1", "Method::from_syn/scheme", detail, "method symbol is not abi_rename.apply(\"{Type}_{method}\"): %s" % detail, C.loc(f))

    def own_attrs_rule(fn_, adt_sfx, label):
        """the rename pattern applied to an item's symbol is the one of the item's OWN (merged) attributes -- the value stored in its `attrs` field --
        not the parent's it was cloned from: an abi_rename written on the item itself takes effect"""
        fset = C.fns_inl(core, fn_, 2)

        def merged(g, lid, depth=0, before=None):
            """local `lid` of g holds the item's own merged attributes (at node `before`, when given): add_attrs / add_attr was called on it earlier in g,
            or it is a parameter every caller fills with such a value"""
            order = list(C.walk(C.fn_body(g)))
            lim = next((i_ for i_, x in enumerate(order) if x is before), None) if before is not None else None
            for i_, x in enumerate(order):
                if x.get("k") == "mcall" and x.get("m") in ("add_attrs", "add_attr") and C.strip(x["recv"]).get("k") == "local" and C.strip(x["recv"]).get("id") == lid:
                    if lim is None or i_ < lim:
                        return True
            ps = [p_.get("id") if isinstance(p_, dict) else None for p_ in g["hir"].get("params", [])]
            if lid in ps and depth < 3:
                j_ = ps.index(lid)
                sites = []
                c_of = {}
                for h in fset:
                    for c_ in C.walk(C.fn_body(h)):
                        if c_.get("k") in ("call", "mcall") and C.norm_path(c_.get("p") or C.callee(c_) or "") == C.norm_path(g["path"]):
                            args = ([c_["recv"]] + list(c_.get("a") or [])) if c_.get("k") == "mcall" else list(c_.get("a") or [])
                            sites.append((h, args[j_] if j_ < len(args) else None))
                            if j_ < len(args):
                                c_of[id(args[j_])] = c_
                ok_all = bool(sites)
                for h, a_ in sites:
                    a0 = C.strip(a_) if a_ is not None else {}
                    while a0.get("k") == "addr":
                        a0 = C.strip(a0["e"])
                    ok_all = ok_all and a0.get("k") == "local" and merged(h, a0.get("id"), depth + 1, before=c_of.get(id(a_)))
                return ok_all
            return False
        used, holders = [], []
        for g in fset:
            for n_ in C.walk(C.fn_body(g)):
                if n_.get("k") == "mcall" and n_.get("m") == "apply":
                    r_ = C.strip(n_["recv"])
                    if r_.get("k") == "field" and r_.get("n") == "abi_rename":
                        b_ = C.strip(r_["e"])
                        used.append((g, b_.get("id") if b_.get("k") == "local" else None, b_.get("n"), n_))
                if n_.get("k") == "struct":
                    for fl in n_["fields"]:
                        if fl["n"] == "attrs":
                            e_ = C.strip(fl["e"])
                            if e_.get("k") == "local" and merged(g, e_.get("id")):
                                holders.append(e_.get("id"))
        ok_ = bool(holders) and bool(used) and all(u is not None and merged(g, u, before=at_) for g, u, _, at_ in used)
        ck.expect(ok_, "R1", label + "/rename-of-own-attrs", "renamed with the attrs stored in the item", "%s renames the symbol with `%s.abi_rename`, which is not the item's own merged attribute set (the one "
                  "add_attrs was called on and that is stored in the item; %d such holders): an #[diplomat::abi_rename] written on the item itself is ignored for its exported name" %
                  (label, [n for _, _, n, _ in used], len(holders)), C.loc(fn_))
    own_attrs_rule(core.fn("ast::methods::Method::from_syn"), "ast::methods::Method", "Method::from_syn")
    for ctor in ("ast::opaque::OpaqueType::new_struct", "ast::opaque::OpaqueType::new_enum"):
        own_attrs_rule(core.fn(ctor), "OpaqueType", ctor.split("::")[-1])
    # every kind of attribute is recorded unconditionally by Attrs::add_attr (a closer abi_rename overrides the inherited one through RenameAttr::extend, not by being dropped)
    aa = core.fn("ast::attrs::Attrs::add_attr")
    nrec = 0
    for n_, st_ in C.with_conditions(C.fn_body(aa)):
        if n_.get("k") == "mcall" and n_.get("m") in ("push", "extend") and any(x.get("k") == "local" and x.get("n") == "self" for x in C.walk(n_["recv"])):
            nrec += 1
            conds_ = [k_ for k_, _, _ in st_ if k_ == "if"]
            fld_ = next((x.get("n") for x in C.walk(n_["recv"]) if x.get("k") == "field"), "?")
            ck.expect(not conds_, "R4", "ast::Attrs::add_attr/%s-unconditional" % fld_, "recorded for every occurrence",
                      "Attrs::add_attr records `%s` only under a condition: an attribute written on an item is dropped when the inherited set already has one (a closer "
                      "#[diplomat::abi_rename] no longer overrides the module's)" % fld_, C.loc(aa, n_.get("ln")))
    if nrec < 4:
        ck.bad("R4", "ast::Attrs::add_attr/floor", "only %d recording calls found in Attrs::add_attr (4 counted: cfg, attrs, abi_rename, demo_attrs)" % nrec, C.loc(aa))
    # RenameAttr::apply is total: with a pattern present every result is built from the pattern (no path hands the name back unchanged because of what the
    # name looks like -- `{0}_v2` applied to `parse_v2` is `parse_v2_v2`, the symbol the macro exports)
    ap = core.fn("ast::attrs::RenameAttr::apply")
    ap_params = {p_.get("id") for p_ in ap["hir"].get("params", []) if isinstance(p_, dict)}

    def has_pattern(c_):
        return c_.get("k") == "let" and (c_.get("pat") or {}).get("v") == "Some" and any(y.get("k") == "field" and y.get("n") == "pattern" for y in C.walk(c_.get("init") or {}))
    bare = []
    for n_, st_ in C.with_conditions(C.fn_body(ap)):
        val = None
        if n_.get("k") == "ret":
            val = n_.get("e")
        elif n_.get("k") == "block" and n_.get("e") is not None:
            val = n_["e"]
        v_ = C.strip(val) if val is not None else None
        while isinstance(v_, dict) and v_.get("k") == "mcall" and v_.get("m") in ("into", "clone", "to_owned", "into_owned") and not v_.get("a"):
            v_ = C.strip(v_["recv"])
        if isinstance(v_, dict) and v_.get("k") == "local" and v_.get("id") in ap_params and C.asserted(st_, has_pattern):
            bare.append(n_.get("ln") or val.get("ln"))
    ck.expect(not bare, "R1", "RenameAttr::apply/pattern-always-applied", "", "RenameAttr::apply returns the name unchanged on a path where a pattern is present: the symbol is no longer "
              "pattern(Type_method) for names that happen to look renamed already (all backends follow the AST, so they agree with each other and with nothing documented)", C.loc(ap, bare[0] if bare else None))
    f = core.fn("ast::opaque::OpaqueType::dtor_abi_name")
    defs = flow.defs_of(f)
    applies = [n for n in C.walk(C.fn_body(f)) if n.get("k") == "mcall" and n.get("m") == "apply"]
    ok1 = False
    detail = ""
    if len(applies) == 1:
        lits = [l[1] for l in flow.trace(applies[0]["a"][0], defs) if l[0] == "fmt"]
        ok1 = any(re.match(r"^\{[\w.&*()]+\}_destroy$", l) for l in lits)
        detail = "apply(%s)" % lits
        # the returned ident derives from apply's result with no further formatting
        tail = C.fn_body(f).get("e")
        leaves = flow.trace(tail, defs) if tail else set()
        extra_lits = [l for l in leaves if l[0] == "lit"]
        ok1 = ok1 and any(l[0] == "call" and l[1].endswith("RenameAttr::apply") for l in leaves) and not extra_lits
        detail += "; result leaves %s" % sorted(leaves)[:3]
    ck.expect(ok1, "R1", "OpaqueType::dtor_abi_name/scheme", detail, "destructor symbol is not abi_rename.apply(\"{Type}_destroy\") (rename must be applied to the complete name): %s" % detail, C.loc(f))
    for ctor in ("ast::opaque::OpaqueType::new_struct", "ast::opaque::OpaqueType::new_enum"):
        g = core.fn(ctor, optional=True)
        if g:
            for _, leaves in flow.struct_field_sources(g, "OpaqueType", "dtor_abi_name"):
                ck.expect(any(l[0] == "call" and l[1].endswith("OpaqueType::dtor_abi_name") for l in leaves), "R1", ctor.split("::")[-1] + "/dtor-source", "", "dtor_abi_name of an opaque is not computed by OpaqueType::dtor_abi_name", C.loc(g))

    # ---------------- R2 provenance
    # macro
    g = mac.fn("diplomat::gen_custom_type_method")
    defs = flow.defs_of(g)
    n_ident = None
    xnames = {m_.group(1) for x in C.walk(C.fn_body(g)) if x.get("k") == "macro" for m_ in [re.search(r"extern\s+\"C\"\s+fn\s+#(\w+)", x.get("src") or "")] if m_} or {"extern_ident"}
    for n in C.walk(C.fn_body(g)):
        if n.get("k") == "letst" and n["pat"].get("n") in xnames:
            n_ident = n
    if n_ident is None:
        ck.bad("R2", "macro/extern_ident", "anchor `let extern_ident` not found", C.loc(g))
    else:
        leaves = flow.trace(n_ident["init"], defs)
        ok, sym = only_fields(leaves, [("abi_name", AM)])
        ck.expect(ok, "R2", "macro/extern_ident", str(sorted(sym)), "the exported fn name derives from %s instead of ast::Method.abi_name" % sorted(sym), C.loc(g))
        used = any("#" + n_ident["pat"]["n"] in (x.get("src") or "") for x in C.walk(C.fn_body(g)) if x.get("k") == "macro")
        ck.expect(used, "R2", "macro/extern_ident-used", "", "the extern fn template no longer uses #extern_ident", C.loc(g))
    gb = mac.fn("diplomat::gen_bridge")
    d_ident = None
    for gcand in C.fns_inl(mac, gb):
        # the identifier interpolated as the name of the `extern "C" fn #X ..(this: Box<..>) {}` template, whatever the local is called
        tnames = {m_.group(1) for x in C.walk(C.fn_body(gcand)) if x.get("k") == "macro" for m_ in [re.search(r"\bfn\s+#(\w+)[^()]*\(\s*this\s*:\s*Box\s*<", x.get("src") or "")] if m_}
        for n in C.walk(C.fn_body(gcand)):
            if n.get("k") == "letst" and n["pat"].get("n") in tnames and d_ident is None:
                d_ident = n
                defs = flow.defs_of(gcand)
    if d_ident is None:
        ck.bad("R2", "macro/destroy_ident", "anchor `let destroy_ident` not found", C.loc(gb))
    else:
        leaves = flow.trace(d_ident["init"], defs)
        ok, sym = only_fields(leaves, [("dtor_abi_name", AO)])
        ck.expect(ok, "R2", "macro/destroy_ident", str(sorted(sym)), "the exported destructor name derives from %s instead of OpaqueType.dtor_abi_name" % sorted(sym), C.loc(gb))
    # HIR
    lm = core.fn("hir::lowering::LoweringContext::lower_method")
    for _, leaves in flow.struct_field_sources(lm, "hir::methods::Method", "abi_name", ("lower_ident",)):
        ok, sym = only_fields(leaves, [("abi_name", AM)])
        ck.expect(ok, "R2", "hir::lower_method/abi_name", str(sorted(sym)), "hir::Method.abi_name derives from %s" % sorted(sym), C.loc(lm))
    lo = core.fn("hir::lowering::LoweringContext::lower_opaque")
    defs = flow.defs_of(lo)
    found = False
    for n in C.walk(C.fn_body(lo)):
        if n.get("k") == "call" and (C.callee(n) or "").endswith("OpaqueDef::new"):
            for a in n["a"]:
                leaves = flow.trace(a, defs, ("lower_ident",))
                if any(l[0] == "field" and l[1] == "dtor_abi_name" for l in leaves):
                    found = True
                    ok, sym = only_fields(leaves, [("dtor_abi_name", AO)])
                    ck.expect(ok, "R2", "hir::lower_opaque/dtor_abi_name", str(sorted(sym)), "hir::OpaqueDef.dtor_abi_name derives from %s" % sorted(sym), C.loc(lo))
    ck.expect(found, "R2", "hir::lower_opaque/dtor_abi_name-anchor", "", "OpaqueDef::new no longer receives the AST dtor_abi_name", C.loc(lo))
    # backends
    slots = [
        ("c::ty::TyGenContext::gen_method", "MethodTemplate", "abi_name", [("abi_name", HM)]),
        ("c::ty::TyGenContext::gen_impl", "ImplTemplate", "dtor_name", [("dtor_abi_name", HO)]),
        ("cpp::ty::TyGenContext::gen_method_info", "MethodInfo", "abi_name", [("abi_name", HM)]),
        ("cpp::ty::TyGenContext::gen_opaque_def", "ImplTemplate", "dtor_name", [("dtor_abi_name", HO)]),
        ("dart::TyGenContext::gen_method_info", "MethodInfo", "abi_name", [("abi_name", HM)]),
        ("dart::TyGenContext::gen_opaque_def", "ImplTemplate", "destructor", [("dtor_abi_name", HO)]),
        ("js::gen::TyGenContext::generate_method", "MethodInfo", "abi_name", [("abi_name", HM)]),
        ("js::gen::TyGenContext::gen_opaque", "ImplTemplate", "destructor", [("dtor_abi_name", HO)]),
        ("kotlin::TyGenContext::gen_opaque_def", "ImplTemplate", "dtor_abi_name", [("dtor_abi_name", HO)]),
    ]
    for path, adt, field, allowed in slots:
        f = tool.fn(path)
        res = flow.struct_field_sources(f, adt, field, ("namespace_c_method_name",))
        key = "%s/%s.%s" % (path.replace("::TyGenContext", "").replace("::ty", "").replace("::gen::", "::"), adt, field)
        if not res:
            ck.bad("R2", key, "symbol slot `%s.%s` no longer filled in %s (anchor lost): the template cannot print the Rust symbol" % (adt, field, path), C.loc(f))
            continue
        for _, leaves in res:
            ok, sym = only_fields(leaves, allowed)
            ck.expect(ok, "R2", key, str(sorted(sym)), "native symbol slot derives from %s, expected %s" % (sorted(sym) or sorted(leaves)[:3], allowed), C.loc(f))
        # the slot is filled for every item that is generated at all: the only return that comes before the construction is the one for a disabled item
        body_ = C.fn_body(f)
        top_ = list(body_.get("s") or []) + ([body_["e"]] if body_.get("e") is not None else [])
        i_slot = next((i for i, st_ in enumerate(top_) if any(x.get("k") == "struct" and (x.get("adt") or "").endswith("::" + adt) and any(fl.get("n") == field for fl in x.get("fields") or []) for x in C.walk(st_))), None)
        if i_slot is not None:
            early = []
            for n_, stk in C.with_conditions(body_):
                if n_.get("k") != "ret" or not any(any(x is n_ for x in C.walk(st_)) for st_ in top_[:i_slot]):
                    continue
                if any(k_ == "if" and any(y.get("k") == "field" and y.get("n") == "disable" for y in C.walk(c_)) for k_, c_, _ in stk):
                    continue
                early.append(n_.get("ln"))
            ck.expect(not early, "R2", key + "/filled-on-every-path", "", "%s returns before `%s.%s` is filled (line %s) for items that are still generated: their native symbol (e.g. the destructor of an opaque "
                      "type without methods) is never declared, while other generated code refers to it" % (path.split("::")[-1], adt, field, early[:2]), C.loc(f))
    # kotlin native method names (format strings, not struct slots)
    for path, var in (("kotlin::TyGenContext::gen_native_method_info", "native_method"), ("kotlin::TyGenContext::gen_method", "native_method_name")):
        f = tool.fn(path)
        defs = flow.defs_of(f)
        hit = None
        for n in C.walk(C.fn_body(f)):
            if n.get("k") == "letst" and n["pat"].get("n") == var:
                hit = n
        if not hit:
            ck.bad("R2", path.split("::")[-1] + "/" + var, "anchor `let %s` not found" % var, C.loc(f))
            continue
        ok, sym = only_fields(flow.trace(hit["init"], defs), [("abi_name", HM)])
        ck.expect(ok, "R2", "kotlin::%s/%s" % (path.split("::")[-1], var), str(sorted(sym)), "Kotlin native method name derives from %s" % sorted(sym), C.loc(f))
    # kotlin: the JNA interface declares a native function for every method that is generated, with or without a receiver: the walk that feeds
    # gen_native_method_info selects on `disable` only (the wrappers -- instance and companion -- both call `lib.<abi_name>`)
    nnat = 0
    for f in tool.fn_list:
        if "hir" not in f or "::kotlin::" not in f["path"] or f.get("dk") == "Closure":
            continue
        binds = {}
        for n in C.walk(C.fn_body(f)):
            if n.get("k") == "letst" and n.get("init") is not None:
                for i_ in C.pat_bind_ids(n.get("pat")) or []:
                    binds[i_] = n["init"]
        for n in C.walk(C.fn_body(f)):
            if not (n.get("k") == "mcall" and n.get("m") in ("map", "filter_map", "flat_map") and n.get("a")
                    and any(y.get("k") == "mcall" and y.get("m") == "gen_native_method_info" for y in C.walk(n["a"][0]))):
                continue
            nnat += 1
            chain, seen_, todo_ = [], set(), [n["recv"]]
            while todo_:
                e_ = todo_.pop()
                for y in C.walk(e_):
                    chain.append(y)
                    if y.get("k") == "local" and y.get("id") in binds and y["id"] not in seen_:
                        seen_.add(y["id"])
                        todo_.append(binds[y["id"]])
            sel = sorted({y.get("n") for y in chain if y.get("k") == "field" and y.get("n") in ("param_self", "params", "output", "name", "abi_name", "special_method")})
            from_methods = any(y.get("k") == "field" and y.get("n") == "methods" for y in chain)
            fname = C.norm_path(f["path"]).split("::")[-1]
            ck.expect(from_methods and not sel, "R3", "kotlin::%s/native-declaration-for-every-generated-method" % fname, "all non-disabled methods",
                      "%s declares JNA functions only for a selection of the type's methods (selected by %s; from `.methods`: %s): an exported function the generated wrappers call "
                      "through `lib.<name>` has no declaration in the Library interface" % (fname, sel, from_methods), C.loc(f, n.get("ln")))
    if nnat < 3:
        ck.bad("R3", "kotlin/native-declaration/floor", "only %d walks feeding gen_native_method_info found (3 counted: opaque, struct, enum)" % nnat)
    # namespace_c_method_name keeps the name intact
    ns = tool.fn("cpp::formatter::Cpp2Formatter::namespace_c_method_name")
    lits = C.str_lits(C.fn_body(ns))
    ck.expect(all(re.search(r"\{name\}$", s) for s in lits if "{" in s) and lits, "R2", "cpp::namespace_c_method_name", str(lits), "C++ symbol qualification alters the symbol name: %s" % lits, C.loc(ns))

    # ---------------- R3 template slots
    checks = [
        ("c/impl.h.jinja", r"⟦\s*\w+\.return_ty\s*⟧\s+⟦\s*\w+\.abi_name\s*⟧\s*\(", "prototype name = method.abi_name"),
        ("c/impl.h.jinja", r"void\s+⟦\s*dtor_name\s*⟧\s*\(", "destructor prototype = dtor_name"),
        ("cpp/method_impl.h.jinja", r"⟦\s*\w+\.abi_name\s*⟧\s*\(", "call m.abi_name("),
        ("cpp/opaque_impl.h.jinja", r"⟦\s*dtor_name\s*⟧\s*\(\s*reinterpret_cast", "operator delete -> dtor_name"),
        ("dart/native_method.dart.jinja", r"symbol:\s*'⟦\s*\w+\.abi_name\s*⟧'", "symbol: 'm.abi_name'"),
        ("dart/native_method.dart.jinja", r"@_DiplomatFfiUse\('⟦\s*\w+\.abi_name\s*⟧'\)", "_DiplomatFfiUse('m.abi_name')"),
        ("dart/opaque.dart.jinja", r"symbol:\s*'⟦\s*destructor\s*⟧'", "symbol: 'destructor'"),
        ("dart/opaque.dart.jinja", r"@_DiplomatFfiUse\('⟦\s*destructor\s*⟧'\)", "_DiplomatFfiUse('destructor')"),
        ("kotlin/Opaque.kt.jinja", r"fun\s+⟦\s*dtor_abi_name\s*⟧\s*\(\s*handle:\s*Pointer\s*\)", "fun dtor_abi_name(handle: Pointer)"),
        ("kotlin/Opaque.kt.jinja", r"lib\.⟦\s*dtor_abi_name\s*⟧\s*\(\s*handle\s*\)", "lib.dtor_abi_name(handle)"),
        ("js/method.js.jinja", r"wasm\.⟦\s*abi_name\s*⟧\s*\(", "wasm.abi_name("),
        ("js/opaque.js.jinja", r"wasm\.⟦\s*destructor\s*⟧\s*\(\s*ptr\s*\)", "wasm.destructor(ptr)"),
    ]
    # control statements allowed around each slot (anything else makes a reference to an exported symbol conditional on unrelated data)
    slot_guards = {
        ("c/impl.h.jinja", "prototype name = method.abi_name"): ["for <v> in methods"],
        ("c/impl.h.jinja", "destructor prototype = dtor_name"): ["match dtor_name / when Some with (dtor_name)"],
        ("kotlin/Opaque.kt.jinja", "lib.dtor_abi_name(handle)"): ["if !use_finalizers_not_cleaners"],
        ("js/method.js.jinja", "wasm.abi_name("): ["if typescript / else"],
        ("js/opaque.js.jinja", "wasm.destructor(ptr)"): ["block header_info", "if !typescript"],
    }
    for rel, rx, what in checks:
        fl = tmpl.flat_file(rel, resolve_includes=False)
        mm = re.search(rx, fl)
        ck.expect(mm is not None, "R3", "%s/%s" % (rel, what), what, "template %s no longer prints the symbol slot (%s)" % (rel, what), "tool/templates/" + rel)
        if mm:
            g = [re.sub(r"^for \w+ in ", "for <v> in ", x_) for x_ in tmpl.guards_at(fl, mm.start())]
            want = slot_guards.get((rel, what), [])
            ck.expect(g == want, "R3", "%s/%s/guards" % (rel, what), str(g),
                      "the symbol slot (%s) is now emitted under %s (expected %s): the exported symbol is declared/used only when an unrelated condition holds "
                      "(e.g. no destructor declaration for a type without methods)" % (what, g, want), "tool/templates/" + rel)
    # no template builds a destructor/method symbol by hand
    import glob
    import os
    for path in sorted(glob.glob(os.path.join(C.REPO, "tool/templates/*/*.jinja"))):
        rel = os.path.relpath(path, os.path.join(C.REPO, "tool/templates"))
        fl = tmpl.flat_file(rel, resolve_includes=False)
        hand = re.findall(r"⟦[^⟧]*name[^⟧]*⟧_destroy\b|(?:wasm|lib)\.⟦\s*type_name\s*⟧_\w+", fl)
        ck.expect(not hand, "R3", rel + "/no-handbuilt-symbol", "", "template assembles a native symbol from a display name: %s" % hand[:2], "tool/templates/" + rel)

    # ---------------- R4 inheritance
    ra = core.fn("ast::attrs::RenameAttr::attrs_for_inheritance")
    mt = next((n for n in C.walk(C.fn_body(ra)) if n.get("k") == "match" and (n.get("sadt") or "").endswith("AttrInheritContext")), None)
    if not mt:
        ck.bad("R4", "RenameAttr::attrs_for_inheritance", "match on AttrInheritContext not found", C.loc(ra))
    else:
        table = {}
        for v, hits in C.decision_table(mt, adts):
            res = []
            for i, cond in hits:
                b = C.strip(mt["arms"][i]["b"])
                keeps = b.get("k") == "mcall" and b.get("m") == "clone"
                res.append((keeps, cond, mt["arms"][i].get("g")))
            table[v.variant] = res
        ctx = core.adt("ast::attrs::AttrInheritContext")
        all_ctx = [v["name"] for v in ctx["variants"]]
        for c in all_ctx:
            res = table.get(c, [])
            # abi_rename (is_abi_rename = true): guards of the form `!is_abi_rename` are false
            final = None
            for keeps, cond, g in res:
                if cond:
                    gs = C.strip(g) if g else {}
                    if gs.get("k") == "un" and gs.get("op") == "Not" and C.strip(gs["e"]).get("n") == "is_abi_rename":
                        continue  # guard false for abi renames
                    final = "cond"
                    break
                final = keeps
                break
            want = c != "Variant"
            ck.expect(final == want, "R4", "abi_rename-inherits/" + c, str(final), "abi_rename %s through context %s (documented: inherited everywhere except to enum variants)" % ("is kept" if final else "is dropped", c), C.loc(ra))
    at = core.fn("ast::attrs::Attrs::attrs_for_inheritance")
    calls = [n for n in C.walk(C.fn_body(at)) if n.get("k") == "mcall" and n.get("m") == "attrs_for_inheritance" and any(x.get("k") == "field" and x.get("n") == "abi_rename" for x in C.walk(n["recv"]))]
    ck.expect(len(calls) == 1 and C.strip(calls[0]["a"][1]).get("v") is True and C.strip(calls[0]["a"][0]).get("n") == "context", "R4", "Attrs::attrs_for_inheritance/abi_rename", "abi_rename.attrs_for_inheritance(context, true)", "abi_rename is not inherited with is_abi_rename = true for the given context", C.loc(at))
    ha = core.fn("hir::attrs::Attrs::from_ast")
    okc = any(n.get("k") == "assign" and C.strip(n["l"]).get("n") == "abi_rename" and any(x.get("k") == "field" and x.get("n") == "abi_rename" and "ast::attrs::Attrs" in (x.get("bty") or "") for x in C.walk(n["r"])) for n in C.walk(C.fn_body(ha)))
    ck.expect(okc, "R4", "hir::Attrs::from_ast/abi_rename-copy", "", "hir::Attrs no longer copies ast abi_rename verbatim", C.loc(ha))
    # Module::from_syn passes the right contexts
    ms = core.fn("ast::modules::Module::from_syn")
    ctxs = []
    for n in C.walk(C.fn_body(ms)):
        if n.get("k") == "mcall" and n.get("m") == "attrs_for_inheritance":
            a0 = C.strip(n["a"][0])
            ctxs.append((a0.get("ctor") or "").split("::")[-1])
    ck.expect(sorted(ctxs) == sorted(["Type", "MethodOrImplFromModule", "MethodFromImpl", "Module"]) or set(ctxs) >= {"Type", "MethodOrImplFromModule", "MethodFromImpl"}, "R4", "Module::from_syn/contexts", str(ctxs), "Module::from_syn inherits attributes with contexts %s (expected Type for types, MethodOrImplFromModule for impls, MethodFromImpl for methods)" % ctxs, C.loc(ms))

    # ---------------- R5 macro order
    items = C.fn_body(gb).get("s", [])
    i_ast = next((i for i, s in enumerate(items) if any((C.callee(x) or "").endswith("ast::modules::Module::from_syn") for x in C.calls_in(s))), None)
    i_ext = next((i for i, s in enumerate(items) if any((C.callee(x) or "").endswith("AttributeInfo::extract") for x in C.calls_in(s))), None)
    ck.expect(i_ast is not None and i_ext is not None and i_ast < i_ext, "R5", "macro::gen_bridge/ast-before-strip", "from_syn at %s, first extract at %s" % (i_ast, i_ext),
              "gen_bridge strips attributes (statement %s) before building the AST (statement %s): module-level abi_rename/attrs are invisible to the macro while the tool still sees them" % (i_ext, i_ast), C.loc(gb))

    # ---------------- R1 (cont.) the rename pattern keeps the text on BOTH sides of `{0}`
    rp = next((f for f in core.fn_list if "RenamePattern" in f["path"] and f["path"].endswith("::from_str") and "hir" in f), None)
    if rp is None:
        ck.bad("R1", "RenamePattern::from_str/anchor", "function not found", None)
    else:
        body = C.fn_body(rp)
        nodes = list(C.walk(body))
        form = None
        ok_rp = False
        if any(x.get("k") == "mcall" and x.get("m") == "split_once" and "{0}" in C.str_lits(x) for x in nodes):
            form = "split_once"
            # the (before, after) tuple must bind both halves and both must reach `replacement`
            tups = [x for n_, _ in C.with_conditions(body) for x in ([n_.get("pat")] if isinstance(n_, dict) and n_.get("k") in ("let", "letst") else []) if isinstance(x, dict)]
            tups += [arm["pat"] for x in nodes if x.get("k") == "match" for arm in x["arms"]]
            binds = []
            for p_ in tups:
                for y in C.walk({"k": "x", "e": p_}) if False else []:
                    pass

            def tuple_binds(p_):
                if not isinstance(p_, dict):
                    return None
                if p_.get("k") == "tuple" and len(p_.get("sub") or []) == 2:
                    return [q.get("n") if q.get("k") == "bind" else None for q in p_["sub"]]
                for q in (p_.get("sub") or []) if isinstance(p_.get("sub"), list) else ([p_["sub"]] if isinstance(p_.get("sub"), dict) else []):
                    r_ = tuple_binds(q.get("p") if isinstance(q, dict) and "p" in q and "k" not in q else q)
                    if r_:
                        return r_
                return None
            tb = next((tuple_binds(p_) for p_ in tups if tuple_binds(p_)), None)
            used = {x.get("n") for x in nodes if x.get("k") == "local"}
            ok_rp = bool(tb) and all(tb) and set(tb) <= used
        elif any(x.get("k") == "mcall" and x.get("m") == "find" and "{0}" in C.str_lits(x) for x in nodes):
            form = "find+slices"
            rng = {x.get("v") for x in nodes if x.get("k") == "struct" and (x.get("adt") or "").startswith("core::ops::range::")}
            ok_rp = {"RangeTo", "RangeFrom"} <= rng or "Range" in rng and "RangeFrom" in rng
        elif any(x.get("k") == "mcall" and x.get("m") in ("replace", "replacen") and "{0}" in C.str_lits(x) for x in nodes):
            form = "replace"
            ok_rp = True
        ck.expect(ok_rp, "R1", "RenamePattern::from_str/keeps-prefix-and-suffix", str(form),
                  "the abi_rename pattern parser (%s form) does not keep the text on both sides of `{0}`: `lib_{0}_v2` renames `Foo_bar` to a name without the `_v2` suffix, so exported names differ from the documented scheme" % form, C.loc(rp))

    # ---------------- R6 clauses shared with C14 and C13
    # (a) the tool analyses exactly the modules the macro expands: a plain `mod` nested in a bridge is not a bridge (C14.R3);
    # (b) abi_rename on one impl block does not leak onto later impl blocks (ast::Attrs accumulators are per item, C13.R7).
    import c14
    import c13
    sub = C.SubCheck(ck, "R6", "the tool lowers exactly the items the macro exports (nested plain modules are not analysed) and abi_rename is inherited per impl block, never carried to sibling items", ["R3"])
    c14.run(sub, facts)
    sub2 = C.SubCheck(ck, "R6", "", ["R7", "R6"], key_re=r"ast::modules|add_attrs|ast::Attrs::attrs_for_inheritance")
    c13.run(sub2, facts)

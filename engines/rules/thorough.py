"""Thorough-tier machinery shared by the property modules.

 * selftest(ck, prop)      replays every kept seeded change of the property in a scratch copy of /repo's *current*
                           working tree and re-runs the static check there: the rules must fire on each one.  This is
                           the checker checking itself (a rule that stopped seeing the code passes vacuously forever);
                           a seed that no longer applies to the tree is skipped.  Self-test results are informational
                           (they are about the checker, not about the property) and never produce a VIOLATION line.
 * ffi_lints(ck, rule)     rustc's own `improper_ctypes_definitions` / `improper_ctypes` verdict on every extern "C"
                           signature the bridge macro generates for feature_tests and example (independent oracle).
 * witnesses(ck, rule, group)  compile-fail witnesses with compiling twins (cargo +nightly test --doc on /verif/witness).
 * altcfg_runtime()        facts for diplomat-runtime built with --no-default-features (the configuration downstream
                           crates get when they do not enable jvm-callback-support/log).
"""
import glob
import json
import os
import re
import shutil
import subprocess
import tempfile

import common
from common import VERIF, WORK, REPO, CheckError, sh

COPY_ROOTS = ["Cargo.toml", "Cargo.lock", "core", "macro", "runtime", "tool", "example", "feature_tests"]


def scratch_copy():
    """A scratch copy of /repo's current working tree (sources only) outside /repo and /verif."""
    d = tempfile.mkdtemp(prefix="dipverif-scratch-")
    for r in COPY_ROOTS:
        src = os.path.join(REPO, r)
        if not os.path.exists(src):
            continue
        if os.path.isfile(src):
            shutil.copy2(src, os.path.join(d, r))
        else:
            shutil.copytree(src, os.path.join(d, r), symlinks=True,
                            ignore=shutil.ignore_patterns("target", "node_modules", ".git", "build", ".dart_tool", "*.o", "*.class"))
    return d


def selftest(ck, prop, limit=None):
    seeds = sorted(glob.glob(os.path.join(VERIF, "seeded", prop + "-*")))
    seeds = [s for s in seeds if os.path.exists(os.path.join(s, "patch.diff"))]
    if limit:
        seeds = seeds[:limit]
    if not seeds:
        ck.note("selftest: no seeded changes kept for %s" % prop)
        return
    results = []
    for sd in seeds:
        name = os.path.basename(sd)
        scratch = scratch_copy()
        try:
            r = sh(["git", "apply", "--unsafe-paths", "--directory=" + scratch, os.path.join(sd, "patch.diff")], cwd="/")
            if r.returncode != 0:
                # `git apply` outside a repository: fall back to patch(1)
                r = sh("patch -p1 -s -f -d %s < %s" % (scratch, os.path.join(sd, "patch.diff")))
            if r.returncode != 0:
                results.append((name, "skipped", "patch does not apply to the current tree"))
                continue
            evd = os.path.join(scratch, ".evidence")
            env = dict(os.environ, VERIF_REPO=scratch, VERIF_EVIDENCE_DIR=evd, VERIF_TIER="quick")
            r = sh([os.path.join(VERIF, "check"), prop, "quick"], env=env, cwd=VERIF)
            fired = [l.strip() for l in r.stdout.splitlines() if l.strip().startswith("FAIL ")]
            if r.returncode == 1 and fired:
                rules = sorted({l.split()[1].split(":")[0] for l in fired})
                results.append((name, "detected", ",".join(rules)))
            elif "check-cannot-run" in r.stdout or "check-crashed" in r.stdout:
                results.append((name, "detected-by-anchor", r.stdout[-300:]))
            else:
                results.append((name, "MISSED", "check exited %d" % r.returncode))
        finally:
            shutil.rmtree(scratch, ignore_errors=True)
    det = sum(1 for r in results if r[1].startswith("detected"))
    ck.note("selftest: %d/%d kept seeded changes of %s re-applied to a scratch copy of the current tree are detected: %s"
            % (det, len(results), prop, "; ".join("%s=%s(%s)" % r for r in results)))
    for n, st, why in results:
        if st == "MISSED":
            print("  SELFTEST-WARNING: seeded change %s is not detected on this tree (%s)" % (n, why))
    return results


# ------------------------------------------------------------------------------------------------ rustc lints


def ffi_lints(ck, rule):
    """rustc's improper_ctypes(_definitions) over the bridge crates, denied; every diagnostic is a violation."""
    ck.rule(rule, "rustc lint improper_ctypes_definitions/improper_ctypes (deny) reports nothing on the extern \"C\" items "
                  "generated for feature_tests and example (independent oracle for FFI-safe signatures)")
    target = os.path.join(WORK, "target-lint")
    os.makedirs(target, exist_ok=True)
    for d in glob.glob(os.path.join(target, "debug", ".fingerprint", "diplomat*")):
        shutil.rmtree(d, ignore_errors=True)
    env = dict(os.environ, CARGO_NET_OFFLINE="true", CARGO_TARGET_DIR=target, CARGO_INCREMENTAL="0",
               RUSTFLAGS="-Awarnings -Dimproper_ctypes_definitions -Dimproper_ctypes")
    env.pop("RUSTC_WRAPPER", None)
    env.pop("RUSTC_WORKSPACE_WRAPPER", None)
    r = sh("cargo +nightly check --offline --message-format=json -p diplomat-feature-tests -p diplomat-example -p diplomat-runtime",
           cwd=REPO, env=env)
    n_diag = 0
    units = set()
    for line in r.stdout.splitlines():
        if not line.startswith("{"):
            continue
        try:
            m = json.loads(line)
        except ValueError:
            continue
        if m.get("reason") == "compiler-artifact" and "diplomat" in m.get("target", {}).get("name", ""):
            units.add(m["target"]["name"])
        if m.get("reason") != "compiler-message":
            continue
        msg = m["message"]
        code = (msg.get("code") or {}).get("code", "")
        if msg.get("level") == "error" and code.startswith("improper_ctypes"):
            n_diag += 1
            sp = (msg.get("spans") or [{}])[0]
            # key: crate + the offending source text (no line numbers)
            key = "%s/%s" % (m.get("target", {}).get("name", "?"), re.sub(r"\s+", " ", msg.get("message", ""))[:120])
            ck.bad(rule, key, msg.get("rendered", "")[:600], "%s:%s" % (sp.get("file_name"), sp.get("line_start")))
        elif msg.get("level") == "error":
            ck.bad(rule, "build/" + m.get("target", {}).get("name", "?"), "crate does not build under the lint pass: " + msg.get("message", "")[:300])
    for u in ("diplomat_feature_tests", "diplomat_example", "diplomat_runtime"):
        ck.expect(u in units or u.replace("_", "-") in units, rule, "linted/" + u,
                  "crate compiled with the lints denied, no diagnostic", "crate was not compiled in the lint pass (units seen: %s)" % sorted(units))
    return n_diag


# ------------------------------------------------------------------------------------------------ witnesses


def witnesses(ck, rule, group):
    """Run the doctests of /verif/witness whose path contains `group::`.

    compile_fail doctests carry an error code (checked on nightly); every witness `wN` has a compiling twin `wN_twin`
    that differs only by the offending line, so a witness failing for an unrelated reason (wrong path, renamed item)
    is caught by its twin failing to build."""
    ck.rule(rule, "compile-fail witnesses (with compiling twins) for the type-level clauses: the violating program is rejected by rustc with the expected error code")
    wdir = os.path.join(VERIF, "witness")
    shutil.copy2(os.path.join(REPO, "Cargo.lock"), os.path.join(wdir, "Cargo.lock"))
    target = os.path.join(WORK, "target-witness")
    env = dict(os.environ, CARGO_NET_OFFLINE="true", CARGO_TARGET_DIR=target, VERIF_REPO_PATH=REPO)
    env.pop("RUSTC_WRAPPER", None)
    env.pop("RUSTC_WORKSPACE_WRAPPER", None)
    # the path dependency is written relative to REPO at run time so that a scratch copy can be analysed too
    with open(os.path.join(wdir, "Cargo.toml.in")) as f:
        ct = f.read().replace("@REPO@", REPO)
    with open(os.path.join(wdir, "Cargo.toml"), "w") as f:
        f.write(ct)
    r = sh("cargo +nightly test --offline --doc -- %s::" % group, cwd=wdir, env=env)
    seen = 0
    for line in r.stdout.splitlines():
        m = re.match(r"test src/lib\.rs - (\S+) \(line \d+\)( - compile fail)? \.\.\. (\w+)", line.strip())
        if not m:
            continue
        name, cf, res = m.group(1), bool(m.group(2)), m.group(3)
        if not name.startswith(group + "::"):
            continue
        seen += 1
        kind = "witness" if cf else "twin"
        ck.expect(res == "ok", rule, "%s/%s" % (kind, name),
                  "rustc rejects the violating program with the expected code" if cf else "twin without the offending line compiles",
                  ("the violating program now COMPILES (or fails with a different error)" if cf else
                   "the compiling twin no longer builds: witness is not diagnostic") + " — see `cargo +nightly test --doc` in /verif/witness")
    if seen == 0:
        ck.bad(rule, "no-witness-ran", "doctest run produced no results for group %s:\n%s" % (group, r.stdout[-1500:]))
    return seen


# ------------------------------------------------------------------------------------------------ alternative cfg


_ALT = {}


def altcfg_runtime():
    """Facts for diplomat-runtime with --no-default-features (no jni, no log)."""
    key = common.source_hash(REPO)
    if key in _ALT:
        return _ALT[key]
    fdir = os.path.join(WORK, "facts-alt", key)
    done = os.path.join(fdir, "DONE")
    if not os.path.exists(done):
        shutil.rmtree(os.path.join(WORK, "facts-alt"), ignore_errors=True)
        common.run_driver(fdir, REPO, target=os.path.join(WORK, "target-alt"),
                          extra_args="-p diplomat-runtime --no-default-features")
        if not os.path.exists(os.path.join(fdir, "diplomat_runtime.lib.json")):
            raise CheckError("alt-cfg fact pass produced no runtime facts")
        open(done, "w").write("ok\n")

    class AltFacts(common.Facts):
        pass
    main = common.ensure_facts()
    alt = AltFacts(main.dir)
    with open(os.path.join(fdir, "diplomat_runtime.lib.json")) as f:
        d = json.load(f)
    alt._units["diplomat_runtime.lib"] = common.Unit("diplomat_runtime.lib", d)
    _ALT[key] = alt
    return alt

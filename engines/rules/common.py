"""Shared machinery for the per-property rule modules.

 * fact extraction management (runs the dipfacts rustc driver over /repo's working tree,
   keyed by a hash of the sources, fail-closed on missing units / floors)
 * typed-HIR tree helpers (walk, find, decision-table expansion)
 * MIR helpers (CFG, dominators, reachability)
 * rule-instance bookkeeping, known findings, evidence and VIOLATION/replay output
"""
import fcntl
import glob
import hashlib
import json
import os
import re
import shutil
import subprocess
import sys
import time

VERIF = os.path.dirname(os.path.dirname(os.path.dirname(os.path.abspath(__file__))))
REPO = os.environ.get("VERIF_REPO", "/repo")
WORK = os.path.join(VERIF, ".work")
DRIVER_DIR = os.path.join(VERIF, "engines", "dipfacts")
DRIVER = os.path.join(DRIVER_DIR, "target", "release", "dipfacts")

UNIT_FLOORS = {  # counted on the pinned tree; a silently skipped wrapper fails closed
    "diplomat_runtime.lib": 40,
    "diplomat_core.lib+hir": 1000,
    "diplomat_core.lib": 580,
    "diplomat.lib": 22,
    "diplomat_tool.lib": 800,
    "diplomat_tool.bin": 20,
    "diplomat_feature_tests.lib": 420,
    "diplomat_example.lib": 25,
}

SRC_EXT = (".rs", ".jinja", ".mjs", ".dart", ".kt", ".toml", ".lock", ".h", ".hpp", ".md", ".py", ".ts", ".js")


class CheckError(Exception):
    """The check itself cannot run (missing anchor, broken extractor): fail closed."""


def sh(cmd, **kw):
    return subprocess.run(cmd, shell=isinstance(cmd, str), stdout=subprocess.PIPE, stderr=subprocess.STDOUT, text=True, **kw)


def nightly_sysroot():
    r = sh("rustc +nightly --print sysroot")
    return r.stdout.strip()


def source_hash(repo=REPO):
    h = hashlib.sha256()
    roots = ["Cargo.toml", "Cargo.lock", "core", "macro", "runtime", "tool", "example/src", "example/Cargo.toml",
             "feature_tests/src", "feature_tests/Cargo.toml"]
    files = []
    for r in roots:
        p = os.path.join(repo, r)
        if os.path.isfile(p):
            files.append(p)
        else:
            for dp, dn, fn in os.walk(p):
                dn[:] = [d for d in dn if d not in ("target", ".git", "node_modules", "snapshots")]
                for f in fn:
                    if f.endswith(SRC_EXT):
                        files.append(os.path.join(dp, f))
    for f in sorted(files):
        h.update(os.path.relpath(f, repo).encode())
        h.update(b"\0")
        try:
            with open(f, "rb") as fh:
                h.update(fh.read())
        except OSError:
            pass
        h.update(b"\0")
    # the driver itself is part of the key
    for f in sorted(glob.glob(os.path.join(DRIVER_DIR, "src", "*.rs"))):
        with open(f, "rb") as fh:
            h.update(fh.read())
    return h.hexdigest()[:20]


def build_driver():
    if os.path.exists(DRIVER):
        newest = max(os.path.getmtime(f) for f in glob.glob(os.path.join(DRIVER_DIR, "src", "*.rs")))
        if os.path.getmtime(DRIVER) >= newest:
            return
    r = sh("cargo build --offline --release", cwd=DRIVER_DIR,
           env=dict(os.environ, CARGO_NET_OFFLINE="true"))
    if r.returncode != 0 or not os.path.exists(DRIVER):
        raise CheckError("cannot build dipfacts driver:\n" + r.stdout[-3000:])


def run_driver(outdir, repo=REPO, target=None, extra_args="--workspace", extra_env=None, features_note=""):
    """Run the fact extractor over `repo` (cargo check with the driver as workspace wrapper)."""
    build_driver()
    target = target or os.path.join(WORK, "target")
    os.makedirs(outdir, exist_ok=True)
    os.makedirs(target, exist_ok=True)
    # cargo's freshness cache would skip the wrapper: drop the members' fingerprints
    for d in glob.glob(os.path.join(target, "debug", ".fingerprint", "diplomat*")):
        shutil.rmtree(d, ignore_errors=True)
    env = dict(os.environ)
    env.update({
        "CARGO_NET_OFFLINE": "true",
        "CARGO_INCREMENTAL": "0",
        "LD_LIBRARY_PATH": nightly_sysroot() + "/lib",
        "RUSTFLAGS": "-Zmir-opt-level=0 -Awarnings",
        "RUSTC_WORKSPACE_WRAPPER": DRIVER,
        "DIPFACTS_OUT": outdir,
        "CARGO_TARGET_DIR": target,
    })
    env.pop("RUSTC_WRAPPER", None)
    if extra_env:
        env.update(extra_env)
    r = sh("cargo +nightly check --offline %s" % extra_args, cwd=repo, env=env)
    if r.returncode != 0:
        raise CheckError("cargo check under the fact extractor failed (does /repo compile?):\n" + r.stdout[-4000:])
    return r.stdout


def ensure_facts(repo=REPO):
    """Facts for the current working tree of `repo`; re-extracted whenever any source changed."""
    os.makedirs(WORK, exist_ok=True)
    key = source_hash(repo)
    fdir = os.path.join(WORK, "facts", key)
    lock = open(os.path.join(WORK, "facts.lock"), "w")
    fcntl.flock(lock, fcntl.LOCK_EX)
    try:
        done = os.path.join(fdir, "DONE")
        if not os.path.exists(done):
            if os.path.isdir(fdir):
                shutil.rmtree(fdir)
            # keep at most 12 fact dirs; never remove one younger than 30 minutes (parallel scratch analyses may be using it)
            olds = sorted(glob.glob(os.path.join(WORK, "facts", "*")), key=os.path.getmtime)
            for o in olds[:-12]:
                if time.time() - os.path.getmtime(o) > 1800:
                    shutil.rmtree(o, ignore_errors=True)
            t0 = time.time()
            run_driver(fdir, repo)
            for u in UNIT_FLOORS:
                if not os.path.exists(os.path.join(fdir, u + ".json")):
                    raise CheckError("fact extractor produced no facts for unit %s (wrapper skipped?)" % u)
            with open(done, "w") as f:
                f.write("%.1f\n" % (time.time() - t0))
        try:
            os.utime(fdir, None)   # LRU: mark as in use
        except OSError:
            pass
    finally:
        fcntl.flock(lock, fcntl.LOCK_UN)
        lock.close()
    global CURRENT_FACTS
    CURRENT_FACTS = Facts(fdir)
    CURRENT_FACTS.repo = repo
    return CURRENT_FACTS


CURRENT_FACTS = None


def template_canon(rel_under_templates, text, repo):
    """template text with renamed template-struct fields / template locals spelled as in the reference tree (alpha.py)"""
    if os.environ.get("VERIF_NO_ALPHA"):
        return text
    import alpha
    f = CURRENT_FACTS if CURRENT_FACTS is not None and getattr(CURRENT_FACTS, "repo", None) == repo else None
    return alpha.template_text(rel_under_templates, text, repo, f)


# --------------------------------------------------------------------------- facts


def desugar_bool_match(root):
    """`match c { true => A, false => B }` (either order, `_` for the second arm) is rewritten in place as `if c { A } else { B }`: the two spellings are one
    construct for every rule"""
    st = [root]
    while st:
        x = st.pop()
        if isinstance(x, list):
            st.extend(v for v in x if isinstance(v, (dict, list)))
            continue
        if x.get("k") == "match" and isinstance(x.get("arms"), list) and len(x["arms"]) == 2 and not any(a.get("g") for a in x["arms"]):
            p0, p1 = x["arms"][0]["pat"], x["arms"][1]["pat"]
            def lit_bool(p):
                return p.get("v") if isinstance(p, dict) and p.get("k") == "lit" and isinstance(p.get("v"), bool) else None
            b0, b1 = lit_bool(p0), lit_bool(p1)
            if b0 is not None and (b1 == (not b0) or (b1 is None and isinstance(p1, dict) and p1.get("k") == "wild")):
                t_arm, e_arm = (x["arms"][0], x["arms"][1]) if b0 else (x["arms"][1], x["arms"][0])
                def as_block(b):
                    b_ = b
                    return b_ if isinstance(b_, dict) and b_.get("k") == "block" else {"k": "block", "s": [], "e": b_, "ln": x.get("ln")}
                new = {"k": "if", "c": x["s"], "t": as_block(t_arm["b"]), "e": as_block(e_arm["b"]), "ln": x.get("ln"), "was_match": True}
                for key in ("nv", "ty"):
                    if key in x:
                        new[key] = x[key]
                x.clear()
                x.update(new)
        st.extend(v for v in x.values() if isinstance(v, (dict, list)))
    annotate_matches_conditions(root)


def _bool_match(e):
    """e (through macro wrappers) is `match s { P.. => true/false, .. }` (what `matches!` expands to): the match node, else None"""
    for _ in range(6):
        if not isinstance(e, dict):
            return None
        if e.get("k") == "macro":
            e = e.get("inner")
            continue
        if e.get("k") == "block" and not e.get("s") and isinstance(e.get("e"), dict):
            e = e["e"]
            continue
        break
    if isinstance(e, dict) and e.get("k") == "match" and e.get("arms") and all(
            isinstance(a.get("b"), dict) and a["b"].get("k") == "lit" and isinstance(a["b"].get("v"), bool) for a in e["arms"]):
        return e
    return None


def annotate_matches_conditions(root):
    """`if matches!(x, P) {T} else {E}` -- also with the test bound to a local first (`let w = matches!(x, P); if w {T}`) or negated -- gets the
    equivalent `match x { P => T, _ => E }` attached as n["cm"]; iflet_as_match() hands it out, so rules that read variant-selected arms see the three
    spellings alike"""
    lets = {}
    nodes = []
    st = [root]
    while st:
        x = st.pop()
        if isinstance(x, list):
            st.extend(v for v in x if isinstance(v, (dict, list)))
            continue
        k = x.get("k")
        if k == "letst" and isinstance(x.get("pat"), dict) and x["pat"].get("k") == "bind" and "Mut" not in (x["pat"].get("mode") or "") and x.get("init") is not None:
            bm = _bool_match(x["init"])
            if bm is not None:
                lets[x["pat"].get("id")] = bm
        elif k == "if":
            nodes.append(x)
        st.extend(v for v in x.values() if isinstance(v, (dict, list)))
    for n in nodes:
        c = n.get("c")
        neg = False
        for _ in range(6):
            if isinstance(c, dict) and c.get("k") == "un" and c.get("op") == "Not":
                neg = not neg
                c = c.get("e")
            elif isinstance(c, dict) and c.get("k") in ("paren", "type", "use") and isinstance(c.get("e"), dict):
                c = c["e"]
            else:
                break
        bm = _bool_match(c)
        if bm is None and isinstance(c, dict) and c.get("k") == "local":
            bm = lets.get(c.get("id"))
        if bm is None:
            continue
        t_, e_ = n["t"], n.get("e") or {"k": "tup", "a": []}
        arms = []
        for a in bm["arms"]:
            val = a["b"]["v"] != neg
            arms.append({"pat": a["pat"], "g": a.get("g"), "b": t_ if val else e_})
        n["cm"] = {"k": "match", "s": bm.get("s"), "sty": bm.get("sty"), "sadt": bm.get("sadt"), "ln": n.get("ln"), "arms": arms, "synthetic": True}


class Unit:
    def __init__(self, name, data):
        self.name = name
        self.data = data
        self.crate = data["crate"]
        self.fns = {}
        for f in data["fns"]:
            # closures may repeat paths; keep first, store all in list
            self.fns.setdefault(f["path"], f)
        self.fn_list = data["fns"]
        for f in data["fns"]:
            if f.get("hir") and not f.get("_desugared"):
                desugar_bool_match(f["hir"])
                f["_desugared"] = True
        self.norm = {}
        for f in data["fns"]:
            self.norm.setdefault(norm_path(f["path"]), f)
        self.adts = {a["path"]: a for a in data["adts"]}

    def fn(self, suffix, optional=False):
        """Look a function up by path suffix (module moves inside the crate are tolerated)."""
        suffix_n = norm_path(suffix)
        c = [f for p, f in self.norm.items() if p == suffix_n or p.endswith("::" + suffix_n)]
        c = [f for f in c if f.get("dk") != "Closure"]
        if not c and suffix_n.startswith(self.crate + "::"):
            # the item may have moved into a sub-module of the crate: retry without the crate prefix
            s2 = suffix_n[len(self.crate) + 2:]
            c = [f for p, f in self.norm.items() if p.endswith("::" + s2) and f.get("dk") != "Closure"]
        if len(c) > 1:
            # prefer the unique shortest path (an item of the same name nested deeper is a different thing)
            m = min(f["path"].count("::") for f in c)
            short = [f for f in c if f["path"].count("::") == m]
            if len(short) == 1:
                c = short
        if not c:
            # the item may have moved to another module of the crate (a new private submodule, an impl block in a sibling file): same function name, same
            # owning type (as a path segment or as the self type of an `<impl ..>` segment), and still below the first module the anchor names
            segs = [x for x in re.split(r"::(?![^<]*>)", suffix_n) if x]
            if segs and segs[0] == self.crate:
                segs = segs[1:]
            if len(segs) >= 2:
                name_, owner_, head_ = segs[-1], re.sub(r"<.*$", "", segs[-2]), segs[0]
                cc = []
                for p_, f in self.norm.items():
                    if f.get("dk") == "Closure" or not p_.endswith("::" + name_):
                        continue
                    ps = [x for x in re.split(r"::(?![^<]*>)", p_) if x]
                    own = ps[-2] if len(ps) >= 2 else ""
                    own_ok = re.sub(r"<.*$", "", own) == owner_ or (own.startswith("<impl ") and re.search(r"(^|[:\s<])%s\b" % re.escape(owner_), own) is not None)
                    if own_ok and (head_ == owner_ or head_ in ps or len(segs) == 2):
                        cc.append(f)
                if len(cc) == 1:
                    c = cc
        if len(c) == 1:
            return c[0]
        if not c:
            if optional:
                return None
            raise CheckError("anchor function `%s` not found in unit %s" % (suffix, self.name))
        raise CheckError("anchor function `%s` is ambiguous in unit %s: %s" % (suffix, self.name, [f["path"] for f in c]))

    def fns_matching(self, regex):
        r = re.compile(regex)
        return [f for f in self.fn_list if r.search(f["path"])]

    def adt(self, suffix, optional=False):
        c = [a for p, a in self.adts.items() if p == suffix or p.endswith("::" + suffix)]
        if not c and "::" in suffix:
            # the type may have moved to another module of the crate (re-exported under the old name): retry by bare name
            last = suffix.rsplit("::", 1)[1]
            c = [a for p, a in self.adts.items() if p == last or p.endswith("::" + last)]
        if len(c) == 1:
            return c[0]
        if not c and optional:
            return None
        raise CheckError("anchor type `%s` not found/ambiguous in unit %s (%d candidates)" % (suffix, self.name, len(c)))


class Facts:
    def __init__(self, fdir):
        self.dir = fdir
        self._units = {}

    def unit(self, name):
        if name not in self._units:
            p = os.path.join(self.dir, name + ".json")
            if not os.path.exists(p):
                raise CheckError("no facts for unit " + name)
            with open(p) as f:
                d = json.load(f)
            if d["n_fn"] < UNIT_FLOORS.get(name, 0):
                raise CheckError("unit %s has %d functions, below the floor %d" % (name, d["n_fn"], UNIT_FLOORS[name]))
            if not os.environ.get("VERIF_NO_ALPHA"):
                # private items renamed since the rules were written are spelled back (see alpha.py)
                import alpha
                for dep in alpha.DEPS.get(name, []):
                    if dep not in self._units and os.path.exists(os.path.join(self.dir, dep + ".json")):
                        self.unit(dep)
                alpha.canonicalise(name, d)
            self._units[name] = Unit(name, d)
        return self._units[name]

    @property
    def runtime(self):
        return self.unit("diplomat_runtime.lib")

    @property
    def core(self):
        return self.unit("diplomat_core.lib+hir")

    @property
    def core_nohir(self):
        return self.unit("diplomat_core.lib")

    @property
    def macro(self):
        return self.unit("diplomat.lib")

    @property
    def tool(self):
        return self.unit("diplomat_tool.lib")

    @property
    def toolbin(self):
        return self.unit("diplomat_tool.bin")

    @property
    def ft(self):
        return self.unit("diplomat_feature_tests.lib")

    @property
    def example(self):
        return self.unit("diplomat_example.lib")

    def all_adts(self):
        out = {}
        for n in ("diplomat_runtime.lib", "diplomat_core.lib+hir", "diplomat_tool.lib", "diplomat.lib"):
            out.update(self.unit(n).adts)
        # synthetic std ADTs the decision-table expansion may need to split on
        out["core::option::Option"] = {"path": "core::option::Option", "kind": "enum", "variants": [
            {"name": "None", "fields": []}, {"name": "Some", "fields": [{"name": "0", "ty": "T"}]}]}
        out["core::result::Result"] = {"path": "core::result::Result", "kind": "enum", "variants": [
            {"name": "Ok", "fields": [{"name": "0", "ty": "T"}]}, {"name": "Err", "fields": [{"name": "0", "ty": "E"}]}]}
        return out


# --------------------------------------------------------------------------- HIR tree helpers

CHILD_KEYS = ("f", "a", "recv", "e", "l", "r", "c", "t", "s", "b", "body", "init", "els", "i", "iter", "inner", "base", "g")


def children(n):
    """Direct child nodes (expressions, blocks, arms' guards and bodies)."""
    if isinstance(n, list):
        for x in n:
            if isinstance(x, (dict, list)):
                yield x
        return
    if not isinstance(n, dict):
        return
    k = n.get("k")
    for key, v in n.items():
        if key in ("pat", "params", "sub", "alts", "cm"):
            continue
        if key == "arms":
            for a in v:
                if a.get("g"):
                    yield a["g"]
                yield a["b"]
            continue
        if key == "fields" and k == "struct":
            for f in v:
                yield f["e"]
            continue
        if isinstance(v, dict) and "k" in v:
            yield v
        elif isinstance(v, list):
            for x in v:
                if isinstance(x, dict) and "k" in x:
                    yield x


def walk(n):
    """Pre-order traversal over all expression nodes below n (including n)."""
    stack = [n]
    while stack:
        x = stack.pop()
        if isinstance(x, dict):
            if "k" in x:
                yield x
            ch = list(children(x))
            stack.extend(reversed(ch))
        elif isinstance(x, list):
            stack.extend(reversed(x))


def fn_body(f):
    return f["hir"]["body"]


def strip(n):
    """Peel wrappers that do not change the value: blocks with only a tail, macros, addr-of, use, type ascription."""
    while isinstance(n, dict):
        k = n.get("k")
        if k == "block" and not n.get("s") and n.get("e"):
            n = n["e"]
        elif k == "macro":
            n = n["inner"]
        elif k in ("addr", "use", "type", "semi"):
            n = n["e"]
        elif k == "un" and n.get("op") == "Deref":
            n = n["e"]
        else:
            break
    return n


def callee(n):
    """Resolved callee path of a call/mcall node (impl path when known)."""
    if n.get("k") in ("call", "mcall"):
        return norm_path(n.get("ip") or n.get("p"))
    return None


def calls_in(n):
    for x in walk(n):
        if x.get("k") in ("call", "mcall"):
            yield x


def str_lits(n):
    out = []
    for x in walk(n):
        if x.get("k") == "lit" and x.get("t") == "str":
            out.append(x["v"])
        elif x.get("k") == "macro":
            out.extend(macro_strings(x))
    return out


_STR_RE = re.compile(r'"((?:[^"\\]|\\.)*)"', re.S)


def macro_strings(m):
    """String literals in a macro call's source text (format strings etc.)."""
    src = m.get("src", "")
    # cut the macro name
    out = []
    for mm in _STR_RE.finditer(src):
        out.append(bytes(mm.group(1), "utf-8").decode("unicode_escape", errors="replace") if "\\" in mm.group(1) else mm.group(1))
    return out


def _split_top(s_, sep=","):
    out, depth, cur, q = [], 0, [], None
    i = 0
    while i < len(s_):
        ch = s_[i]
        if q:
            cur.append(ch)
            if ch == "\\" and i + 1 < len(s_):
                cur.append(s_[i + 1])
                i += 1
            elif ch == q:
                q = None
        elif ch == '"':
            q = ch
            cur.append(ch)
        elif ch in "([{":
            depth += 1
            cur.append(ch)
        elif ch in ")]}":
            depth -= 1
            cur.append(ch)
        elif ch == sep and depth == 0:
            out.append("".join(cur))
            cur = []
        else:
            cur.append(ch)
        i += 1
    if "".join(cur).strip():
        out.append("".join(cur))
    return out


def macro_fmt_canon(m):
    """Format string of a format!-like macro call with every placeholder spelled as `{<argument text>}` -- positional (`{}`, `{0}`), named (`{x}` with
    `x = e`) and inline-captured (`{x}`) spellings of the same formatting give the same string.  None when the call has no format string."""
    src = m.get("src", "")
    i = src.find("(")
    j = src.rfind(")")
    if i < 0:
        i, j = src.find("["), src.rfind("]")
    if i < 0:
        i, j = src.find("{"), src.rfind("}")
    if i < 0 or j <= i:
        return None
    args = [a.strip() for a in _split_top(src[i + 1:j])]
    k = next((n_ for n_, a in enumerate(args) if a.startswith('"') or a.startswith('r"') or a.startswith('r#"')), None)
    if k is None:
        return None
    mm = _STR_RE.search(args[k])
    if not mm:
        return None
    fmt = mm.group(1)
    pos, named = [], {}
    for a in args[k + 1:]:
        m2 = re.match(r"^([A-Za-z_]\w*)\s*=(?!=)\s*(.*)$", a, re.S)
        if m2:
            named[m2.group(1)] = re.sub(r"\s+", " ", m2.group(2).strip())
        else:
            pos.append(re.sub(r"\s+", " ", a))
    out, nxt, p = [], 0, 0
    while p < len(fmt):
        ch = fmt[p]
        if ch == "{" and fmt[p + 1:p + 2] == "{":
            out.append("{{")
            p += 2
            continue
        if ch == "}" and fmt[p + 1:p + 2] == "}":
            out.append("}}")
            p += 2
            continue
        if ch == "{":
            e = fmt.find("}", p)
            if e < 0:
                return None
            inner = fmt[p + 1:e]
            nm, _, spec = inner.partition(":")
            nm = nm.strip()
            if nm == "":
                txt = pos[nxt] if nxt < len(pos) else "?"
                nxt += 1
            elif nm.isdigit():
                txt = pos[int(nm)] if int(nm) < len(pos) else "?"
            else:
                txt = named.get(nm, nm)
            out.append("{" + txt + ((":" + spec) if spec else "") + "}")
            p = e + 1
            continue
        out.append(ch)
        p += 1
    return "".join(out)


PANIC_MACROS = {"panic", "unreachable", "unimplemented", "todo", "assert", "assert_eq", "assert_ne", "debug_assert",
                "debug_assert_eq", "debug_assert_ne"}
HARD_PANIC_MACROS = {"panic", "unreachable", "unimplemented", "todo"}


def diverges(n):
    """The expression never produces a value (type `!`): panic family, return/break/continue."""
    n0 = n
    n = strip_keep_macro(n)
    if isinstance(n, dict):
        if n.get("nv"):
            return True
        if n.get("k") == "macro" and n.get("name") in HARD_PANIC_MACROS:
            return True
        if n.get("k") == "block":
            if n.get("e") is not None:
                return diverges(n["e"])
            if n.get("s"):
                return diverges(n["s"][-1])
    return False


def strip_keep_macro(n):
    while isinstance(n, dict):
        k = n.get("k")
        if k == "block" and not n.get("s") and n.get("e"):
            n = n["e"]
        elif k in ("use", "type", "semi"):
            n = n["e"]
        else:
            break
    return n


def panic_macro_of(n):
    """If evaluating n unconditionally hits a panic-family macro at its head, return (name, message)."""
    n = strip_keep_macro(n)
    if isinstance(n, dict) and n.get("k") == "macro" and n.get("name") in HARD_PANIC_MACROS:
        ss = macro_strings(n)
        return n["name"], (ss[0] if ss else "")
    if isinstance(n, dict) and n.get("k") == "block":
        last = n.get("e") or (n["s"][-1] if n.get("s") else None)
        if last is not None and len(n.get("s") or []) <= 1:
            return panic_macro_of(last)
    return None


# --------------------------------------------------------------------------- patterns / decision tables


def pat_binds(p, out=None):
    out = [] if out is None else out
    if not isinstance(p, dict):
        return out
    k = p.get("k")
    if k == "bind":
        out.append(p["n"])
        if p.get("sub"):
            pat_binds(p["sub"], out)
    elif k == "variant":
        for s_ in p.get("sub", []):
            pat_binds(s_, out)
        for f in p.get("fields", []):
            pat_binds(f["p"], out)
    elif k in ("or",):
        for a in p["alts"]:
            pat_binds(a, out)
    elif k in ("tuple",):
        for s_ in p["sub"]:
            pat_binds(s_, out)
    elif k in ("ref", "guardpat"):
        pat_binds(p["sub"], out)
    return out


class Val:
    """A (partially expanded) value tree: constructor of an ADT with sub-values, or unknown."""
    __slots__ = ("adt", "variant", "subs", "ty")

    def __init__(self, ty=None, adt=None, variant=None, subs=None):
        self.ty = ty
        self.adt = adt
        self.variant = variant
        self.subs = subs  # list of Val (positional, in field order) when variant known

    def show(self):
        if self.variant is None:
            return "_"
        if not self.subs or all(s_.variant is None for s_ in self.subs):
            return self.variant
        return "%s(%s)" % (self.variant, ",".join(s_.show() for s_ in self.subs))


def _field_index(adts, adt_path, variant, name):
    a = adts.get(adt_path)
    if not a:
        return None
    for v in a["variants"]:
        if v["name"] == variant:
            for i, f in enumerate(v["fields"]):
                if f["name"] == name:
                    return i
    return None


def _variant_arity(adts, adt_path, variant):
    a = adts.get(adt_path)
    if not a:
        return None
    for v in a["variants"]:
        if v["name"] == variant:
            return len(v["fields"])
    return None


def pat_match(p, v, adts):
    """Does pattern p match value v?  Returns True / False / ('split', val_to_split) when v must be refined."""
    k = p.get("k")
    if k in ("wild", "bind"):
        if k == "bind" and p.get("sub"):
            return pat_match(p["sub"], v, adts)
        return True
    if k in ("ref", "guardpat"):
        return pat_match(p["sub"], v, adts)
    if k == "or":
        for a in p["alts"]:
            r = pat_match(a, v, adts)
            if r is True:
                return True
            if isinstance(r, tuple):
                return r
        return False
    if k == "variant":
        if not p.get("enum") and p.get("adt") not in adts:
            # struct pattern on a non-enum: always matches at this level, look inside
            pass
        if v.variant is None:
            return ("split", v, p.get("adt"))
        if p.get("enum") and p.get("v") != v.variant:
            return False
        subs = v.subs or []
        if "fields" in p:
            for f in p["fields"]:
                idx = _field_index(adts, p["adt"], v.variant, f["n"])
                if idx is None or idx >= len(subs):
                    continue
                r = pat_match(f["p"], subs[idx], adts)
                if r is not True:
                    return r
            return True
        sp = p.get("sub", [])
        dd = p.get("dd")
        if dd is None:
            pairs = list(zip(sp, subs))
        else:
            tail = len(sp) - dd
            pairs = list(zip(sp[:dd], subs[:dd])) + (list(zip(sp[dd:], subs[len(subs) - tail:])) if tail else [])
        for sp_, sv in pairs:
            r = pat_match(sp_, sv, adts)
            if r is not True:
                return r
        return True
    if k == "tuple":
        if v.subs is None:
            return ("split", v, "tuple:%d" % len(p["sub"]))
        for sp_, sv in zip(p["sub"], v.subs):
            r = pat_match(sp_, sv, adts)
            if r is not True:
                return r
        return True
    if k in ("lit", "constpat", "range", "slice"):
        return ("opaque", p)
    return True


def _type_to_adt(ty, adts):
    """Map a field type string to a known ADT path (peeling refs, Box, generics)."""
    t = ty.strip()
    while True:
        m = re.match(r"^&(?:'\w+ )?(?:mut )?(.*)$", t)
        if m:
            t = m.group(1).strip()
            continue
        m = re.match(r"^(?:alloc::boxed::Box|std::boxed::Box)<(.*)>$", t)
        if m:
            # strip allocator param if printed
            t = m.group(1).strip()
            continue
        break
    base = re.sub(r"<.*$", "", t)
    if base in ("core::option::Option", "std::option::Option"):
        return "core::option::Option"
    return base if base in adts else None


def expand_values(adt_path, pats, adts, limit=5000):
    """Enumerate constructor trees of adt_path refined as deep as `pats` inspect; returns list of Val."""
    def copy(v):
        return Val(v.ty, v.adt, v.variant, [copy(s_) for s_ in v.subs] if v.subs is not None else None)

    def split(root, target, adt_hint):
        """Return list of roots where `target` (by identity path) is replaced by each variant of its adt."""
        path = find_path(root, target)
        adt_p = target.adt or adt_hint
        outs = []
        if isinstance(adt_p, str) and adt_p.startswith("tuple:"):
            n = int(adt_p.split(":")[1])
            r2 = copy(root)
            t2 = follow(r2, path)
            t2.variant = "()"
            t2.subs = [Val() for _ in range(n)]
            return [r2]
        a = adts.get(adt_p)
        if not a:
            return None
        for var in a["variants"]:
            r2 = copy(root)
            t2 = follow(r2, path)
            t2.adt = adt_p
            t2.variant = var["name"]
            t2.subs = [Val(ty=f["ty"], adt=_type_to_adt(f["ty"], adts)) for f in var["fields"]]
            outs.append(r2)
        return outs

    def find_path(root, target):
        if root is target:
            return []
        if root.subs:
            for i, s_ in enumerate(root.subs):
                p = find_path(s_, target)
                if p is not None:
                    return [i] + p
        return None

    def follow(root, path):
        for i in path:
            root = root.subs[i]
        return root

    work = [Val(adt=adt_path)]
    done = []
    n_iter = 0
    while work:
        n_iter += 1
        if n_iter > limit:
            raise CheckError("decision table expansion exceeded limit for " + adt_path)
        v = work.pop()
        refined = False
        for p in pats:
            r = pat_match(p, v, adts)
            if r is True:
                break  # first matching arm decides; no further refinement needed
            if isinstance(r, tuple) and r[0] == "split":
                outs = split(v, r[1], r[2])
                if outs is None:
                    # unknown ADT: cannot refine; treat as opaque
                    continue
                work.extend(outs)
                refined = True
                break
        if not refined:
            done.append(v)
    return done


def decision_table(match_node, adts, adt_path=None):
    """value-tree -> index of the first arm whose pattern matches (guards reported as conditional).

    Returns list of (Val, [(arm_index, conditional)]) where the list ends with the first unconditional arm."""
    adt_path = adt_path or match_node.get("sadt")
    arms = match_node["arms"]
    pats = [a["pat"] for a in arms]
    vals = expand_values(adt_path, pats, adts)
    table = []
    for v in vals:
        hits = []
        for i, a in enumerate(arms):
            r = pat_match(a["pat"], v, adts)
            if r is True:
                if a.get("g"):
                    hits.append((i, True))
                    continue
                hits.append((i, False))
                break
            if isinstance(r, tuple) and r[0] == "opaque":
                hits.append((i, True))
        table.append((v, hits))
    return table


def iflet_as_match(n):
    """View `if let P = x {A} else {B}` / `matches!` as a two-arm match node."""
    if n.get("k") == "if" and isinstance(n.get("c"), dict) and strip_keep_macro(n["c"]).get("k") == "let":
        c = strip_keep_macro(n["c"])
        return {"k": "match", "sty": c.get("ity"), "s": c["init"], "ln": n.get("ln"),
                "arms": [{"pat": c["pat"], "g": None, "b": n["t"]},
                         {"pat": {"k": "wild"}, "g": None, "b": n.get("e") or {"k": "tup", "a": []}}]}
    if n.get("k") == "if" and n.get("cm"):
        return n["cm"]
    return None


# --------------------------------------------------------------------------- MIR helpers


class Cfg:
    def __init__(self, mir, ignore_cleanup=True):
        self.mir = mir
        self.blocks = {b["id"]: b for b in mir["blocks"]}
        self.succ = {}
        for b in mir["blocks"]:
            if ignore_cleanup and b.get("cleanup"):
                continue
            self.succ[b["id"]] = self._succ(b["term"])
        self.pred = {i: [] for i in self.succ}
        for i, ss in self.succ.items():
            for s_ in ss:
                if s_ in self.pred:
                    self.pred[s_].append(i)
        self._dom = None

    def _succ(self, t):
        k = t["k"]
        if k == "goto":
            return [t["t"]]
        if k == "switch":
            return [x[1] for x in t["targets"]] + [t["otherwise"]]
        if k in ("drop", "assert"):
            return [t["t"]]
        if k == "call":
            return [t["t"]] if t.get("t") is not None else []
        return []

    def reachable_from(self, start, avoid=()):
        seen = set()
        st = [start]
        while st:
            x = st.pop()
            if x in seen or x in avoid or x not in self.succ:
                continue
            seen.add(x)
            st.extend(self.succ[x])
        return seen

    def dominators(self):
        if self._dom is not None:
            return self._dom
        nodes = list(self.reachable_from(0))
        dom = {n: set(nodes) for n in nodes}
        dom[0] = {0}
        changed = True
        while changed:
            changed = False
            for n in nodes:
                if n == 0:
                    continue
                ps = [p for p in self.pred[n] if p in dom]
                new = set(nodes)
                for p in ps:
                    new &= dom[p]
                new = new | {n}
                if new != dom[n]:
                    dom[n] = new
                    changed = True
        self._dom = dom
        return dom

    def dominates(self, a, b):
        return a in self.dominators().get(b, set())

    def calls(self):
        for b in self.mir["blocks"]:
            if b.get("cleanup"):
                continue
            if b["term"]["k"] == "call":
                yield b["id"], b["term"]

    def returns(self):
        return [i for i, b in self.blocks.items() if not b.get("cleanup") and b["term"]["k"] == "return"]


def norm_path(p):
    """Drop turbofish segments (`::<T, A>`) from a def path; `::<impl ..>` segments are kept."""
    if not p or "::<" not in p:
        return p
    out = []
    i = 0
    n = len(p)
    while i < n:
        if p.startswith("::<", i) and not p.startswith("::<impl ", i):
            depth = 0
            j = i + 2
            while j < n:
                if p[j] == "<":
                    depth += 1
                elif p[j] == ">" and p[j - 1] != "-":
                    depth -= 1
                    if depth == 0:
                        break
                j += 1
            i = j + 1
            continue
        out.append(p[i])
        i += 1
    return "".join(out)


def mir_callee(term):
    f = term.get("f", {})
    return norm_path(f.get("ip") or f.get("p"))


def place_str(p):
    if p is None:
        return "?"
    return "_%d%s" % (p["l"], "".join(p.get("p") or []))


def operand_place(op):
    if "copy" in op:
        return op["copy"]
    if "move" in op:
        return op["move"]
    return None


# --------------------------------------------------------------------------- bookkeeping


class Check:
    def __init__(self, prop, tier=None):
        self.prop = prop
        self.tier = tier or os.environ.get("VERIF_TIER") or "quick"
        if self.tier not in ("quick", "thorough"):
            self.tier = "quick"
        self.seed = int(os.environ.get("VERIF_SEED", "0") or 0)
        self.t0 = time.time()
        self.instances = []  # dicts: rule,key,ok,detail,loc
        self.rules = {}  # rule -> description
        self.notes = []
        self.not_decided = []
        self.assumptions = []
        self.units = []
        self.exhaustive_rules = set()

    def rule(self, rid, desc, exhaustive=False):
        self.rules[rid] = desc
        if exhaustive:
            self.exhaustive_rules.add(rid)

    def ok(self, rule, key, detail="", loc=None):
        self.instances.append({"rule": rule, "key": key, "ok": True, "detail": detail, "loc": loc})

    def bad(self, rule, key, detail, loc=None):
        self.instances.append({"rule": rule, "key": key, "ok": False, "detail": detail, "loc": loc})

    def expect(self, cond, rule, key, detail_ok="", detail_bad="", loc=None):
        if cond:
            self.ok(rule, key, detail_ok, loc)
        else:
            self.bad(rule, key, detail_bad or detail_ok, loc)
        return cond

    def count(self, rule):
        return sum(1 for i in self.instances if i["rule"] == rule)

    def floor(self, rule, n):
        c = self.count(rule)
        if c < n:
            self.bad(rule, "floor", "rule examined %d instances, below the floor %d counted on the pinned tree "
                                    "(anchor moved or extractor stopped seeing the code)" % (c, n))

    def note(self, s_):
        self.notes.append(s_)

    def finish(self):
        try:
            import alpha
            for l in alpha.LOG:
                self.notes.append("renamed item recognised and spelled back: " + l)
                if os.environ.get("VERIF_ALPHA_LOG"):
                    print("  ALPHA " + l)
        except ImportError:
            pass
        known = load_known()
        viol = [i for i in self.instances if not i["ok"]]
        new = []
        kf_lines = []
        for v in viol:
            full = "%s:%s" % (v["rule"], v["key"])
            k = next((e for e in known if e.get("property") == self.prop and e.get("key") == full and e.get("status") == "open"), None)
            if k:
                kf_lines.append("KNOWN-FINDING: property=%s %s [%s]" % (self.prop, k.get("what", v["detail"]), full))
                v["known"] = True
            else:
                new.append(v)
        wall = time.time() - self.t0
        n_inst = len(self.instances)
        per_rule = {}
        for i in self.instances:
            d = per_rule.setdefault(i["rule"], {"instances": 0, "passed": 0})
            d["instances"] += 1
            d["passed"] += 1 if i["ok"] else 0
        for r in self.rules:
            per_rule.setdefault(r, {"instances": 0, "passed": 0})
        for r, d in per_rule.items():
            d["rule"] = self.rules.get(r, "")
            if r in self.exhaustive_rules:
                d["exhaustive"] = True
        samples = []
        seen_rules = set()
        for i in self.instances:
            if i["rule"] not in seen_rules or not i["ok"]:
                seen_rules.add(i["rule"])
                samples.append({"rule": i["rule"], "key": i["key"], "verdict": "ok" if i["ok"] else ("known-finding" if i.get("known") else "VIOLATION"),
                                "detail": i["detail"][:400], "loc": i["loc"]})
        samples = samples[:60]
        distinct = len({(i["rule"], i["key"]) for i in self.instances})
        expl = ("Static analysis of /repo's current source (rustc-resolved HIR/MIR facts, templates, layouts). "
                "Rules: " + "; ".join("%s = %s [%d instances, %d passed]" % (r, d["rule"], d["instances"], d["passed"]) for r, d in sorted(per_rule.items()))
                + ". Units analysed: " + ", ".join(self.units)
                + (". NOT decided by this check: " + "; ".join(self.not_decided) if self.not_decided else ""))
        ev = {
            "property_id": self.prop,
            "tier": self.tier,
            "seed": self.seed,
            "level": "other",
            "coverage": {
                "explanation": expl,
                "obligations": n_inst,
                "discharged": n_inst - len(viol),
                "evaluations": max(n_inst, 1),
                "distinct_nontrivial": distinct,
                "rule": "one rule instance per (rule id, semantic key) found in the resolved program; distinct = distinct keys",
                "samples": samples,
                "rules": per_rule,
                "units": self.units,
                "known_findings_reported": len(kf_lines),
                "notes": self.notes,
                "exhaustive": False,
            },
            "assumptions": self.assumptions + ["rustc nightly front end (resolution, typeck, layout_of, MIR build) is trusted",
                                               "only code compiled by `cargo check --workspace` (default features) is analysed in the quick tier"],
            "wall_s": round(wall, 2),
            "violations": len(new),
        }
        evdir = os.environ.get("VERIF_EVIDENCE_DIR") or os.path.join(VERIF, "evidence")
        os.makedirs(evdir, exist_ok=True)
        with open(os.path.join(evdir, self.prop + ".json"), "w") as f:
            json.dump(ev, f, indent=1)
        # console report
        for r, d in sorted(per_rule.items()):
            print("  %-10s %3d/%-3d %s" % (r, d["passed"], d["instances"], d["rule"]))
        for n_ in self.notes:
            print("  note: " + n_)
        for l in kf_lines:
            print(l)
        if new:
            rp = os.path.join(evdir, "replay")
            os.makedirs(rp, exist_ok=True)
            path = os.path.join(rp, self.prop + ".json")
            with open(path, "w") as f:
                json.dump({"property": self.prop, "violations": new,
                           "how_to_reproduce": "cd /verif && ./check %s %s" % (self.prop, self.tier)}, f, indent=1)
            for v in new:
                print("  FAIL %s:%s  %s  %s" % (v["rule"], v["key"], v["loc"] or "", v["detail"]))
            print("VIOLATION property=%s replay=%s" % (self.prop, path))
            print("%s: %d instances, %d violations (%.1fs)" % (self.prop, n_inst, len(new), wall))
            return 1
        print("%s: OK — %d rule instances over %d rules, %d known findings (%.1fs)" % (self.prop, n_inst, len(per_rule), len(kf_lines), wall))
        return 0


def load_known():
    p = os.path.join(VERIF, "known_findings.json")
    if not os.path.exists(p):
        return []
    with open(p) as f:
        return json.load(f).get("findings", [])


def loc(f, ln=None):
    return "%s:%s" % (f.get("file", "?"), ln if ln is not None else f.get("line", "?"))


def read_repo(rel, repo=REPO):
    p = os.path.join(repo, rel)
    if not os.path.exists(p):
        raise CheckError("anchor file %s does not exist" % rel)
    with open(p, encoding="utf-8") as f:
        txt = f.read()
    if rel.startswith("tool/templates/"):
        txt = template_canon(rel[len("tool/templates/"):], txt, repo)
    return txt


# --------------------------------------------------------------------------- symbolic MIR values


def _mir_remap(node, loff, bmap):
    """deep copy of a MIR JSON fragment with locals shifted by loff and block ids mapped through bmap"""
    if isinstance(node, list):
        return [_mir_remap(x, loff, bmap) for x in node]
    if not isinstance(node, dict):
        return node
    out = {}
    for k, v in node.items():
        if k == "l" and isinstance(v, int):
            out[k] = v + loff
        elif k in ("t", "otherwise", "unwind") and isinstance(v, int):
            out[k] = bmap.get(v, v)
        elif k == "targets" and isinstance(v, list):
            out[k] = [[x[0], bmap.get(x[1], x[1])] for x in v]
        elif k == "id" and isinstance(v, int) and "stmts" in node:
            out[k] = bmap.get(v, v)
        else:
            out[k] = _mir_remap(v, loff, bmap)
    return out


def inline_mir(unit, fn, depth=2, max_blocks=60):
    """fn with the bodies of the same-crate functions it calls spliced into its MIR (`depth` levels, small non-recursive callees with full MIR only):
    callee locals are renumbered behind the caller's, parameters become assignments from the call's operands, `return` becomes an assignment of the
    callee's return slot to the call's destination followed by a jump to the call's target.  Path / dominance / symbolic rules written for one function
    then see the same operations after a private helper was extracted from it.  -> a new fn dict (the facts are not modified); `_inlined` lists the callees."""
    mir = fn.get("mir") or {}
    if "blocks" not in mir:
        return fn
    new = json.loads(json.dumps(mir))
    blocks = new["blocks"]
    level = {b["id"]: 0 for b in blocks}
    inlined = []
    active = {b["id"]: (fn["path"],) for b in blocks}      # call stack that produced each block (recursion guard)
    progress = True
    while progress and len(blocks) < 600:
        progress = False
        for b in list(blocks):
            t = b["term"]
            if t["k"] != "call" or b.get("cleanup") or level.get(b["id"], 0) >= depth:
                continue
            cal = mir_callee(t)
            g = (unit.fns.get(cal) or unit.norm.get(norm_path(cal))) if cal else None
            if not g or g is fn or not g.get("mir") or "blocks" not in g["mir"] or len(g["mir"]["blocks"]) > max_blocks or g["path"] in active.get(b["id"], ()):
                continue
            gm = g["mir"]
            loff = len(new["locals"])
            boff = max(x["id"] for x in blocks) + 1
            bmap = {x["id"]: x["id"] + boff for x in gm["blocks"]}
            for l_ in gm["locals"]:
                new["locals"].append({"l": l_["l"] + loff, "ty": l_["ty"]})
            for n_ in gm.get("names", []):
                new["names"].append({"n": n_["n"], "p": _mir_remap(n_["p"], loff, {})})
            entry_stmts = [{"k": "assign", "lhs": {"l": loff + i + 1}, "rv": {"k": "use", "op": a}, "ln": t.get("ln")} for i, a in enumerate(t["args"])]
            for gb in gm["blocks"]:
                nb = _mir_remap(gb, loff, bmap)
                if gb["id"] == 0:
                    nb["stmts"] = entry_stmts + nb["stmts"]
                if nb["term"]["k"] == "return":
                    nb["stmts"] = nb["stmts"] + [{"k": "assign", "lhs": t["dest"], "rv": {"k": "use", "op": {"move": {"l": loff}}}, "ln": t.get("ln")}]
                    nb["term"] = {"k": "goto", "t": t["t"]} if t.get("t") is not None else {"k": "unreachable"}
                blocks.append(nb)
                level[nb["id"]] = level.get(b["id"], 0) + 1
                active[nb["id"]] = active.get(b["id"], ()) + (g["path"],)
            b["term"] = {"k": "goto", "t": bmap[0]}
            inlined.append(g["path"])
            progress = True
    out = dict(fn)
    out["mir"] = new
    out["_inlined"] = inlined
    return out


class MirFn:
    """One MIR body with def-use helpers and a small symbolic evaluator (no execution: pure term rewriting
    of single-assignment temporaries into expression trees over parameters, places and calls)."""

    def __init__(self, fn):
        self.fn = fn
        self.mir = fn["mir"]
        if "blocks" not in self.mir:
            raise CheckError("no full MIR for " + fn["path"])
        self.cfg = Cfg(self.mir)
        self.argc = self.mir["argc"]
        self.names = {}
        for n in self.mir["names"]:
            if not n["p"].get("p"):
                self.names.setdefault(n["p"]["l"], n["n"])
        self.defs = {}  # local -> list of (bb, kind, node)
        for b in self.mir["blocks"]:
            if b.get("cleanup"):
                continue
            for s_ in b["stmts"]:
                if s_["k"] == "assign" and not s_["lhs"].get("p"):
                    self.defs.setdefault(s_["lhs"]["l"], []).append((b["id"], "assign", s_))
            t = b["term"]
            if t["k"] == "call" and not t["dest"].get("p"):
                self.defs.setdefault(t["dest"]["l"], []).append((b["id"], "call", t))

    def local_name(self, l):
        if l in self.names:
            return self.names[l]
        if 1 <= l <= self.argc:
            return "arg%d" % l
        return "_%d" % l

    def sym_place(self, p, depth=0):
        l = p["l"]
        proj = p.get("p") or []
        base = self.sym_local(l, depth)
        for e in proj:
            # (x as tuple from *WithOverflow).0 -> the arithmetic result
            if e == ".0" and isinstance(base, tuple) and base[0] == "bin" and base[1].endswith("WithOverflow"):
                base = ("bin", base[1][:-len("WithOverflow")], base[2], base[3])
                continue
            if e == "*" and isinstance(base, tuple) and base[0] in ("ref", "rawref"):
                base = base[1]
                continue
            base = ("proj", base, e)
        return base

    def sym_local(self, l, depth=0):
        if depth > 40:
            return ("deep", l)
        if 1 <= l <= self.argc:
            if l not in self.defs:
                return ("arg", l, self.local_name(l))
        ds = self.defs.get(l, [])
        if len(ds) != 1:
            return ("local", l, self.local_name(l)) if not ds else ("phi", l, self.local_name(l))
        bb, kind, node = ds[0]
        if kind == "call":
            return ("call", mir_callee(node) or ("indirect", self.sym_op(node["f"].get("indirect"), depth + 1)),
                    tuple(self.sym_op(a, depth + 1) for a in node["args"]), tuple(node["f"].get("ga") or ()))
        return self.sym_rv(node["rv"], depth + 1)

    def sym_op(self, op, depth=0):
        if op is None:
            return ("none",)
        if "copy" in op:
            return self.sym_place(op["copy"], depth)
        if "move" in op:
            return self.sym_place(op["move"], depth)
        if "c" in op:
            return ("const", op["c"])
        if "fn" in op:
            return ("fn", op["fn"])
        return ("other", json.dumps(op, sort_keys=True))

    def sym_rv(self, rv, depth=0):
        k = rv["k"]
        if k == "use":
            return self.sym_op(rv["op"], depth)
        if k == "ref":
            return ("ref", self.sym_place(rv["place"], depth))
        if k == "rawptr":
            return ("rawref", self.sym_place(rv["place"], depth))
        if k == "cast":
            inner = self.sym_op(rv["op"], depth)
            if rv["ck"] in ("PtrToPtr", "Subtype") or rv["ck"].startswith("PointerCoercion"):
                return ("ptrcast", inner, rv["ty"])
            return ("cast", rv["ck"], inner, rv["ty"])
        if k == "bin":
            return ("bin", rv["op"], self.sym_op(rv["l"], depth), self.sym_op(rv["r"], depth))
        if k == "un":
            return ("un", rv["op"], self.sym_op(rv["op1"], depth))
        if k == "discr":
            return ("discr", self.sym_place(rv["place"], depth))
        if k == "agg":
            return ("agg", rv.get("adt") or rv.get("agg"), rv.get("variant"), rv.get("union_field"),
                    tuple(rv.get("fnames") or ()), tuple(self.sym_op(o, depth) for o in rv["ops"]))
        return ("rv", k)

    def switch_cond(self, bb):
        t = self.cfg.blocks[bb]["term"]
        if t["k"] != "switch":
            return None
        return self.sym_op(t["discr"])

    def paths(self, start, goal, limit=4000):
        """All acyclic non-cleanup paths start -> goal as lists of block ids."""
        out = []
        stack = [(start, [start])]
        while stack:
            n, path = stack.pop()
            if n == goal:
                out.append(path)
                if len(out) > limit:
                    raise CheckError("too many paths in " + self.fn["path"])
                continue
            for s_ in self.cfg.succ.get(n, []):
                if s_ in path:
                    continue
                stack.append((s_, path + [s_]))
        return out

    BUILTIN_VARIANTS = {"None": 0, "Some": 1, "Ok": 0, "Err": 1, "Continue": 0, "Break": 1}

    def _const_of(self, rv, known, adts):
        """constant a definition gives its local, when it is one: bool / integer / enum variant index (by aggregate or by constant operand), copies of known locals,
        `discriminant(x)` of a local with a known variant"""
        k = rv["k"]
        if k == "agg" and rv.get("variant") is not None and rv.get("adt"):
            a = (adts or {}).get(rv["adt"])
            if a and a.get("kind") == "enum":
                names = [v["name"] for v in a["variants"]]
                return names.index(rv["variant"]) if rv["variant"] in names else None
            return self.BUILTIN_VARIANTS.get(rv["variant"]) if rv["adt"].startswith("core::") else None
        if k == "use":
            op = rv["op"]
            if "c" in op:
                c = str(op["c"])
                if c in ("true", "false"):
                    return int(c == "true")
                m_ = re.match(r"^(-?\d+)_[iu](\d+|size)$", c)
                if m_:
                    return int(m_.group(1))
                if adts and "::" in c:
                    en, _, vn = c.rpartition("::")
                    for p_, a in adts.items():
                        if a.get("kind") == "enum" and (p_ == en or p_.endswith("::" + en)):
                            names = [v["name"] for v in a["variants"]]
                            if vn in names:
                                return names.index(vn)
                return None
            pl = op.get("copy") or op.get("move")
            if pl and not pl.get("p"):
                return known.get(pl["l"])
        if k == "discr" and not rv["place"].get("p"):
            return known.get(rv["place"]["l"])
        if k == "un" and rv.get("op") == "Not":
            pl = (rv.get("op1") or {}).get("copy") or (rv.get("op1") or {}).get("move")
            if pl and not pl.get("p") and known.get(pl["l"]) in (0, 1) and self._ltypes().get(pl["l"]) == "bool":
                return 1 - known[pl["l"]]
        return None

    def _ltypes(self):
        if not hasattr(self, "_lt"):
            self._lt = {l_["l"]: l_.get("ty") for l_ in self.mir.get("locals") or [] if isinstance(l_, dict)}
        return self._lt

    def downcast_payload(self, term):
        """value of `(x as V).N` when x is a local all of whose definitions are enum aggregates: the N-th operand of the (only) definition that builds variant V
        (the other definitions cannot reach a use behind a downcast to V).  None when the term is not of that form."""
        t = term
        if not (isinstance(t, tuple) and len(t) == 3 and t[0] == "proj" and isinstance(t[2], str) and t[2].startswith(".")):
            return None
        dc = t[1]
        if not (isinstance(dc, tuple) and len(dc) == 3 and dc[0] == "proj" and isinstance(dc[2], str) and dc[2].startswith("@")):
            return None
        root = dc[1]
        if not (isinstance(root, tuple) and root[0] in ("phi", "local") and len(root) > 1):
            return None
        defs = self.defs.get(root[1], [])
        cands = [node for _, kind, node in defs if kind == "assign" and node["rv"]["k"] == "agg" and node["rv"].get("variant") == dc[2][1:]]
        if len(cands) != 1 or not all(kind == "assign" and node["rv"]["k"] == "agg" for _, kind, node in defs):
            return None
        rv = cands[0]["rv"]
        try:
            idx = (rv.get("fnames") or []).index(t[2][1:])
        except ValueError:
            return None
        return self.sym_op(rv["ops"][idx])

    def decided_switch(self, b, adts=None, limit=2000):
        """the switch ending block b makes no decision of its own: on every feasible path from the entry its operand is a constant the path already
        established (a status / Option built on one side of an earlier test and taken apart again after a helper returned it)"""
        t = self.cfg.blocks[b]["term"]
        if t["k"] != "switch":
            return False
        pl = t["discr"].get("copy") or t["discr"].get("move")
        if not pl or pl.get("p"):
            return False
        n = 0
        for p_ in self.paths(0, b, limit):
            n += 1
            # append a pseudo-successor-free evaluation: known values just before b's terminator
            known = self.feasible(p_, adts, want_known=True)
            if known is False:
                continue
            if pl["l"] not in known:
                return False
        return n > 0

    def feasible(self, path, adts=None, want_known=False):
        """False when the path contradicts itself: it passes a block that gives a local a known constant (bool, integer, enum variant) and later takes an edge of a
        switch on that local (or on its discriminant) that the constant does not select.  Removes the infeasible paths a flag / status enum introduces."""
        known = {}
        same = {}     # local -> the local it is a plain copy of (so that what a switch edge says about the copy is known of the original, and of its other copies)
        for i, b in enumerate(path):
            blk = self.cfg.blocks[b]
            for s_ in blk["stmts"]:
                if s_["k"] == "assign" and not s_["lhs"].get("p"):
                    v = self._const_of(s_["rv"], known, adts)
                    lhs_l = s_["lhs"]["l"]
                    same.pop(lhs_l, None)
                    for x_ in [x_ for x_, r_ in same.items() if r_ == lhs_l]:
                        same.pop(x_, None)
                    if v is None:
                        known.pop(lhs_l, None)
                        rv_ = s_["rv"]
                        src = (rv_.get("op") or {}).get("copy") or (rv_.get("op") or {}).get("move") if rv_["k"] == "use" else None
                        if src and not src.get("p"):
                            same[lhs_l] = same.get(src["l"], src["l"])
                    else:
                        known[lhs_l] = v
            t = blk["term"]
            if t["k"] == "call" and not t["dest"].get("p"):
                known.pop(t["dest"]["l"], None)
            if t["k"] == "switch" and i + 1 < len(path):
                pl = t["discr"].get("copy") or t["discr"].get("move")
                if pl and not pl.get("p") and pl["l"] in known:
                    val = known[pl["l"]]
                    ev = self.edge_value(b, path[i + 1])
                    listed = [v for v, _ in t["targets"]]
                    if (ev == "otherwise" and val in listed) or (ev not in (None, "otherwise") and val not in ev):
                        return False
                elif pl and not pl.get("p"):
                    # the edge taken tells the value of the switched local from here on (a status the caller tests again after a helper tested it)
                    ev = self.edge_value(b, path[i + 1])
                    listed = [v for v, _ in t["targets"]]
                    learned = None
                    if isinstance(ev, list) and len(ev) == 1:
                        learned = ev[0]
                    elif ev == "otherwise" and self._ltypes().get(pl["l"]) == "bool" and listed in ([0], [1]):
                        learned = 1 - listed[0]
                    if learned is not None:
                        root = same.get(pl["l"], pl["l"])
                        for x_ in [pl["l"], root] + [x_ for x_, r_ in same.items() if r_ == root]:
                            known[x_] = learned
        return known if want_known else True

    def phi_alts(self, term):
        """[(def block, value term)] for a term that is a merge of several definitions: a phi local, or component `.N` of a phi local whose definitions are tuple
        aggregates (`let (p, n) = if c { (a, b) } else { (d, e) }`, also after inlining a helper that returns a tuple).  None if the term is not such a merge."""
        t = sym_strip(term)
        comp = None
        if isinstance(t, tuple) and t[0] == "proj" and isinstance(t[1], tuple) and t[1][0] == "phi" and re.fullmatch(r"\.\d+", str(t[2])):
            comp = int(t[2][1:])
            t = t[1]
        if not (isinstance(t, tuple) and t[0] == "phi"):
            return None
        out = []
        for dbb, kind, node in self.defs.get(t[1], []):
            if kind == "call":
                v = ("call", mir_callee(node) or "indirect", tuple(self.sym_op(z) for z in node["args"]), tuple(node["f"].get("ga") or ()))
            else:
                v = self.sym_rv(node["rv"])
            if comp is not None:
                vs = sym_strip(v)
                if isinstance(vs, tuple) and vs[0] == "agg" and len(vs[5]) > comp:
                    v = vs[5][comp]
                else:
                    return None
            out.append((dbb, v))
        return out

    def sym_alts(self, term, limit=8, depth=3):
        """the terms `term` can stand for when its merges (phi_alts) are replaced by each of their definitions (bounded)"""
        if depth <= 0:
            return [term]
        if not isinstance(term, tuple) or not term:
            return [term]
        pa = self.phi_alts(term) if isinstance(term[0], str) else None
        if pa is not None:
            out = []
            for _, v in pa:
                out += self.sym_alts(v, limit, depth - 1)
            return out[:limit] or [term]
        if term and isinstance(term[0], str):
            heads = [[]]
            for x in term:
                subs = self.sym_alts(x, limit, depth) if isinstance(x, tuple) else [x]
                heads = [h + [s_] for h in heads for s_ in subs][:limit]
            return [tuple(h) for h in heads]
        # a plain tuple of terms (argument lists)
        heads = [[]]
        for x in term:
            subs = self.sym_alts(x, limit, depth) if isinstance(x, tuple) else [x]
            heads = [h + [s_] for h in heads for s_ in subs][:limit]
        return [tuple(h) for h in heads]

    def feasible_reach(self, start, adts=None, limit=3000, via=None):
        """blocks that lie on some feasible path from `start` to a block without successors (return, diverging call): reachability that respects the constants
        the path itself establishes (a status enum set on a failure edge and matched on afterwards)"""
        ends = [i for i, b in self.cfg.blocks.items() if not b.get("cleanup") and not self.cfg.succ.get(i)]
        out = set()
        n = 0
        for e in ends:
            for p_ in self.paths(start, e, limit):
                n += 1
                # `via`: the block whose switch edge leads to `start` -- what that edge says about the switched local holds on the whole path
                if self.feasible(([via] + list(p_)) if via is not None else p_, adts):
                    out.update(p_)
        return out if n else self.cfg.reachable_from(start)

    def edge_value(self, a, b):
        """For a switch in block a: the discriminant value(s) that lead to b ('otherwise' if default)."""
        t = self.cfg.blocks[a]["term"]
        if t["k"] != "switch":
            return None
        vals = [v for v, tb in t["targets"] if tb == b]
        if vals:
            return vals
        if t["otherwise"] == b:
            return "otherwise"
        return None

    def stores(self):
        """(bb, stmt) for assignments through a projection (field/deref stores)."""
        for b in self.mir["blocks"]:
            if b.get("cleanup"):
                continue
            for s_ in b["stmts"]:
                if s_["k"] == "assign" and s_["lhs"].get("p"):
                    yield b["id"], s_

    def calls(self):
        for b in self.mir["blocks"]:
            if b.get("cleanup"):
                continue
            if b["term"]["k"] == "call":
                yield b["id"], b["term"]


def sym_subst(s_, argmap):
    """Replace ("arg", i, ..) leaves by argmap[i] (a callee's term re-expressed in its caller's frame)."""
    if not isinstance(s_, tuple):
        return s_
    if s_ and s_[0] == "arg" and len(s_) > 1 and s_[1] in argmap:
        return argmap[s_[1]]
    return tuple(sym_subst(x, argmap) if isinstance(x, tuple) else x for x in s_)


def sym_expand(unit, s_, depth=2):
    """Rewrite calls of same-crate helpers by the value they return (a return slot with a single definition that depends on the
    helper's parameters and constants only), the parameters substituted by the call's operands."""
    if not isinstance(s_, tuple) or depth < 0:
        return s_
    if s_ and s_[0] == "call" and isinstance(s_[1], str):
        args = tuple(sym_expand(unit, a, depth) for a in s_[2])
        g = unit.fns.get(s_[1]) or unit.norm.get(norm_path(s_[1]))
        if g and g.get("mir") and "blocks" in g["mir"] and depth > 0:
            mg = MirFn(g)
            if len(mg.defs.get(0, [])) == 1:
                r = mg.sym_local(0)
                if all(l[0] not in ("local", "phi") for l in sym_leaves(r)) and not any(x[0] == "deep" for x in sym_walk(r)):
                    return sym_expand(unit, sym_subst(r, {i + 1: a for i, a in enumerate(args)}), depth - 1)
        return (s_[0], s_[1], args) + tuple(s_[3:])
    return tuple(sym_expand(unit, x, depth) if isinstance(x, tuple) else x for x in s_)


def ctor_aggs(unit, f, adt_suffix, depth=2):
    """Constructions of the ADT a function performs: [(fn-containing-the-aggregate, stmt, {field: term in f's frame})].
    Looks through same-crate constructor helpers (`Self::new(a, b)`), substituting the helper's parameters by the caller's operands."""
    mf = MirFn(f)
    out = []
    for b in mf.mir["blocks"]:
        for s_ in b["stmts"]:
            if s_["k"] == "assign" and s_["rv"]["k"] == "agg" and (s_["rv"].get("adt") or "").endswith(adt_suffix):
                out.append((f, s_, dict(zip(s_["rv"]["fnames"], [mf.sym_op(o) for o in s_["rv"]["ops"]]))))
    if out or depth <= 0:
        return out
    for bb, t in mf.calls():
        g = unit.fns.get(mir_callee(t) or "") or unit.norm.get(norm_path(mir_callee(t) or ""))
        if not g or not g.get("mir") or "blocks" not in g["mir"] or g is f:
            continue
        argmap = {i + 1: mf.sym_op(a) for i, a in enumerate(t["args"])}
        for gf, st, fields in ctor_aggs(unit, g, adt_suffix, depth - 1):
            out.append((gf, st, {k: sym_subst(v, argmap) for k, v in fields.items()}))
    return out


def sym_show(s_):
    if not isinstance(s_, tuple):
        return str(s_)
    k = s_[0]
    if k == "arg":
        return s_[2]
    if k in ("local", "phi"):
        return s_[2]
    if k == "proj":
        return "%s%s" % (sym_show(s_[1]), s_[2])
    if k == "ref":
        return "&" + sym_show(s_[1])
    if k == "rawref":
        return "&raw " + sym_show(s_[1])
    if k == "const":
        return s_[1]
    if k == "bin":
        return "%s(%s, %s)" % (s_[1], sym_show(s_[2]), sym_show(s_[3]))
    if k == "un":
        return "%s(%s)" % (s_[1], sym_show(s_[2]))
    if k == "call":
        c = s_[1] if isinstance(s_[1], str) else sym_show(s_[1])
        return "%s(%s)" % (c.split("::")[-1] if isinstance(c, str) else c, ", ".join(sym_show(a) for a in s_[2]))
    if k == "ptrcast":
        return sym_show(s_[1])
    if k == "cast":
        return "(%s as %s)" % (sym_show(s_[2]), s_[3])
    if k == "indirect":
        return "(*%s)" % sym_show(s_[1])
    if k == "agg":
        return "%s::%s{..}" % (s_[1], s_[2])
    if k == "discr":
        return "discr(%s)" % sym_show(s_[1])
    return str(s_)


def sym_strip(s_):
    """Peel pointer casts / reborrows that do not change the denoted value."""
    while isinstance(s_, tuple):
        if s_[0] == "ptrcast":
            s_ = s_[1]
        elif s_[0] in ("ref", "rawref") and isinstance(s_[1], tuple) and s_[1][0] == "proj" and s_[1][2] == "*":
            s_ = s_[1][1]
        else:
            break
    return s_


def sym_is_field(s_, base_pred, field):
    """s_ == (*base).field  (any number of derefs / reborrows in between)."""
    s_ = sym_strip(s_)
    if not (isinstance(s_, tuple) and s_[0] == "proj" and s_[2] == "." + field):
        return False
    b = s_[1]
    while isinstance(b, tuple) and ((b[0] == "proj" and b[2] == "*") or b[0] in ("ref", "rawref", "ptrcast")):
        b = b[1]
    return base_pred(b)


def sym_is_arg(s_, idx=None):
    while isinstance(s_, tuple) and ((s_[0] == "proj" and s_[2] == "*") or s_[0] in ("ref", "rawref", "ptrcast")):
        s_ = s_[1]
    return isinstance(s_, tuple) and s_[0] == "arg" and (idx is None or s_[1] == idx)


ROOT_PEEL_CALLS = ("ManuallyDrop<T> as core::ops::deref::Deref>::deref", "ManuallyDrop<T> as core::ops::deref::DerefMut>::deref_mut",
                   "manually_drop::ManuallyDrop::new", "option::Option::unwrap", "::as_mut", "::as_ref")


def sym_root(s_):
    """The object a place/pointer expression is derived from (peels derefs, fields are NOT peeled)."""
    while isinstance(s_, tuple):
        if s_[0] == "proj" and s_[2] == "*":
            s_ = s_[1]
        elif s_[0] in ("ref", "rawref", "ptrcast"):
            s_ = s_[1]
        elif s_[0] == "call" and isinstance(s_[1], str) and s_[1].endswith(ROOT_PEEL_CALLS) and s_[2]:
            s_ = s_[2][0]
        else:
            break
    return s_


def sym_field_of(s_):
    """If s_ denotes <root>.<field> return (root, field) with root peeled, else None."""
    s_ = sym_root(s_)
    if isinstance(s_, tuple) and s_[0] == "proj" and s_[2].startswith("."):
        return sym_root(s_[1]), s_[2][1:]
    return None


def sym_walk(s_):
    """All sub-terms of a symbolic value (pre-order)."""
    st = [s_]
    while st:
        x = st.pop()
        if isinstance(x, tuple):
            if x and isinstance(x[0], str):
                yield x
                for y in x[1:]:
                    if isinstance(y, tuple):
                        st.append(y)
            else:
                for y in x:
                    if isinstance(y, tuple):
                        st.append(y)


def sym_leaves(s_):
    """Leaf atoms (args, locals, phis, consts, fns) a term is built from."""
    out = set()
    for x in sym_walk(s_):
        if x[0] in ("arg", "local", "phi"):
            out.add((x[0], x[1]))
        elif x[0] in ("const", "fn"):
            out.add((x[0], x[1]))
    return out


def sym_peel(s_):
    """Peel references, raw borrows, pointer casts and derefs (value-preserving address plumbing)."""
    while isinstance(s_, tuple):
        if s_[0] in ("ref", "rawref", "ptrcast"):
            s_ = s_[1]
        elif s_[0] == "proj" and s_[2] == "*":
            s_ = s_[1]
        else:
            break
    return s_


def pat_bind_ids(p, out=None):
    out = set() if out is None else out
    if isinstance(p, dict):
        if p.get("k") == "bind":
            out.add(p.get("id"))
        for k in ("sub", "alts", "fields", "pre", "post", "mid"):
            v = p.get(k)
            if isinstance(v, dict):
                pat_bind_ids(v, out)
            elif isinstance(v, list):
                for x in v:
                    pat_bind_ids(x.get("p") if isinstance(x, dict) and "p" in x and "k" not in x else x, out)
    return out


def bound_inside(n):
    """ids of locals bound by patterns inside expression n (let, match arms, closures, for)."""
    out = set()
    for x in walk(n):
        k = x.get("k")
        if k in ("letst", "let", "for"):
            pat_bind_ids(x.get("pat"), out)
        elif k == "match":
            for a in x["arms"]:
                pat_bind_ids(a["pat"], out)
        elif k == "closure":
            for p in x.get("params", []):
                pat_bind_ids(p, out)
    return out


def free_locals(n):
    """(name, id) of locals used in n that are bound outside n."""
    inner = bound_inside(n)
    return [(x["n"], x["id"]) for x in walk(n) if x.get("k") == "local" and x.get("id") not in inner]


def pattern_str_lits(n):
    """string literals used as patterns in match arms / if-let below n"""
    out = []

    def rec(p):
        if not isinstance(p, dict):
            return
        if p.get("k") == "lit" and p.get("t") == "str":
            out.append(p["v"])
        for k in ("sub", "alts", "fields"):
            v = p.get(k)
            if isinstance(v, dict):
                rec(v)
            elif isinstance(v, list):
                for x in v:
                    rec(x.get("p") if isinstance(x, dict) and "p" in x and "k" not in x else x)
    for x in walk(n):
        if x.get("k") == "match":
            for a in x["arms"]:
                rec(a["pat"])
        elif x.get("k") in ("let", "letst"):
            rec(x.get("pat"))
    return out


def place_root(n):
    """(root local node or None, field path list) of a place expression (locals, fields, derefs, index, method receivers peeled)."""
    path = []
    while isinstance(n, dict):
        k = n.get("k")
        if k == "local":
            return n, list(reversed(path))
        if k == "field":
            path.append(n.get("n"))
            n = n.get("e") or n.get("base") or (list(children(n)) or [None])[0]
        elif k in ("deref", "paren", "addr", "index", "cast", "dropt", "unary"):
            n = (list(children(n)) or [None])[0]
        elif k == "mcall" and n.get("m") in ("as_mut", "unwrap", "borrow_mut", "as_deref_mut", "get_mut", "iter_mut", "deref_mut", "as_mut_slice", "entry", "or_default", "or_insert_with", "last_mut", "first_mut"):
            n = n.get("recv")
        else:
            return None, list(reversed(path))
    return None, list(reversed(path))


def mutations(n):
    """Places mutated by expression tree n: assignments, `&mut place` borrows, and method calls whose adjusted receiver
    is `&mut`.  Yields (root_local_node, field_path, kind, node); root None when the place is not rooted in a local."""
    for x in walk(n):
        k = x.get("k")
        if k in ("assign", "assignop"):
            ch = list(children(x))
            if ch:
                r, path = place_root(ch[0])
                yield r, path, k, x
        elif k == "addr" and str(x.get("mut")) == "True":
            ch = list(children(x))
            if ch:
                r, path = place_root(ch[0])
                yield r, path, "&mut", x
        elif k == "mcall" and (x.get("rty") or "").startswith("&mut "):
            r, path = place_root(x.get("recv"))
            yield r, path, "mcall:" + x.get("m", "?"), x


LOOP_KINDS = ("for", "while", "loop")


ITER_CLOSURE_METHODS = ("for_each", "map", "filter_map", "flat_map", "filter", "any", "all", "fold", "try_for_each", "find", "find_map",
                        "position", "inspect", "retain", "take_while", "skip_while", "map_while", "try_fold", "partition", "max_by_key", "min_by_key", "sort_by_key")


def loop_body(n):
    if n.get("k") == "closure":
        return n.get("body") or n.get("b") or n.get("e") or (list(children(n)) or [None])[-1]
    return n.get("body") or n.get("b") or (list(children(n)) or [None])[-1]


def loop_carried(loop):
    """Mutations inside a loop of places rooted in locals bound OUTSIDE the loop (state that survives an iteration)."""
    inner = bound_inside(loop)
    out = []
    for r, path, kind, node in mutations(loop_body(loop)):
        if r is not None and r.get("id") not in inner:
            out.append((r.get("n"), path, kind, node))
    return out


def enclosing_loops(body):
    """Every loop below body: for/while/loop nodes and closures handed to iterator adaptors (`.for_each(|x| ..)`, ...)."""
    out = []
    for x in walk(body):
        if x.get("k") in LOOP_KINDS:
            out.append(x)
        elif x.get("k") == "mcall" and x.get("m") in ITER_CLOSURE_METHODS:
            for a in x.get("a", []):
                a = strip(a)
                if isinstance(a, dict) and a.get("k") == "closure":
                    out.append(a)
    return out


def args_reaching(unit, fn, target_method, target_arg, depth=2, _seen=None):
    """Expressions in `fn` that end up as argument #target_arg of a call to method `target_method`, directly or through (at most `depth`)
    same-crate helper functions that forward one of their parameters to it.  -> list of expression nodes of `fn`."""
    _seen = _seen or set()
    out = []
    body = fn_body(fn)
    for n in walk(body):
        if n.get("k") not in ("mcall", "call"):
            continue
        name = n.get("m") if n.get("k") == "mcall" else (callee(n) or "").split("::")[-1]
        args = n.get("a", [])
        if name == target_method:
            if len(args) > target_arg:
                out.append(args[target_arg])
            continue
        if depth <= 0:
            continue
        cpath = norm_path(n.get("p") or callee(n) or "")
        if not cpath or not cpath.startswith(unit.crate + "::") or cpath in _seen:
            continue
        cal = unit.norm.get(cpath)
        if not cal or "hir" not in cal:
            continue
        params = [p_ for p_ in (cal.get("params") or [])]
        off = 1 if (n.get("k") == "mcall" and params[:1] == ["self"]) else 0
        inner = args_reaching(unit, cal, target_method, target_arg, depth - 1, _seen | {cpath})
        for e in inner:
            e = strip(e)
            while isinstance(e, dict) and e.get("k") in ("addr", "deref", "paren"):
                e = strip(list(children(e))[0])
            if isinstance(e, dict) and e.get("k") == "local" and e.get("n") in params:
                idx = params.index(e["n"]) - off
                if 0 <= idx < len(args):
                    out.append(args[idx])
    return out


def callees_transitive(unit, node, depth=2, _seen=None):
    """callee paths reachable from the calls below `node`, following same-crate functions up to `depth` levels (helper extraction tolerant)"""
    _seen = _seen if _seen is not None else set()
    out = []
    for x in calls_in(node):
        p_ = callee(x) or ""
        if not p_:
            continue
        out.append(p_)
        np_ = norm_path(p_)
        if depth > 0 and np_.startswith(unit.crate + "::") and np_ not in _seen:
            cal = unit.norm.get(np_)
            if cal and "hir" in cal:
                _seen.add(np_)
                out += callees_transitive(unit, fn_body(cal), depth - 1, _seen)
    return out


def _is_callish(x):
    """a call, a method call, or a function item used as a value (`iter.for_each(helper)`): the places control enters another function of the crate"""
    k = x.get("k")
    return k in ("call", "mcall") or (k == "def" and x.get("dk") in ("Fn", "AssocFn") and bool(x.get("p")))


def bodies_inl(unit, node, depth=1, exclude=(), max_nodes=1500):
    """[node] + the bodies of the same-crate functions called below it (`depth` levels): the units in which an extracted construct can be
    looked for together with the locals it uses (unlike walk_inl, which flattens caller and callee into one stream)."""
    out, seen, frontier = [node], set(norm_path(e) for e in exclude), [node]
    for _ in range(depth):
        nxt = []
        for b_ in frontier:
            for x in walk(b_):
                if _is_callish(x):
                    p_ = norm_path(x.get("p") or callee(x) or "")
                    if p_ and p_.startswith(unit.crate + "::") and p_ not in seen:
                        cal = unit.norm.get(p_)
                        if cal and "hir" in cal and cal.get("dk") != "Closure":
                            seen.add(p_)
                            if "_nn" not in cal:
                                cal["_nn"] = sum(1 for _ in walk(fn_body(cal)))
                            if cal["_nn"] <= max_nodes:
                                out.append(fn_body(cal))
                                nxt.append(fn_body(cal))
        frontier = nxt
    return out


def walk_inl(unit, node, depth=2, _seen=None, exclude=(), max_nodes=400):
    """Like walk(), but also descends into the bodies of same-crate functions called below `node` (up to `depth` levels): a rule that
    looks for a construct inside an anchor function keeps finding it after the construct was extracted into a private helper."""
    _seen = _seen if _seen is not None else set(norm_path(e) for e in exclude)
    for x in walk(node):
        yield x
        if depth > 0 and _is_callish(x):
            p_ = norm_path(x.get("p") or callee(x) or "")
            if p_ and p_.startswith(unit.crate + "::") and p_ not in _seen:
                cal = unit.norm.get(p_)
                if cal and "hir" in cal and cal.get("dk") != "Closure":
                    _seen.add(p_)
                    if "_nn" not in cal:
                        cal["_nn"] = sum(1 for _ in walk(fn_body(cal)))
                    if cal["_nn"] > max_nodes:
                        continue   # a large callee is a dispatcher in its own right, not an extracted helper
                    for y in walk_inl(unit, fn_body(cal), depth - 1, _seen, max_nodes=max_nodes):
                        yield y


def fns_inl(unit, f, depth=2, max_nodes=1500):
    """f followed by the same-crate functions its body calls (transitively, `depth` levels): the places a construct of f may have been extracted to."""
    out, seen = [f], {norm_path(f["path"])}
    frontier = [f]
    for _ in range(depth):
        nxt = []
        for g in frontier:
            for x in walk(fn_body(g)):
                if _is_callish(x):
                    p_ = norm_path(x.get("p") or callee(x) or "")
                    if p_ and p_.startswith(unit.crate + "::") and p_ not in seen:
                        cal = unit.norm.get(p_)
                        if cal and "hir" in cal and cal.get("dk") != "Closure":
                            seen.add(p_)
                            if "_nn" not in cal:
                                cal["_nn"] = sum(1 for _ in walk(fn_body(cal)))
                            if cal["_nn"] <= max_nodes:
                                out.append(cal)
                                nxt.append(cal)
        frontier = nxt
    return out


def with_conditions(node, stack=()):
    """yield (n, stack) for every node below `node`; stack = tuple of ("if", cond, "t"|"e") / ("arm", match_node, arm) / ("guard", expr) enclosing n"""
    if isinstance(node, list):
        for x in node:
            for r in with_conditions(x, stack):
                yield r
        return
    if not isinstance(node, dict):
        return
    yield node, stack
    k = node.get("k")
    if k == "if":
        for r in with_conditions(node.get("c"), stack):
            yield r
        for r in with_conditions(node.get("t"), stack + (("if", node.get("c"), "t"),)):
            yield r
        if node.get("e") is not None:
            for r in with_conditions(node.get("e"), stack + (("if", node.get("c"), "e"),)):
                yield r
        return
    if k == "match":
        for r in with_conditions(node.get("s"), stack):
            yield r
        for arm in node.get("arms", []):
            st2 = stack + (("arm", node, arm),)
            if arm.get("g") is not None:
                for r in with_conditions(arm["g"], st2):
                    yield r
            for r in with_conditions(arm.get("b"), st2):
                yield r
        return
    if k == "block":
        # statements after `if c { return / continue / panic }` run under the negation of c
        st2 = stack
        for stmt in list(node.get("s") or []) + ([node["e"]] if node.get("e") is not None else []):
            for r in with_conditions(stmt, st2):
                yield r
            i = strip_keep_macro(stmt)
            if isinstance(i, dict) and i.get("k") == "if":
                td, ed = diverges(i.get("t")), (i.get("e") is not None and diverges(i.get("e")))
                if td and not ed:
                    st2 = st2 + (("if", i.get("c"), "e"),)
                elif ed and not td:
                    st2 = st2 + (("if", i.get("c"), "t"),)
        return
    for c in children(node):
        for r in with_conditions(c, stack):
            yield r


def asserted(stack, pred, defs=None):
    """True when some `if` entry of a with_conditions stack asserts -- on this path -- a condition whose un-negated core satisfies pred (the `t` branch of
    `if c`, the `e` branch / the code after `if !c { diverge }` of `if !c`)"""
    for ent in stack:
        if ent[0] != "if":
            continue
        c, br = strip(ent[1]), ent[2]
        neg = False
        for _ in range(6):
            if isinstance(c, dict) and c.get("k") == "un" and c.get("op") == "Not":
                neg = not neg
                c = strip(c["e"])
            elif defs is not None and isinstance(c, dict) and c.get("k") == "local" and (defs.get(c.get("id")) or (None,))[0] == "expr":
                c = strip(defs[c["id"]][1])     # a test held in a local (`let ok = pred(x); if ok {..}`)
            else:
                break
        if isinstance(c, dict) and pred(c) and ((br == "t") != neg):
            return True
    return False


def with_conditions_inl(unit, node, stack=(), depth=2, _seen=None, max_nodes=1500):
    """with_conditions() that also descends into same-crate functions called below `node`, the caller's condition stack carried along:
    a guarded construct keeps its guard when it is extracted into a helper that is called under the guard (or that tests it itself)."""
    _seen = _seen if _seen is not None else set()
    for n, st in with_conditions(node, stack):
        yield n, st
        if depth > 0 and isinstance(n, dict) and _is_callish(n):
            p_ = norm_path(n.get("p") or callee(n) or "")
            if p_ and p_.startswith(unit.crate + "::") and p_ not in _seen:
                cal = unit.norm.get(p_)
                if cal and "hir" in cal and cal.get("dk") != "Closure":
                    _seen.add(p_)
                    if "_nn" not in cal:
                        cal["_nn"] = sum(1 for _ in walk(fn_body(cal)))
                    if cal["_nn"] > max_nodes:
                        continue
                    for r in with_conditions_inl(unit, fn_body(cal), st, depth - 1, _seen, max_nodes):
                        yield r


class SubCheck:
    """Run another property's rule module inside a check, keeping only some of its rules under a new rule id."""

    def __init__(self, ck, new_rule, desc, only_rules, key_re=None):
        self.key_re = re.compile(key_re) if key_re else None
        self.rules = {}
        self.exhaustive_rules = set()
        self.ck = ck
        self.new_rule = new_rule
        self.only = set(only_rules)
        if desc or new_rule not in ck.rules:
            ck.rule(new_rule, desc)
        self.units = ck.units
        self.not_decided = []
        self.notes = []
        self.assumptions = []
        self.instances = []

    def rule(self, rid=None, desc="", *a, **k):
        self.rules[rid] = desc

    def note(self, s_):
        pass

    def _want(self, rule, key):
        return rule in self.only and (self.key_re is None or self.key_re.search(key) is not None)

    def ok(self, rule, key, detail="", loc=None):
        if self._want(rule, key):
            self.ck.ok(self.new_rule, "%s:%s" % (rule, key), detail, loc)
        self.instances.append({"rule": rule, "key": key, "ok": True})

    def bad(self, rule, key, detail, loc=None):
        if self._want(rule, key) or rule == "anchor":
            self.ck.bad(self.new_rule, "%s:%s" % (rule, key), detail, loc)
        self.instances.append({"rule": rule, "key": key, "ok": False})

    def expect(self, cond, rule, key, detail_ok="", detail_bad="", loc=None):
        if cond:
            self.ok(rule, key, detail_ok, loc)
        else:
            self.bad(rule, key, detail_bad or detail_ok, loc)
        return cond

    def count(self, rule):
        return sum(1 for i in self.instances if i["rule"] == rule)

    def floor(self, rule, n):
        if rule in self.only and self.count(rule) < n:
            self.ck.bad(self.new_rule, "%s:floor" % rule, "sub-rule examined %d instances, floor %d" % (self.count(rule), n))

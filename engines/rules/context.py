"""Caller-context narrowing of enum matches (typed HIR).

A `match` on a place that is rooted in a local or a parameter is only ever entered with the variants its enclosing arms -- in the same
function, or in the callers of the function when the place is rooted in a parameter -- let through.  `Narrow.allowed(f, match, stack)`
returns the set of top-level variant names that can reach the match (None = no restriction known).  This is what makes a rule about
"which variants select this arm" insensitive to extracting an arm body into a helper function: the helper's catch-all arm is still
selected by the variants the caller's arm let through and by no others."""
import common as C
import flow

PASS_M = ("as_ref", "as_mut", "borrow", "borrow_mut", "deref", "deref_mut", "clone", "as_deref")


def access_path(e, defs=None, depth=0):
    """(root local id, (field, ..)) of a place expression; follows `let x = <place>`; None if e is not a place rooted in a local."""
    path = []
    while True:
        e = C.strip(e)
        if not isinstance(e, dict):
            return None
        k = e.get("k")
        if k == "field":
            path.append(e["n"])
            e = e["e"]
            continue
        if k == "mcall" and e.get("m") in PASS_M and not e.get("a"):
            e = e["recv"]
            continue
        if k == "local":
            d = defs.get(e["id"]) if defs else None
            if d and d[0] == "expr" and depth < 6:
                sub = access_path(d[1], defs, depth + 1)
                if sub:
                    return (sub[0], sub[1] + tuple(reversed(path)))
            return (e["id"], tuple(reversed(path)))
        return None


def pat_variants(p):
    """top-level variant names a pattern can match, and whether it matches all values of each (irrefutable below the constructor)"""
    if not isinstance(p, dict):
        return None
    k = p.get("k")
    if k == "ref" or (k == "bind" and isinstance(p.get("sub"), dict)):
        return pat_variants(p["sub"])
    if k == "or" or p.get("alts"):
        out = {}
        for a in p.get("alts") or []:
            r = pat_variants(a)
            if r is None:
                return None
            for v, full in r.items():
                out[v] = out.get(v, False) or full
        return out
    if k == "variant":
        subs = (p.get("sub") or []) + [f.get("p") for f in (p.get("fields") or [])]
        full = all(isinstance(s, dict) and (s.get("k") in ("wild", "rest") or (s.get("k") == "bind" and not isinstance(s.get("sub"), dict))) for s in subs)
        return {p.get("v"): full}
    return None


class Narrow:
    def __init__(self, unit, adts):
        self.unit = unit
        self.adts = adts
        self._defs = {}
        self._sites = None
        self._escapes = set()

    def defs(self, f):
        k = f["path"]
        if k not in self._defs:
            self._defs[k] = dict(flow.defs_of(f))
        return self._defs[k]

    def all_variants(self, adt):
        a = self.adts.get(adt)
        return {v["name"] for v in a["variants"]} if a and a.get("kind") == "enum" else None

    def reach(self, m, arm):
        """top-level variants with which control can enter `arm` of match `m`"""
        allv = self.all_variants(m.get("sadt") or "")
        if allv is None:
            return None
        out = set(allv)
        taken = set()   # variants fully consumed by earlier unguarded arms
        res = set()
        for a in m["arms"]:
            pv = pat_variants(a["pat"])
            if a is arm:
                if pv is None:
                    res = allv - taken
                else:
                    res = set(pv) - taken
                return res
            if pv is not None and not a.get("g"):
                taken |= {v for v, full in pv.items() if full}
        return out

    def from_stack(self, f, st, root, path, adt):
        """variants allowed by the enclosing arms / if-lets of f on the same place"""
        allowed = None
        d = self.defs(f)
        for ent in st:
            if ent[0] == "arm":
                m2, arm2 = ent[1], ent[2]
                if (m2.get("sadt") or "") != adt or access_path(m2.get("s"), d) != (root, path):
                    continue
                r = self.reach(m2, arm2)
            elif ent[0] == "if":
                c = C.strip_keep_macro(ent[1])
                if not (isinstance(c, dict) and c.get("k") == "let") or access_path(c.get("init"), d) != (root, path):
                    continue
                pv = pat_variants(c.get("pat"))
                allv = self.all_variants(adt)
                if pv is None or allv is None or (c["pat"].get("adt") or adt) != adt:
                    continue
                r = set(pv) if ent[2] == "t" else allv - {v for v, full in pv.items() if full}
            else:
                continue
            if r is not None:
                allowed = r if allowed is None else allowed & r
        return allowed

    def sites(self):
        if self._sites is None:
            self._sites = {}
            for g in self.unit.fn_list:
                if "hir" not in g or g.get("dk") == "Closure":
                    continue
                called = set()
                for n, st in C.with_conditions(C.fn_body(g)):
                    k = n.get("k")
                    if k in ("call", "mcall"):
                        p_ = C.norm_path(n.get("p") or C.callee(n) or "")
                        if k == "call" and isinstance(n.get("f"), dict):
                            called.add(id(n["f"]))
                        if p_ in self.unit.norm:
                            self._sites.setdefault(p_, []).append((g, n, st))
                    elif k == "def" and id(n) not in called and n.get("p"):
                        self._escapes.add(C.norm_path(n["p"]))
        return self._sites

    def allowed(self, f, m, st, depth=1):
        """top-level variants of m's scrutinee enum that can reach match m (None: unrestricted / unknown)"""
        adt = m.get("sadt") or ""
        ap = access_path(m.get("s"), self.defs(f))
        if ap is None or self.all_variants(adt) is None:
            return None
        root, path = ap
        allowed = self.from_stack(f, st, root, path, adt)
        # rooted in a parameter: union over the call sites
        params = f["hir"].get("params") or []
        j = next((i for i, p in enumerate(params) if isinstance(p, dict) and p.get("k") == "bind" and p.get("id") == root), None)
        if j is None or depth <= 0:
            return allowed
        fp = C.norm_path(f["path"])
        sites = self.sites().get(fp, [])
        if not sites or fp in self._escapes or (f.get("vis") or "").startswith("Public"):
            return allowed
        union = set()
        for g, call, cst in sites:
            args = ([call["recv"]] + list(call.get("a") or [])) if call.get("k") == "mcall" else list(call.get("a") or [])
            if j >= len(args):
                return allowed
            cap = access_path(args[j], self.defs(g))
            if cap is None:
                return allowed
            r = self.from_stack(g, cst, cap[0], cap[1] + path, adt)
            if r is None:
                return allowed
            union |= r
        return union if allowed is None else allowed & union

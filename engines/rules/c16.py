"""C16 — runtime slice/str views: null normalisation, field-wise construction, exact UTF-8 predicate, alloc/free symmetry."""
import re
import common as C
from common import MirFn, sym_show, sym_strip, sym_root, sym_field_of, sym_is_arg, sym_walk, sym_leaves, sym_peel

RAW_RE = re.compile(r"(core::slice::raw::from_raw_parts(_mut)?|core::ptr::slice_from_raw_parts(_mut)?)$")
ISNULL_RE = re.compile(r"::is_null$")


def null_switches(m):
    """switch blocks testing `<root>.<field>.is_null()` (or `<local>.is_null()`): bb -> (tested sym, negated)"""
    out = {}
    for bid, b in m.cfg.blocks.items():
        if b.get("cleanup") or b["term"]["k"] != "switch":
            continue
        c = sym_strip(m.switch_cond(bid))
        neg = False
        if isinstance(c, tuple) and c[0] == "un" and c[1] == "Not":
            neg = True
            c = sym_strip(c[2])
        if isinstance(c, tuple) and c[0] == "call" and isinstance(c[1], str) and ISNULL_RE.search(c[1]):
            out[bid] = (c[2][0], neg)
        # `match NonNull::new(p) { Some(..) => .., None => .. }`: NonNull::new is None exactly for a null pointer, so the discriminant (None = 0, Some = 1)
        # is the negated null test of p
        if not neg and isinstance(c, tuple) and c[0] == "discr" and isinstance(c[1], tuple) and c[1][0] == "call" and str(c[1][1]).endswith("ptr::non_null::NonNull::new") and c[1][2]:
            out[bid] = (c[1][2][0], True)
    return out


def edge_nonzero(m, a, b):
    ev = m.edge_value(a, b)
    t = m.cfg.blocks[a]["term"]
    if ev == "otherwise":
        return all(v == 0 for v, _ in t["targets"])
    return ev is not None and all(v != 0 for v in ev)


def guarded_by(m, bb, tested_pred, want_null):
    """Is block bb reachable only through the (null / non-null) edge of an is_null test whose operand satisfies tested_pred?"""
    if _guarded_graph(m, bb, tested_pred, want_null):
        return True
    # path-sensitively: every FEASIBLE path to bb took that edge (the test may sit in a helper that hands back an Option / status which is matched on afterwards)
    ns = null_switches(m)
    n = 0
    for p_ in m.paths(0, bb, 2000):
        if not m.feasible(p_, getattr(m, "adts_hint", None)):
            continue
        n += 1
        took = False
        for i_, x in enumerate(p_[:-1]):
            if x in ns and tested_pred(ns[x][0]):
                is_null_edge = edge_nonzero(m, x, p_[i_ + 1]) != ns[x][1]
                if is_null_edge == want_null:
                    took = True
        if not took:
            return False
    return n > 0


def _guarded_graph(m, bb, tested_pred, want_null):
    ns = null_switches(m)
    for sb, (tested, neg) in ns.items():
        if not tested_pred(tested):
            continue
        # edges of sb that mean "is null"
        null_succ = [s for s in m.cfg.succ[sb] if edge_nonzero(m, sb, s) != neg]
        nonnull_succ = [s for s in m.cfg.succ[sb] if s not in null_succ]
        avoid_edge_targets = nonnull_succ if want_null else null_succ
        take = null_succ if want_null else nonnull_succ
        # bb must be unreachable from entry when the wanted edge is removed
        # i.e. every path entry->bb passes edge sb->take
        # compute reachability in the graph without edges sb->take
        seen = set()
        st = [0]
        while st:
            x = st.pop()
            if x in seen or x not in m.cfg.succ:
                continue
            seen.add(x)
            for s in m.cfg.succ[x]:
                if x == sb and s in take:
                    continue
                st.append(s)
        if bb not in seen and m.cfg.dominates(sb, bb):
            return True
    return False


def run(ck, facts):
    rt = facts.runtime
    ck.units.append("diplomat_runtime.lib (MIR)")
    ck.rule("R1", "every raw-parts reconstruction takes (x.ptr, x.len) of one view and is reachable only through the non-null edge of `x.ptr.is_null()`; the null edge builds the empty slice (aligned dangling pointer for owned boxes)")
    ck.rule("R2", "views are built field-wise from one source: ptr <- as_ptr/as_mut_ptr/into_raw(x), len <- len(x)")
    ck.rule("R3", "diplomat_is_str returns true for NULL and is_ok(from_utf8(from_raw_parts(ptr,size))) otherwise, with no other decision or callee; from_utf8_unchecked* only on bytes of a Utf8 view")
    ck.rule("R4", "diplomat_alloc / diplomat_free build the Layout from (size, align) in the same order")
    ck.rule("R6", "view types are repr(C) {ptr,len} / repr(transparent) with private fields")
    ck.not_decided += ["core::str::from_utf8 itself (trusted)", "contents round trip for all lengths (behaviour; follows from R1/R2 and rustc's slice semantics)"]

    n_raw = 0
    for f in rt.fn_list:
        mir = f.get("mir")
        if not mir or "blocks" not in mir:
            continue
        if f["path"].endswith("diplomat_is_str") or "::write::" in f["path"]:
            continue
        m = MirFn(C.inline_mir(rt, f))      # a pointer/length pair prepared by a private helper is judged where it is used
        # ... and a private helper that only assembles the fat pointer from a pointer it is GIVEN is judged at its callers (they are analysed with it spliced in)
        helper_called_in_crate = not (f.get("vis") or "").startswith("Public") and any(
            C.norm_path(C.mir_callee(t2) or "") == C.norm_path(f["path"]) for g2 in rt.fn_list if g2 is not f and (g2.get("mir") or {}).get("blocks") for _, t2 in MirFn(g2).calls())
        for bb, t in m.calls():
            cal = C.mir_callee(t) or ""
            if not RAW_RE.search(cal):
                continue
            if helper_called_in_crate and C.sym_is_arg(sym_strip(m.sym_op(t["args"][0]))):
                continue
            n_raw += 1
            a = [m.sym_op(x) for x in t["args"]]
            key = "%s/%s@%d" % (f["path"], cal.split("::")[-1], sum(1 for b2, t2 in m.calls() if b2 < bb and RAW_RE.search(C.mir_callee(t2) or "")))
            where = C.loc(f, t.get("ln"))
            pf, lf = sym_field_of(a[0]), sym_field_of(a[1])
            if pf and pf[1] == "ptr":
                same = lf is not None and lf[1] == "len" and lf[0] == pf[0]
                ck.expect(same, "R1", key + "/same-view", "(x.ptr, x.len) of one view", "raw parts are (%s, %s): pointer and length do not come from the same view" % (sym_show(a[0]), sym_show(a[1])), where)
                root = pf[0]
                g = guarded_by(m, bb, lambda s: (sym_field_of(s) or (None, None))[1] == "ptr" and sym_field_of(s)[0] == root, want_null=False)
                ck.expect(g, "R1", key + "/null-guard", "dominated by the non-null edge of ptr.is_null()",
                          "slice reconstruction from %s is not guarded by `%s.is_null()` (NULL+0 views must normalise to the empty slice, and only NULL may be replaced)" % (sym_show(a[0]), sym_show(a[0])), where)
                # ... and ONLY NULL may be replaced: a return path that skips the reconstruction must have taken the null edge
                ns_ = null_switches(m)
                skipping = []
                raw_blocks = {b2 for b2, t2 in m.calls() if RAW_RE.search(C.mir_callee(t2) or "")}
                for r_ in m.cfg.returns():
                    for pth in m.paths(0, r_):
                        if raw_blocks & set(pth):
                            continue
                        took_null = False
                        for x_, y_ in zip(pth, pth[1:]):
                            if x_ in ns_:
                                tested, neg = ns_[x_]
                                if edge_nonzero(m, x_, y_) != neg:
                                    took_null = True
                        if not took_null:
                            skipping.append(pth)
                ck.expect(not skipping, "R1", key + "/empty-only-on-null", "every path that skips the reconstruction took the ptr.is_null() edge",
                          "a non-null view can be replaced by the canonical empty slice (path %s avoids both the reconstruction and the null edge): the pointer of a zero-length sub-slice is lost" % (skipping[:1],), where)
                continue
            # null-branch dangling pointer
            p0 = sym_strip(a[0])
            chain = []
            x = p0
            while isinstance(x, tuple) and x[0] == "call":
                chain.append(x)
                x = sym_strip(x[2][0]) if x[2] else None
            names = [c[1] for c in chain if isinstance(c[1], str)]
            if names and names[-1].endswith("NonNull::dangling"):
                dang = chain[-1]
                extra = [n for n in names[:-1] if not n.endswith("NonNull::as_ptr")]
                elem = (t["f"].get("ga") or ["?"])[0]
                dty = (dang[3] or ("?",))[0] if len(dang) > 3 else "?"
                ck.expect(not extra and dty == elem, "R1", key + "/dangling-aligned", "NonNull::<%s>::dangling()" % dty,
                          "the empty owned slice is built from NonNull::<%s>::dangling()%s but the element type is %s (misaligned for align>1 elements)" % (dty, " via " + ",".join(e.split("::")[-1] for e in extra) if extra else "", elem), where)
                root_len = sym_field_of(a[1])
                g = guarded_by(m, bb, lambda s: (sym_field_of(s) or (None, None))[1] == "ptr", want_null=True)
                ck.expect(g, "R1", key + "/dangling-only-on-null", "", "dangling pointer used outside the ptr.is_null() edge", where)
                continue
            alts0 = m.phi_alts(p0)
            if alts0 is not None:
                # Box<str>: raw = if raw.is_null() { dangling } else { raw as *mut u8 }   (also as the first component of a tuple a helper returns)
                okd = len(alts0) == 2
                kinds = set()
                for dbb, v in alts0:
                    v = sym_strip(v)
                    while isinstance(v, tuple) and v[0] == "cast":
                        v = sym_strip(v[2])
                    inner_ = sym_strip(v[2][0]) if isinstance(v, tuple) and v[0] == "call" and str(v[1]).endswith("NonNull::as_ptr") and v[2] else None
                    if inner_ is not None and not (isinstance(inner_, tuple) and inner_[0] == "call" and str(inner_[1]).endswith("NonNull::dangling")):
                        # as_ptr of a NonNull that is not the dangling one (the payload of `NonNull::new(raw)`): the real pointer
                        kinds.add("real")
                        okd &= guarded_by(m, dbb, lambda s: True, want_null=False)
                    elif isinstance(v, tuple) and v[0] == "call" and str(v[1]).endswith("NonNull::as_ptr"):
                        kinds.add("dangling")
                        okd &= guarded_by(m, dbb, lambda s: True, want_null=True)
                    else:
                        kinds.add("real")
                        okd &= guarded_by(m, dbb, lambda s: True, want_null=False)
                ck.expect(okd and kinds == {"dangling", "real"}, "R1", key + "/phi-null-normalised", "pointer is `if raw.is_null() {dangling} else {raw}`",
                          "pointer argument %s is not a null-normalised pointer" % sym_show(a[0]), where)
                continue
            ck.bad("R1", key + "/unrecognised-pointer", "raw parts built from %s: not a view's (ptr,len) under a null guard" % sym_show(a[0]), where)
    ck.floor("R1", 12)  # 20 today; the floor only guards against the extractor going blind, merged branches legitimately lower the count
    if n_raw < 7:
        ck.bad("R1", "raw-sites-floor", "only %d raw-parts sites found, 10 counted on the pinned tree" % n_raw)

    # Drop for DiplomatOwnedSlice: frees only on the non-null edge (instance of R1 above: slice_from_raw_parts_mut in drop) – assert it exists
    dr = rt.fn("<diplomat_runtime::slices::DiplomatOwnedSlice<T> as core::ops::drop::Drop>::drop")
    md = MirFn(C.inline_mir(rt, dr))
    has = any(RAW_RE.search(C.mir_callee(t) or "") for _, t in md.calls())
    ck.expect(has, "R1", "DiplomatOwnedSlice::drop/frees", "", "Drop for DiplomatOwnedSlice no longer rebuilds the box (leak) or uses an unrecognised path", C.loc(dr))
    # ... and releases it AS a Box<[T]> (whose drop knows that an empty boxed slice owns no allocation), never by calling the allocator / diplomat_free on the view's pointer
    mdi = MirFn(C.inline_mir(rt, dr))
    callees_d = [C.mir_callee(t) or "" for _, t in mdi.calls()]
    ck.expect(any(c_.endswith("Box::from_raw") for c_ in callees_d) and not any(re.search(r"(diplomat_free|alloc::dealloc|alloc::alloc::dealloc)$", c_) for c_ in callees_d), "R4", "DiplomatOwnedSlice::drop/releases-as-box",
              "Box::from_raw(..) dropped", "Drop for DiplomatOwnedSlice frees the buffer through %s instead of rebuilding the Box: a zero-length view holds a dangling, never-allocated pointer, handing it to the allocator is "
              "undefined behaviour (`free(0x2)`)" % [c_.split("::")[-1] for c_ in callees_d if re.search(r"(diplomat_free|dealloc)$", c_)], C.loc(dr))
    # diplomat_alloc / diplomat_free are entry points for the foreign side: nothing inside the runtime calls them
    inner_callers = sorted({f["path"] for f in rt.fn_list for c_ in ((f.get("mir") or {}).get("calls") or []) if re.search(r"diplomat_runtime::diplomat_(free|alloc)$", C.norm_path(c_.get("p") or ""))})
    ck.expect(not inner_callers, "R4", "diplomat_alloc+free/no-internal-callers", "", "the foreign-side allocator entry points are called from inside the runtime (%s): Rust-side owners release their buffers by their own type's drop" % inner_callers[:2], None)

    # --- R2 constructions
    def agg_fields(m, adt_suffix):
        for b in m.mir["blocks"]:
            for s in b["stmts"]:
                if s["k"] == "assign" and s["rv"]["k"] == "agg" and (s["rv"].get("adt") or "").endswith(adt_suffix):
                    return dict(zip(s["rv"]["fnames"], [m.sym_op(o) for o in s["rv"]["ops"]])), s
        return None, None

    def is_len_of_arg1(s):
        s = sym_strip(s)
        if isinstance(s, tuple) and s[0] == "un" and s[1] == "PtrMetadata":
            return sym_is_arg(s[2], 1)
        if isinstance(s, tuple) and s[0] == "call" and str(s[1]).endswith("::len"):
            return {l for l in sym_leaves(s) if l[0] != "const"} == {("arg", 1)}
        return False
    for path, adt, ptr_fn in (
        ("<diplomat_runtime::slices::DiplomatSlice<'a, T> as core::convert::From<&'a [T]>>::from", "slices::DiplomatSlice", "::as_ptr"),
        ("<diplomat_runtime::slices::DiplomatSliceMut<'a, T> as core::convert::From<&'a mut [T]>>::from", "slices::DiplomatSliceMut", "::as_mut_ptr"),
        ("<diplomat_runtime::slices::DiplomatOwnedSlice<T> as core::convert::From<alloc::boxed::Box<[T]>>>::from", "slices::DiplomatOwnedSlice", "Box::into_raw"),
    ):
        f = rt.fn(path)
        m = MirFn(f)
        fields, st = agg_fields(m, adt)
        if not fields:
            ck.bad("R2", adt + "/ctor", "no field-wise construction found", C.loc(f))
            continue
        p = sym_strip(fields.get("ptr"))
        while isinstance(p, tuple) and p[0] == "cast":
            p = sym_strip(p[2])
        okp = isinstance(p, tuple) and p[0] == "call" and str(p[1]).endswith(ptr_fn) and sym_is_arg(p[2][0], 1)
        ck.expect(okp, "R2", adt + "/ptr", "ptr = " + sym_show(fields.get("ptr")), "ptr is %s, expected %s(x)" % (sym_show(fields.get("ptr")), ptr_fn), C.loc(f, st.get("ln")))
        ck.expect(is_len_of_arg1(fields.get("len")), "R2", adt + "/len", "len = " + sym_show(fields.get("len")), "len is %s, expected x.len()" % sym_show(fields.get("len")), C.loc(f, st.get("ln")))
    # owned: len must be read before into_raw consumes the box
    f = rt.fn("<diplomat_runtime::slices::DiplomatOwnedSlice<T> as core::convert::From<alloc::boxed::Box<[T]>>>::from")
    m = MirFn(f)
    lb = [bb for bb, t in m.calls() if (C.mir_callee(t) or "").endswith("::len")]
    ib = [bb for bb, t in m.calls() if (C.mir_callee(t) or "").endswith("Box::into_raw")]
    if lb and ib:
        ck.expect(m.cfg.dominates(lb[0], ib[0]) and lb[0] != ib[0], "R2", "DiplomatOwnedSlice/len-before-into_raw", "", "len is read after into_raw", C.loc(f))

    # --- R3
    f = rt.fn("diplomat_runtime::diplomat_is_str")
    m = MirFn(C.inline_mir(rt, f))     # with the private helpers it delegates the pointer handling to
    where = C.loc(f)
    is_arg1 = lambda s_: sym_is_arg(s_, 1)
    raw_bbs = [bb for bb, t in m.calls() if RAW_RE.search(C.mir_callee(t) or "")]
    # (a) the reconstruction is only reached with a non-null pointer (NULL+0 is what an empty foreign view looks like)
    for bb in raw_bbs:
        ck.expect(guarded_by(m, bb, is_arg1, want_null=False), "R1", "diplomat_runtime::diplomat_is_str/null-guard", "from_raw_parts(ptr, size) only behind the non-null edge of ptr.is_null()",
                  "diplomat_is_str hands `ptr` to slice::from_raw_parts without a `ptr.is_null()` guard: NULL+0 (e.g. a default-constructed string_view) is undefined behaviour / aborts in debug builds", where)
    # (b) values returned: `true` on the null edge, is_ok(from_utf8(from_raw_parts(ptr,size))) on the other; nothing else
    defs0 = m.defs.get(0, [])
    ok_shape = bool(defs0) and len(raw_bbs) == 1
    kinds = []
    for dbb, kind, node in defs0:
        if kind == "assign":
            v = sym_strip(m.sym_rv(node["rv"]))
            is_true = isinstance(v, tuple) and v[0] == "const" and str(v[1]).strip().lower() in ("true", "const true", "1")
            on_null = guarded_by(m, dbb, is_arg1, want_null=True)
            kinds.append("const-true@null" if (is_true and on_null) else "other-assign:%s" % sym_show(v))
            ok_shape &= is_true and on_null
        else:
            v = ("call", C.mir_callee(node), tuple(m.sym_op(z) for z in node["args"]))
            good = str(v[1]).endswith("result::Result::is_ok")
            inner = sym_peel(v[2][0]) if good else None
            good = good and isinstance(inner, tuple) and inner[0] == "call" and str(inner[1]).endswith("core::str::converts::from_utf8")
            inner2 = sym_peel(inner[2][0]) if good else None
            if good and m.downcast_payload(inner2) is not None:
                inner2 = sym_peel(m.downcast_payload(inner2))     # `Some(view)` built by a helper and taken apart again by the caller

            def is_view(x):
                return isinstance(x, tuple) and x[0] == "call" and str(x[1]).endswith("slice::raw::from_raw_parts") and sym_is_arg(x[2][0], 1) and sym_is_arg(x[2][1], 2)
            if good and isinstance(inner2, tuple) and inner2[0] == "phi":
                # `let bytes = if ptr.is_null() { &[] } else { from_raw_parts(ptr, size) }`: every reaching definition is the view itself
                # (its null guard is (a) above) or the empty array on the null edge
                for abb, akind, anode in m.defs.get(inner2[1], []):
                    if akind == "call":
                        good = good and is_view(("call", C.mir_callee(anode), tuple(m.sym_op(z) for z in anode["args"])))
                        continue
                    rv = anode["rv"]
                    src = rv.get("op", {}) if rv["k"] in ("cast", "use") else {}
                    lcl = (src.get("move") or src.get("copy") or {}).get("l")
                    ty = m.mir["locals"][lcl]["ty"] if lcl is not None else ""
                    if re.match(r"^&('\w+ )?\[u8; 0\]$", ty):
                        good = good and guarded_by(m, abb, is_arg1, want_null=True)
                    else:
                        good = good and is_view(sym_peel(m.sym_rv(rv)))
            else:
                good = good and is_view(inner2)
            kinds.append("validator" if good else "other-call:%s" % sym_show(v)[:80])
            ok_shape &= good
    ok_shape &= kinds.count("validator") == 1
    # (c) no decision other than the null test on the validating path, no other callee anywhere
    ns = null_switches(m)
    stray = []
    for b, blk in m.cfg.blocks.items():
        if blk.get("cleanup") or blk["term"]["k"] != "switch" or b in ns:
            continue
        if not guarded_by(m, b, is_arg1, want_null=True) and not m.decided_switch(b, facts.all_adts()):
            stray.append(b)
    calls = [(C.mir_callee(t) or "indirect") for _, t in m.calls()]
    allowed = re.compile(r"(::is_null|slice::raw::from_raw_parts|str::converts::from_utf8|result::Result::is_ok|core::panicking::\w+)$")
    extra = [c for c in calls if not allowed.search(c)]
    ck.expect(ok_shape and not stray and not extra, "R3", "diplomat_is_str/exact",
              "true for NULL, else is_ok(from_utf8(from_raw_parts(ptr,size)))",
              "diplomat_is_str returns %s, with %d extra decisions on the validating path and extra calls %s: not the unmodified core validator" % (kinds, len(stray), [c.split("::")[-1] for c in extra]), where)
    n_unchecked = 0
    for f in rt.fn_list:
        mir = f.get("mir")
        if not mir or "blocks" not in mir:
            continue
        m = MirFn(C.inline_mir(rt, f))
        for bb, t in m.calls():
            cal = C.mir_callee(t) or ""
            if re.search(r"from_utf8_unchecked(_mut)?$", cal):
                n_unchecked += 1
                a = m.sym_op(t["args"][0])
                # must derive from field `.0` of a Utf8 view (arg1); a null-normalised pointer is a merge of that and a dangling constant
                txt = sym_show(a)
                alts = m.sym_alts(a)
                ok = any(x[0] == "proj" and x[2] == ".0" and sym_is_arg(x[1], 1) for a_ in alts for x in sym_walk(a_))
                ok = ok and {l for a_ in alts for l in sym_leaves(a_) if l[0] == "arg"} == {("arg", 1)} and not any(l[0] in ("phi", "local") for a_ in alts for l in sym_leaves(a_))
                in_utf8 = "Utf8" in f["path"] or "UTF8" in f["path"]
                ck.expect(ok and in_utf8, "R3", f["path"] + "/unchecked-from-view", "argument derives from the view's bytes", "from_utf8_unchecked on %s: not the bytes of a validated Utf8 view" % txt, C.loc(f, t.get("ln")))
    if n_unchecked < 3:
        ck.bad("R3", "unchecked-floor", "%d from_utf8_unchecked sites, 3 counted" % n_unchecked)

    # --- R4
    fa = rt.fn("diplomat_runtime::diplomat_alloc")
    ff = rt.fn("diplomat_runtime::diplomat_free")
    for f, sz, al, fn_sfx in ((fa, 1, 2, "alloc::alloc::alloc"), (ff, 2, 3, "alloc::alloc::dealloc")):
        m = MirFn(f)
        # the Layout handed to the allocator, same-crate helpers looked through
        fin0 = [(bb, t) for bb, t in m.calls() if (C.mir_callee(t) or "").endswith(fn_sfx)]
        lay = []
        for bb, t in fin0:
            term = C.sym_expand(rt, m.sym_op(t["args"][-1]))
            lay += [x for x in sym_walk(term) if x[0] == "call" and str(x[1]).endswith("Layout::from_size_align")]
        ok = len(lay) == 1 and sym_is_arg(lay[0][2][0], sz) and sym_is_arg(lay[0][2][1], al)
        ck.expect(ok, "R4", f["name"] + "/layout-args", "Layout::from_size_align(size, align)", "Layout is built from the wrong parameters (size/align swapped or different)", C.loc(f))
        fin = [(bb, t) for bb, t in m.calls() if (C.mir_callee(t) or "").endswith(fn_sfx)]
        ok2 = len(fin) == 1
        if ok2 and fn_sfx.endswith("dealloc"):
            ok2 = sym_is_arg(m.sym_op(fin[0][1]["args"][0]), 1)
        ck.expect(ok2, "R4", f["name"] + "/allocator-call", fn_sfx, "does not call %s on its pointer" % fn_sfx, C.loc(f))
        # symmetry on every path: whatever diplomat_alloc hands out was obtained from the allocator, and diplomat_free hands everything back
        if ok2:
            cbb = fin[0][0]
            rets = m.cfg.returns()
            on_all = bool(rets) and all(cbb in pth for r in rets for pth in m.paths(0, r))
            if fn_sfx.endswith("::alloc"):
                d0 = m.defs.get(0, [])
                only = len(d0) == 1 and d0[0][1] == "call" and (C.mir_callee(d0[0][2]) or "").endswith(fn_sfx)
                ck.expect(on_all and only, "R4", f["name"] + "/every-path", "returns alloc(layout) on every path",
                          "diplomat_alloc does not return the allocator's pointer on every path (e.g. a dangling pointer for size 0) while diplomat_free still deallocates whatever it is given", C.loc(f))
            else:
                ck.expect(on_all, "R4", f["name"] + "/every-path", "dealloc on every path", "diplomat_free skips dealloc on some path while diplomat_alloc always allocates", C.loc(f))

    # --- R7 the JS runtime computes the UTF-8 byte length of a string per code point: a loop that indexes UTF-16 code units (`i < string.length`, `codePointAt(i)`) counts every
    #     astral character twice (once as the pair, once as its trail surrogate), so the (ptr, len) view handed to Rust is longer than the encoded bytes
    ck.rule("R7", "JS DiplomatBuf.str8 sizes its buffer from the string's code points (string iteration / TextEncoder), never from an index loop over UTF-16 code units")
    rtm = C.read_repo("tool/templates/js/runtime.mjs")
    m8 = re.search(r"static\s+str8\s*=\s*\(wasm,\s*string\)\s*=>\s*\{(.*?)\n    \}", rtm, re.S)
    if not m8:
        ck.bad("R7", "runtime.mjs/str8", "DiplomatBuf.str8 not found", "tool/templates/js/runtime.mjs")
    else:
        b8 = re.sub(r"//[^\n]*", "", m8.group(1))
        unit_loop = re.search(r"for\s*\(\s*(?:let|var)\s+(\w+)\s*=\s*0\s*;\s*\1\s*<\s*string\.length\s*;\s*\1\+\+\s*\)", b8)
        per_unit = bool(unit_loop) and re.search(r"codePointAt\(\s*%s\s*\)|charCodeAt\(\s*%s\s*\)" % (unit_loop.group(1), unit_loop.group(1)), b8) is not None and \
            re.search(r"%s\s*(\+\+|\+=\s*1)" % unit_loop.group(1), b8[unit_loop.end():]) is None
        by_cp = re.search(r"for\s*\(\s*(?:const|let|var)\s+\w+\s+of\s+string\s*\)|TextEncoder|encodeInto", b8) is not None
        ck.expect(by_cp and not per_unit, "R7", "runtime.mjs/str8/length-per-code-point", "iterates code points", "DiplomatBuf.str8 measures the string with an index loop over UTF-16 code units: "
                  "each character above U+FFFF adds the bytes of its trail surrogate as well, the view passed to Rust covers uninitialised bytes", "tool/templates/js/runtime.mjs")

    # --- R6 type shape
    for name in ("slices::DiplomatSlice", "slices::DiplomatSliceMut", "slices::DiplomatOwnedSlice"):
        a = rt.adt(name)
        fl = [x["name"] for x in a["variants"][0]["fields"]]
        ck.expect(a["repr_c"] and fl[:2] == ["ptr", "len"], "R6", name + "/repr(C){ptr,len}", str(fl), "%s is not repr(C) {ptr, len, ..}: %s" % (name, fl), C.loc(a))
        for x in a["variants"][0]["fields"]:
            ck.expect(not x["vis"].startswith("Public"), "R6", "%s.%s/private" % (name, x["name"]), "", "field is public: safe code can forge a view", C.loc(a))
        lay = [l for l in a["layouts"] if l["args"] == ["u16"]]
        if lay:
            off = lay[0]["layout"]["offsets"]
            ck.expect(off[0] == 0 and off[1] == 8 and lay[0]["layout"]["size"] == 16, "R6", name + "/layout<u16>", str(lay[0]["layout"]["offsets"]), "unexpected layout %s" % lay[0]["layout"])
    for name in ("slices::DiplomatUtf8StrSlice", "slices::DiplomatOwnedUTF8StrSlice"):
        a = rt.adt(name)
        ck.expect(a["repr_transparent"], "R6", name + "/repr(transparent)", "", "%s is not repr(transparent) over its byte view" % name, C.loc(a))
        ck.expect(not a["variants"][0]["fields"][0]["vis"].startswith("Public"), "R6", name + ".0/private", "", "inner view is public: unvalidated bytes can be wrapped as str", C.loc(a))
    if isinstance(ck, C.Check):
        shares(ck, facts)


def cpp_runtime_view_rules(ck, rule):
    """runtime.hpp: a C++ view built from a C `{data, len}` record takes both members (`T{val.data, val.len}`): built from `data` alone, the length is whatever
    strlen finds -- a sub-slice or a string with an interior NUL arrives with the wrong extent."""
    rth = C.read_repo("tool/templates/cpp/runtime.hpp.jinja")
    sites = list(re.finditer(r"[\{\(]\s*(\w+)\.data\s*([,\}\)])\s*((?:\w+)\.len)?", rth))
    for i, m_ in enumerate(sites):
        ok_ = m_.group(2) == "," and m_.group(3) == m_.group(1) + ".len"
        ck.expect(ok_, rule, "cpp/runtime.hpp/view-from-data-and-len#%d" % i, "{x.data, x.len}", "a view is constructed from `%s.data` %s: its length no longer is the one Rust passed" %
                  (m_.group(1), "alone" if m_.group(2) != "," else "and `%s`" % (m_.group(3) or "something else")), "tool/templates/cpp/runtime.hpp.jinja")
    if len(sites) < 1:
        ck.bad(rule, "cpp/runtime.hpp/view-from-data-and-len/floor", "no view construction from a C {data, len} record found in runtime.hpp (1 counted: fn_traits::replace)", "tool/templates/cpp/runtime.hpp.jinja")


def shares(ck, facts):
    cpp_runtime_view_rules(ck, "R7")
    # JS: a primitive slice is copied element by element through the typed array of the element's wasm32 type (C08.R4: kind and width per primitive)
    import c08
    c08.run(C.SubCheck(ck, "R7", "", ["R4"]), facts)


def run_thorough(ck, facts):
    """Thorough tier: compile-fail witnesses for the type-level clauses, and the runtime rules again on the feature-less build of diplomat-runtime."""
    import thorough
    thorough.witnesses(ck, "T1", "c16")
    alt = thorough.altcfg_runtime()
    ck.units.append("diplomat_runtime.lib built with --no-default-features (MIR)")
    sub = C.SubCheck(ck, "T2", "the runtime-level rules hold as well for diplomat-runtime compiled without its optional features (what a no-jvm, no-log dependent links)", ['R1', 'R2', 'R3', 'R4', 'R6'])
    run(sub, alt)

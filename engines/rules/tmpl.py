"""E3: askama/jinja template reader.  Tokenises templates into text / hole / statement tokens, resolves
{% include %}, and offers a 'flattened' view where holes become ⟦expr⟧ and statements ⟪stmt⟫ so that
C/C++/Dart/Kotlin/JS shaped regexes and small parsers can be applied to the emitted program text."""
import os
import re
import common as C

TOK_RE = re.compile(r"(\{\{-?.*?-?\}\}|\{%-?.*?-?%\}|\{#.*?#\})", re.S)


def tokens(text):
    out = []
    for part in TOK_RE.split(text):
        if not part:
            continue
        if part.startswith("{{"):
            out.append(("hole", part[2:-2].strip("-").strip()))
        elif part.startswith("{%"):
            out.append(("stmt", part[2:-2].strip("-").strip()))
        elif part.startswith("{#"):
            continue
        else:
            out.append(("text", part))
    return out


def load(rel, repo=None, resolve_includes=True, _depth=0):
    """Token list of tool/templates/<rel> with includes spliced in."""
    repo = repo or C.REPO
    p = os.path.join(repo, "tool", "templates", rel)
    if not os.path.exists(p):
        raise C.CheckError("template %s does not exist" % rel)
    with open(p, encoding="utf-8") as f:
        toks = tokens(C.template_canon(rel, f.read(), repo))
    if not resolve_includes or _depth > 5:
        return toks
    out = []
    for k, v in toks:
        m = re.match(r'include\s+"([^"]+)"', v) if k == "stmt" else None
        if m:
            inc = m.group(1)
            base = os.path.dirname(rel)
            cand = [os.path.join(base, inc), inc]
            done = False
            for c in cand:
                if os.path.exists(os.path.join(repo, "tool", "templates", c)):
                    out.extend(load(c, repo, True, _depth + 1))
                    done = True
                    break
            if not done:
                out.append((k, v))
        else:
            out.append((k, v))
    return out


def flat(toks):
    s = []
    for k, v in toks:
        if k == "text":
            s.append(v)
        elif k == "hole":
            s.append("⟦" + v + "⟧")
        else:
            s.append("⟪" + v + "⟫")
    return "".join(s)


def flat_file(rel, **kw):
    return flat(load(rel, **kw))


def holes(toks):
    return [v for k, v in toks if k == "hole"]


def strip_stmts(s):
    return re.sub("⟪.*?⟫", "", s, flags=re.S)


def for_blocks(toks, var_re):
    """Yield token sub-lists of `{% for <x> in <expr matching var_re> %} ... {% endfor %}` (nesting aware)."""
    i = 0
    n = len(toks)
    while i < n:
        k, v = toks[i]
        m = re.match(r"for\s+(.+?)\s+in\s+(.+)$", v) if k == "stmt" else None
        if m and re.search(var_re, m.group(2)):
            depth = 1
            j = i + 1
            while j < n and depth:
                if toks[j][0] == "stmt":
                    if toks[j][1].startswith("for "):
                        depth += 1
                    elif toks[j][1].startswith("endfor"):
                        depth -= 1
                j += 1
            yield m.group(1), m.group(2), toks[i + 1:j - 1]
            i = j
        else:
            i += 1


def guards_at(fl, pos):
    """Control statements of a flattened template that enclose position pos: ['for m in methods', 'match x / when Some with (y)', ...]."""
    stack = []  # [opening statement, current branch label]
    for m in re.finditer(r"⟪(.*?)⟫", fl[:pos], re.S):
        t = " ".join(m.group(1).replace("~", " ").split())
        w = t.split()[0] if t else ""
        if w in ("if", "for", "match", "macro", "block", "call", "filter"):
            stack.append([t, None])
        elif w.startswith("end") and w[3:] in ("if", "for", "match", "macro", "block", "call", "filter"):
            if stack:
                stack.pop()
        elif w in ("else", "elif", "when") and stack:
            stack[-1][1] = t
    return ["%s / %s" % (a, b) if b else a for a, b in stack]

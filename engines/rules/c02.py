"""C02 — C++ bindings preserve values and outcomes (structural clauses only)."""
import re
import common as C
import tmpl
import order
import flow


def cpp_writer_rules(ck, rule):
    """Token rules on the std::string-backed DiplomatWrite adapter in runtime.hpp.jinja (shared with C12.R9)."""
    rth = C.read_repo("tool/templates/cpp/runtime.hpp.jinja")
    W = "tool/templates/cpp/runtime.hpp.jinja"

    def body_of(sig_rx):
        m = re.search(sig_rx + r"\s*\{(.*?)\n\}", rth, re.S)
        return re.sub(r"//[^\n]*", "", m.group(1)) if m else None
    g = body_of(r"inline\s+bool\s+_grow\s*\(\s*capi::DiplomatWrite\s*\*\s*w\s*,\s*uintptr_t\s+requested\s*\)")
    okg = False
    detail = "anchor _grow not found"
    if g is not None:
        i_res = re.search(r"string->resize\(\s*requested\s*\)", g)
        i_cap = re.search(r"w->cap\s*=\s*string->(length|size)\(\)", g)
        i_buf = re.search(r"w->buf\s*=\s*&\(\*string\)\[0\]|w->buf\s*=\s*string->data\(\)", g)
        okg = bool(i_res and i_cap and i_buf) and i_res.start() < i_cap.start() and i_res.start() < i_buf.start() and re.search(r"return\s+true", g) is not None
        cap = re.search(r"w->cap\s*=\s*([^;]+);", g)
        detail = "cap = %s" % (cap.group(1).strip() if cap else None)
    ck.expect(okg, rule, "cpp/runtime/_grow", "resize(requested); cap = length(); buf refreshed", "_grow must resize to the requested size and then publish cap = string->length() and a fresh buf (%s): a capacity larger than size() lets Rust write bytes that _flush's resize(len) overwrites" % detail, W)
    f = body_of(r"inline\s+void\s+_flush\s*\(\s*capi::DiplomatWrite\s*\*\s*w\s*\)")
    ck.expect(f is not None and re.search(r"string->resize\(\s*w->len\s*\)", f) is not None, rule, "cpp/runtime/_flush", "resize(w->len)", "_flush no longer trims the string to the written length", W)
    wf = body_of(r"inline\s+capi::DiplomatWrite\s+WriteFromString\s*\(\s*std::string\s*&\s*string\s*\)")
    okw = wf is not None and all(re.search(rx, wf) for rx in (r"w\.context\s*=\s*&string", r"w\.buf\s*=\s*&string\[0\]|w\.buf\s*=\s*string\.data\(\)", r"w\.len\s*=\s*string\.(length|size)\(\)", r"w\.cap\s*=\s*string\.(length|size)\(\)",
                                                                  r"w\.grow_failed\s*=\s*false", r"w\.flush\s*=\s*_flush", r"w\.grow\s*=\s*_grow"))
    ck.expect(okw, rule, "cpp/runtime/WriteFromString", "len = cap = string.length(), callbacks wired", "WriteFromString no longer initialises {context, buf, len, cap, grow_failed, flush, grow} consistently", W)


def cpp_write_return_rules(ck, rule, facts):
    """Every C++ return conversion that unwraps a `.ok` payload for out-types hands back the written string (`output`) for SuccessType::Write in the
    same match, in an arm of its own (shared with C12: the string Rust wrote is what the C++ method returns, for every return shape)."""
    tool = facts.tool
    f = tool.fn("cpp::ty::TyGenContext::gen_c_to_cpp_for_return_type")
    nodes = list(C.walk_inl(tool, C.fn_body(f), 2, exclude=[f["path"]]))
    n = 0
    for mt in nodes:
        if mt.get("k") != "match" or not (mt.get("sadt") or "").endswith("methods::SuccessType"):
            continue
        arm_txt = {}
        for arm in mt["arms"]:
            vs = [(v or "").split("::")[-1] for v in [arm["pat"].get("v")] + [a_.get("v") for a_ in (arm["pat"].get("alts") or [])] if v]
            txt = " ".join(C.str_lits(arm["b"]) + [m_.get("src", "") for m_ in C.walk(arm["b"]) if m_.get("k") == "macro"])
            for v in vs:
                arm_txt[v] = (txt, tuple(vs))
        if not any(".ok" in t for t, _ in arm_txt.values()):
            continue  # a type-name match, not a value conversion
        n += 1
        w = arm_txt.get("Write")
        ok = w is not None and "output" in w[0] and w[1] == ("Write",)
        ck.expect(ok, rule, "cpp::gen_c_to_cpp_for_return_type/write-returns-output#%d" % n, "Write -> std::move(output)",
                  "a return conversion unwraps `.ok` for out-types but yields `%s` for SuccessType::Write (arm %s): the string Rust wrote is dropped for this return shape" % ((w or ("<no arm>",))[0][:40], (w or (None, None))[1]), C.loc(f, mt.get("ln")))
    # per return shape (Write success): the expression the function yields -- early returns taken under that shape included -- tests `is_ok` exactly for the
    # fallible and nullable shapes (a shortcut that hands `output` back for Option<()> makes every call look like Some)
    import exprval
    body_ = C.fn_body(f)
    items_ = (body_.get("s") or []) + ([body_["e"]] if body_.get("e") is not None else [])
    top = next((C.strip(it) for it in items_ if C.strip(it).get("k") == "match" and (C.strip(it).get("sadt") or "").endswith("methods::ReturnType")), None)
    for shape in ("Infallible", "Fallible", "Nullable"):
        env = {"result_ty": shape, "()is_write": True}
        text = None
        for it in items_:
            i_ = C.strip_keep_macro(it)
            if isinstance(i_, dict) and i_.get("k") == "if" and C.diverges(i_.get("t")):
                try:
                    taken = bool(exprval.bev(i_["c"], env))
                except exprval.Unknown:
                    taken = None
                if taken:
                    text = " ".join(C.str_lits(i_["t"]))
                    break
        if text is None and top is not None:
            for arm in top["arms"]:
                pv = arm["pat"]
                vs_ = [q.get("v") for q in ([pv] if pv.get("k") != "or" else pv["alts"])]
                subs_ = [q2.get("v") for q in ([pv] if pv.get("k") != "or" else pv["alts"]) for q2 in (q.get("sub") or []) if isinstance(q2, dict)]
                if shape in vs_ and (not any(subs_) or "Write" in subs_ or all(x_ is None for x_ in subs_)):
                    text = " ".join(l_ for b2 in C.bodies_inl(tool, arm["b"], depth=1, exclude=[f["path"]]) for l_ in C.str_lits(b2))      # the arm and the helpers it delegates to
                    if "Write" in subs_ or not any(subs_):
                        break
        if text is None:
            continue
        want_flag = shape != "Infallible"
        ck.expect(("is_ok" in text) == want_flag and "output" in text, rule, "cpp::gen_c_to_cpp_for_return_type/%s(Write)-tests-flag" % shape, text[:60],
                  "for a %s return with a written string the conversion is `%s`: %s" % (shape, text[:90], "the is_ok flag is not consulted, a None / Err result still yields the string" if want_flag else "unexpected flag test"), C.loc(f))
    direct = any(x.get("k") == "lit" and "std::move(output)" in str(x.get("v", "")) for x in nodes)
    ck.expect(n >= 1 and direct, rule, "cpp::gen_c_to_cpp_for_return_type/write-conversions", "%d conversion matches" % n, "no value-conversion match over SuccessType found (anchor lost)", C.loc(f))


def T_find(fn, adt_suffix):
    return [n for n in C.walk(C.fn_body(fn)) if n.get("k") == "match" and (n.get("sadt") or "").endswith(adt_suffix)]


def run(ck, facts):
    tool = facts.tool
    adts = facts.all_adts()
    ck.units += ["diplomat_tool.lib (cpp)", "templates/cpp"]
    ck.rule("R1", "a UTF-8 check with its own early `return Err<Utf8Error>` is generated for every direct &str (Slice::Str(_, Utf8)) parameter, inside the loop over parameters, into the list the template prints")
    ck.rule("R2", "the template prints every validation before the native call")
    ck.rule("R3", "C++ -> C argument order is self -> params -> write; no reordering")
    ck.rule("R4", "result/option conversions do not cross arms (ok branch reads .ok, else branch reads .err / nullopt)")
    ck.rule("R5", "runtime.hpp: the std::string writer publishes cap = length() after resize; the bundled span copies data and size in every copy operation; c_run_callback/c_delete cast the same function_t")
    ck.rule("R6", "runtime.hpp/diplomat::result: every accessor touches only its own arm (ok/is_ok/set_ok <-> Ok<T>, err/is_err/set_err <-> Err<E>), in both the value and the reference overloads; "
                  "comparison operators derived from a comparator compare its result with 0 using the operator's own relation; the bundled span default-constructs empty like std::span; "
                  "the enum wrapper's enumerators carry the stored discriminants (shares C11.R1)")
    ck.not_decided += ["value preservation of each of the ~40 conversion expressions for all values", "-std=c++17 vs -std=c++20 compilation"]

    g0 = tool.fn("cpp::ty::TyGenContext::gen_method_info")

    def params_loop(f):
        return next((n for n in C.walk(C.fn_body(f)) if n.get("k") == "for" and any(x.get("k") == "field" and x.get("n") == "params" for x in C.walk(n["iter"]))), None)
    # the parameter walk may live in a helper gen_method_info delegates to
    g = order.holder(tool, g0, lambda f: params_loop(f) is not None)
    body = C.fn_body(g)
    all_bodies = C.bodies_inl(tool, C.fn_body(g0), depth=2)
    loop = params_loop(g)
    if not loop:
        ck.bad("R1", "gen_method_info/params-loop", "loop over method.params not found", C.loc(g))
    else:
        cond_if = None

        def names(p):
            if not isinstance(p, dict):
                return []
            out = [p.get("v")] if p.get("k") == "variant" else []
            for s in p.get("sub", []) or [] if isinstance(p.get("sub"), list) else []:
                out += names(s)
            for s in p.get("alts", []) or []:
                out += names(s)
            if p.get("k") == "ref":
                out += names(p["sub"])
            return out
        for n in C.walk(loop["body"]):
            # the branch taken for Slice::Str(_, Utf8): `if matches!(ty, P) {..}`, `if let P = ty {..}` or the arm `P => {..}` of a match on the type
            if n.get("k") == "if":
                vs = []
                for x in C.walk(n["c"]):
                    if x.get("k") == "match":
                        for a in x["arms"]:
                            vs += names(a["pat"])
                    elif x.get("k") == "let":
                        vs += names(x.get("pat"))
                if {"Slice", "Str", "Utf8"} <= set(vs):
                    cond_if = n
            elif n.get("k") == "match" and not n.get("synthetic"):
                for a in n["arms"]:
                    if {"Slice", "Str", "Utf8"} <= set(names(a["pat"])) and any(x.get("k") == "mcall" and x.get("m") == "push" for x in C.walk(a["b"])):
                        cond_if = {"k": "if", "c": n["s"], "t": a["b"], "ln": n.get("ln")}
        if cond_if:
            # the branch is taken for EVERY such parameter: its condition is the type test alone (no further conjunct such as "no validation emitted yet")
            c0 = C.strip_keep_macro(cond_if["c"])
            extra = isinstance(c0, dict) and c0.get("k") == "bin" and c0.get("op") in ("And", "Or")
            ck.expect(not extra, "R1", "gen_method_info/utf8-condition-is-the-type-test-alone", "", "the UTF-8 validation of a &str parameter is emitted under a further condition besides its type: "
                      "some &str parameters (e.g. every one after the first) reach Rust unchecked", C.loc(g, cond_if.get("ln")))
        if not cond_if:
            ck.bad("R1", "gen_method_info/utf8-condition", "no branch on Type::Slice(Slice::Str(_, StringEncoding::Utf8)) inside the parameter loop: &str parameters are not validated", C.loc(g))
        else:
            pushes = [x for x in C.walk(cond_if["t"]) if x.get("k") == "mcall" and x.get("m") == "push"]
            okp = False
            lst = None
            detail = "no push"
            for p in pushes:
                lits = C.str_lits(p["a"][0])
                lit = " ".join(lits)
                lst = (order.list_name(p["recv"]) or [None])[0]
                has_check = re.search(r"if\s*\(\s*!\s*diplomat::capi::diplomat_is_str\(\{(\w+)\}\.data\(\),\s*\{\1\}\.size\(\)\)\s*\)", lit) is not None
                has_ret = "return diplomat::Err<diplomat::Utf8Error>()" in lit
                okp = has_check and has_ret
                detail = "pushes `%s` onto %s" % (lit[:90].replace("\n", " "), lst)
            ck.expect(okp, "R1", "gen_method_info/per-param-validation", detail, "the per-parameter UTF-8 validation is not a self-contained `if (!diplomat_is_str(p.data(), p.size())) return Err<Utf8Error>()`: %s (checks combined later can let a partially invalid argument list reach Rust)" % detail, C.loc(g, cond_if.get("ln")))
            # the list flows unchanged into MethodInfo.param_validations: directly (same function), or as the field of a record the helper returns and
            # gen_method_info takes apart
            slot_ok = False
            lst_local, _, lst_field = (lst or "").partition(".")
            push_recv = C.strip(pushes[-1]["recv"]) if pushes else {}
            root_ = push_recv
            while isinstance(root_, dict) and root_.get("k") in ("field", "addr", "un"):
                root_ = C.strip(root_.get("e"))
            L_id = root_.get("id") if isinstance(root_, dict) and root_.get("k") == "local" else None
            # how the helper hands the list (or the record holding it) back: whole, as field F of a returned record, or as component i of a returned tuple
            ret_slot = None
            if g is not g0 and L_id is not None:
                tail = C.strip(C.fn_body(g).get("e") or {})
                if tail.get("k") == "local" and tail.get("id") == L_id:
                    ret_slot = ("whole", lst_field or None)
                elif tail.get("k") == "struct":
                    for fl_ in tail.get("fields") or []:
                        e_ = C.strip(fl_["e"])
                        if e_.get("k") == "local" and e_.get("id") == L_id and not lst_field:
                            ret_slot = ("field", fl_["n"])
                elif tail.get("k") == "tup":
                    for ix, a_ in enumerate(tail.get("a") or []):
                        e_ = C.strip(a_)
                        if e_.get("k") == "local" and e_.get("id") == L_id and not lst_field:
                            ret_slot = ("index", ix)
            recv_ids, recv_whole = set(), set()
            if ret_slot:
                for ls in C.walk(C.fn_body(g0)):
                    if ls.get("k") != "letst" or ls.get("init") is None or C.norm_path(g["path"]) not in {C.norm_path(C.callee(c_) or "") for c_ in C.calls_in(ls["init"])}:
                        continue
                    pat = ls["pat"]
                    if pat.get("k") == "bind":
                        recv_whole.add(pat.get("id"))
                    elif ret_slot[0] in ("field", "whole") and ret_slot[1]:
                        for fp in pat.get("fields") or []:
                            if fp.get("n") == ret_slot[1]:
                                recv_ids |= set(C.pat_bind_ids(fp.get("p") or fp))
                    elif ret_slot[0] == "index" and pat.get("k") == "tuple" and ret_slot[1] < len(pat.get("sub") or []):
                        recv_ids |= set(C.pat_bind_ids(pat["sub"][ret_slot[1]]))
            for b_ in all_bodies:
                for n in C.walk(b_):
                    if n.get("k") == "struct" and (n.get("adt") or "").endswith("MethodInfo"):
                        for fl in n["fields"]:
                            if fl["n"] != "param_validations":
                                continue
                            e = C.strip(fl["e"])
                            if g is g0 and not lst_field:
                                slot_ok = e.get("k") == "local" and e.get("id") == L_id
                            elif e.get("k") == "local":
                                slot_ok = e.get("id") in recv_ids or (ret_slot is not None and ret_slot[0] == "whole" and not ret_slot[1] and e.get("id") in recv_whole)
                            elif e.get("k") == "field":
                                b0 = C.strip(e["e"])
                                want_f = ret_slot[1] if ret_slot and ret_slot[0] in ("field", "whole") and ret_slot[1] else lst_field
                                slot_ok = e.get("n") == want_f and (g is g0 or (b0.get("k") == "local" and b0.get("id") in recv_whole))
            joins = [x for b_ in all_bodies for x in C.walk(b_) if x.get("k") == "mcall" and x.get("m") == "join" and
                     (lst in order.list_name(x["recv"]) or any(y.get("k") == "local" and y.get("n") == lst for y in C.walk(x["recv"])))]
            ck.expect(slot_ok and not joins, "R1", "gen_method_info/validations-reach-template", "", "the list the validations are pushed onto (%s) is not what MethodInfo.param_validations receives (or is joined into one condition)" % lst, C.loc(g))
            # validation precedes conversion in the same iteration
            items = loop["body"].get("s", []) + ([loop["body"]["e"]] if loop["body"].get("e") else [])
            i_val = next((i for i, s in enumerate(items) if any(cond_if is x for x in C.walk(s))), None)
            i_conv = next((i for i, s in enumerate(items) if any(x.get("k") == "mcall" and x.get("m") == "gen_cpp_to_c_for_type" for x in C.walk(s))), None)
            ck.expect(i_val is not None and i_conv is not None, "R1", "gen_method_info/same-iteration", "", "validation and conversion are not produced by the same loop iteration", C.loc(g))
            # the early return type is accounted for: returns_utf8_err wraps the return type
            wraps = any(re.search(r"diplomat::result<\{\w+\}, diplomat::Utf8Error>", s) for b_ in all_bodies for s in C.str_lits(b_))
            ck.expect(wraps, "R1", "gen_method_info/return-type-wrapped", "", "methods with validated parameters no longer return diplomat::result<T, Utf8Error>", C.loc(g))
    # ---------------- R2
    toks = tmpl.load("cpp/method_impl.h.jinja", resolve_includes=False)
    fl = tmpl.flat(toks)
    i_val = fl.find("for validation in m.param_validations")
    i_call = re.search(r"⟦\s*m\.abi_name\s*⟧\s*\(", fl)
    ck.expect(i_val >= 0 and i_call is not None and i_val < i_call.start() and re.search(r"⟦\s*validation", fl) is not None, "R2", "method_impl.h/validations-before-call", "", "the C++ method template does not print the validations before calling the native function", "tool/templates/cpp/method_impl.h.jinja")
    # ---------------- R3
    order.method_param_order(ck, "R3", g, "cpp::gen_method_info", unit=tool)
    okw = any(n.get("k") == "if" and C.strip(n["c"]).get("k") == "mcall" and C.strip(n["c"]).get("m") == "is_write" and any(x.get("k") == "mcall" and x.get("m") == "push" and "&write" in C.str_lits(x["a"][0]) for x in C.walk(n["t"])) for b_ in all_bodies for n in C.walk(b_))
    ck.expect(okw, "R3", "cpp::gen_method_info/write-last", "", "`&write` is not appended under method.output.is_write()", C.loc(g))
    fl_t = fl
    ck.expect(re.search(r"for \w+ in \w+\.cpp_to_c_params", fl_t) is not None and "reverse" not in fl_t and "|sort" not in fl_t, "R3", "method_impl.h/param-order", "", "the template does not print cpp_to_c_params in order", "tool/templates/cpp/method_impl.h.jinja")
    # the C++ spelling of a string view depends on the encoding (char vs char16_t code units) and is decided in ONE table, the formatter's: no generator
    # function spells a view type itself (a hard-coded `std::string_view(x.data, x.len)` is a UTF-8 view built from char16_t*)
    enc_tabs = [f_ for f_ in tool.fn_list if "hir" in f_ and C.norm_path(f_["path"]).startswith("diplomat_tool::cpp::formatter::") and T_find(f_, "StringEncoding")]
    spellings = set()
    for f_ in enc_tabs:
        for m_ in T_find(f_, "StringEncoding"):
            for arm in m_["arms"]:
                spellings |= {l_ for l_ in C.str_lits(arm["b"]) if re.fullmatch(r"std::\w*string_view", l_)}
    ck.expect(len(spellings) >= 2, "R4", "cpp::formatter/string-view-table", str(sorted(spellings)), "the formatter's encoding -> string view table was not found (spellings seen: %s)" % sorted(spellings), None)
    for f_ in tool.fn_list:
        if "hir" not in f_ or f_.get("dk") == "Closure" or f_.get("exp") or "askama::" in f_["path"] or f_ in enc_tabs or not re.match(r"^diplomat_tool::(cpp|nanobind)::", C.norm_path(f_["path"])):
            continue
        hard = sorted({sp for l_ in C.str_lits(C.fn_body(f_)) for sp in spellings if re.search(r"(?<![\w:])" + re.escape(sp) + r"(?!\w)", l_)})
        if hard:
            ck.bad("R4", "%s/hard-coded-string-view" % C.norm_path(f_["path"]).replace("diplomat_tool::", ""), "%s spells %s itself instead of asking the formatter's encoding table: the other encoding's "
                   "strings get a view of the wrong code-unit type (does not compile, or reinterprets UTF-16 data as bytes)" % (f_["name"], hard), C.loc(f_))
    # ---------------- R4
    n4 = 0
    for fname in ("gen_c_to_cpp_for_return_type", "gen_c_to_cpp_for_type"):
        f = tool.fn("cpp::ty::TyGenContext::" + fname)
        for s in C.str_lits(C.fn_body(f)):
            m = re.search(r"\.is_ok\s*\?\s(.*?)\s:\s(.*)$", s, re.S)
            if not m:
                continue
            n4 += 1
            tb, eb = m.group(1), m.group(2)
            good = ("Err<" not in tb) and ("Ok<" not in eb) and ("nullopt" not in tb) and ("Ok<" in tb or "optional" in tb) and ("Err<" in eb or "nullopt" in eb)
            ck.expect(good, "R4", "cpp::%s/%s" % (fname, s[:28]), "", "C++ result/option conversion crosses arms: `%s`" % s[:140], C.loc(f))
        for n in C.walk(C.fn_body(f)):
            if n.get("k") == "letst" and n["pat"].get("k") == "bind" and n["pat"]["n"] in ("ok_conversion", "err_conversion", "conversion"):
                lits = [s for s in C.str_lits(n["init"]) if "{var_name}." in s]
                want = ".err" if n["pat"]["n"].startswith("err") else ".ok"
                if lits:
                    n4 += 1
                    ck.expect(all(s.endswith("{var_name}" + want) for s in lits), "R4", "cpp::%s/%s" % (fname, n["pat"]["n"]), str(lits), "`%s` reads %s, expected the `%s` arm" % (n["pat"]["n"], lits, want), C.loc(f, n.get("ln")))
    if n4 < 5:
        ck.bad("R4", "floor", "only %d arm checks" % n4)
    # ---------------- R5
    cpp_writer_rules(ck, "R5")
    rth = C.read_repo("tool/templates/cpp/runtime.hpp.jinja")
    m = re.search(r"class span \{(.*?)\n\};", rth, re.S)
    if not m:
        ck.bad("R5", "cpp/runtime/span", "bundled span class not found", "tool/templates/cpp/runtime.hpp.jinja")
    else:
        cls = m.group(1)
        members = re.findall(r"^\s*[\w:<>\* ]+?\s+(\w+_);\s*$", cls.split("private:")[-1], re.M)
        copies = re.findall(r"(constexpr\s+span\s*\(\s*const\s+span<T>\s*&\s*o\s*\)\s*:[^{]*\{[^}]*\}|(?:void|span\s*&|constexpr\s+span\s*&)\s*operator=\s*\([^)]*\bo\b[^)]*\)[^{]*\{[^}]*\})", cls)
        ck.expect(sorted(members) == ["data_", "size_"] and len(copies) >= 2, "R5", "cpp/runtime/span-shape", "%s, %d copy operations" % (members, len(copies)), "span members %s / copy operations %d" % (members, len(copies)), "tool/templates/cpp/runtime.hpp.jinja")
        for c in copies:
            kind = "operator=" if "operator=" in c else "copy-ctor"
            missing = [mb for mb in members if ("o." + mb) not in c]
            ck.expect(not missing, "R5", "cpp/runtime/span-%s-copies-all-members" % kind, "", "span %s does not copy %s from its argument: a reassigned span keeps a stale %s" % (kind, missing, missing), "tool/templates/cpp/runtime.hpp.jinja")
    run_cb = re.search(r"static\s+Ret\s+c_run_callback\s*\(\s*const\s+void\s*\*\s*cb[^)]*\)\s*\{(.*?)\n    \}", rth, re.S)
    ck.expect(bool(run_cb) and "reinterpret_cast<const function_t *>(cb)" in run_cb.group(1), "R5", "cpp/runtime/c_run_callback", "", "c_run_callback no longer invokes the std::function stored behind the data pointer", "tool/templates/cpp/runtime.hpp.jinja")
    if run_cb:
        # the stored callable itself is invoked: it is called through the pointer, or bound to a reference / pointer first -- never copied into a local object
        by_value = re.findall(r"(?:^\s*|[;{]\s*)((?:const\s+)?(?:auto|function_t|std::function<[^;=]*>)\s+(\w+)\s*(?:=|\{|\()\s*\*\s*reinterpret_cast<[^>]*>\s*\(\s*cb\s*\))", run_cb.group(1))
        ck.expect(not by_value, "R5", "cpp/runtime/c_run_callback/no-copy", "called through the stored object",
                  "c_run_callback copies the stored std::function (`%s`) and calls the copy: state captured by value (a mutable lambda, a functor with counters) restarts from its initial value on every call from Rust"
                  % (by_value[0][0].strip()[:70] if by_value else ""), "tool/templates/cpp/runtime.hpp.jinja")
    # a struct's methods are generated after its field phase (otherwise headers of mutually referring structs stop compiling and the API cannot be called at all; shares C09.R7)
    import c09
    c09.cpp_struct_field_window(ck, "R3", facts)


    # ---------------- R6 runtime.hpp result arms, comparison operators, span default, enum wrapper
    rth = C.read_repo("tool/templates/cpp/runtime.hpp.jinja")
    W = "tool/templates/cpp/runtime.hpp.jinja"

    def brace_body(text, start):
        depth = 0
        i = text.index("{", start)
        j = i
        while j < len(text):
            if text[j] == "{":
                depth += 1
            elif text[j] == "}":
                depth -= 1
                if depth == 0:
                    return text[i + 1:j], j
            j += 1
        return None, None
    mcls = re.search(r"class\s+result\s*\{", rth)
    nacc = 0
    if not mcls:
        ck.bad("R6", "result/class", "class diplomat::result not found", W)
    else:
        cls, _ = brace_body(rth, mcls.start())
        cls = re.sub(r"//[^\n]*", "", cls)
        for mm in re.finditer(r"\b(is_ok|is_err|ok|err|set_ok|set_err)\s*\(([^)]*)\)\s*(?:const)?\s*(?:&&)?\s*\{", cls):
            name = mm.group(1)
            body_, _ = brace_body(cls, mm.end() - 1)
            if body_ is None:
                continue
            arm = "ok" if "ok" in name else "err"
            toks_ = set(re.findall(r"\b(is_ok|is_err)\b|\b(Ok|Err)\s*<", body_))
            flat_ = {a or b for a, b in toks_}
            own = {"ok": {"is_ok", "Ok"}, "err": {"is_err", "Err"}}[arm]
            nacc += 1
            key = "result::%s#%d" % (name, sum(1 for i in ck.instances if i["rule"] == "R6" and i["key"].startswith("result::%s#" % name)))
            ck.expect(bool(flat_) and flat_ <= own, "R6", key, "touches %s" % sorted(flat_),
                      "diplomat::result::%s() refers to %s: an accessor for the %s arm tests or reads the other arm (is_ok()/ok() disagree; the other arm throws bad_variant_access)" % (name, sorted(flat_), arm), W)
        if nacc < 8:
            ck.bad("R6", "result/accessor-floor", "only %d result accessors found (8 counted: is_ok, is_err, ok x2, err x2, set_ok, set_err)" % nacc, W)
    # comparison operators
    mi = tmpl.flat_file("cpp/method_impl.h.jinja", resolve_includes=False)
    ops = re.findall(r"operator\s*(==|!=|<=|>=|<|>)\s*\(\s*const[^)]*\)\s*const\s*\{\s*return\s+this->⟦\s*m\.method_name\s*⟧\(other\)\s*(==|!=|<=|>=|<|>)\s*0\s*;", mi)
    ck.expect(len(ops) == 6 and all(a == b for a, b in ops) and len({a for a, _ in ops}) == 6, "R6", "cpp/method_impl/comparison-operators", str(ops),
              "the six comparison operators are not each `cmp(other) <same relation> 0`: %s" % ops, "tool/templates/cpp/method_impl.h.jinja")
    # bundled span: default state is the empty span (std::span semantics under -std=c++20)
    msp = re.search(r"constexpr\s+span\s*\(\s*T\s*\*\s*data\s*=\s*nullptr\s*,\s*size_t\s+size\s*=\s*(.*?)\)\s*:\s*data_\s*\(\s*data\s*\)", rth, re.S)
    dflt = msp.group(1).strip() if msp else None
    ok_sp = dflt is not None and re.sub(r"\s+", "", dflt) in ("0", "(Extent==dynamic_extent?0:Extent)", "Extent==dynamic_extent?0:Extent")
    ck.expect(ok_sp, "R6", "span/default-size", str(dflt), "the bundled C++17 span's default size is `%s`: a default-constructed span must have size() == 0 like std::span "
              "(with Extent = dynamic_extent = SIZE_MAX it claims SIZE_MAX elements at nullptr)" % dflt, W)
    cpp_write_return_rules(ck, "R4", facts)
    # operator overloads: the C++ operator a special method is published as is the one its attribute names (sibling tables: SpecialMethod::operator_str in core, used by the
    # nanobind templates, and Cpp2Formatter::fmt_method_name) -- `a *= b` must run the method marked mul_assign
    CANON = {"Add": "+", "Sub": "-", "Mul": "*", "Div": "/", "AddAssign": "+=", "SubAssign": "-=", "MulAssign": "*=", "DivAssign": "/=", "Indexer": "[]"}

    def variant_lits(fn_):
        out = {}
        for n_ in C.walk(C.fn_body(fn_)):
            if n_.get("k") != "match":
                continue
            for a_ in n_["arms"]:
                vs = []

                def pv_(q):
                    if isinstance(q, dict):
                        if q.get("k") == "variant" and (q.get("adt") or "").endswith("SpecialMethod"):
                            vs.append(q.get("v"))
                        for z in (q.get("sub") or []) if isinstance(q.get("sub"), list) else ([q["sub"]] if isinstance(q.get("sub"), dict) else []):
                            pv_(z)
                        for z in q.get("alts") or []:
                            pv_(z)
                pv_(a_["pat"])
                lits = [l_ for l_ in C.str_lits(a_["b"])]
                if len(vs) >= 1 and len(lits) == 1:
                    for v_ in vs:
                        out[v_] = lits[0]
        return out
    t_core = variant_lits(facts.core.fn("hir::attrs::SpecialMethod::operator_str"))
    t_cpp = variant_lits(tool.fn("cpp::formatter::Cpp2Formatter::fmt_method_name"))
    nop = 0
    for v_, sym_ in sorted(CANON.items()):
        if v_ in t_cpp:
            nop += 1
            ck.expect(t_cpp[v_] == "operator" + sym_ and t_core.get(v_, sym_) == sym_, "R6", "cpp::fmt_method_name/operator/" + v_, t_cpp[v_],
                      "SpecialMethod::%s is published as C++ `%s` (core operator_str: `%s`), expected `operator%s`: the overload runs a different Rust method than its attribute names" % (v_, t_cpp[v_], t_core.get(v_), sym_), C.loc(tool.fn("cpp::formatter::Cpp2Formatter::fmt_method_name")))
    if nop < 8:
        ck.bad("R6", "cpp::fmt_method_name/operator-floor", "only %d operator arms found in fmt_method_name (9 counted)" % nop)
    # enum wrapper
    import c11
    sub = C.SubCheck(ck, "R6", "", ["R1"], key_re=r"^cpp/")
    c11.run(sub, facts)
    c11.run(C.SubCheck(ck, "R6", "", ["R3"], key_re=r"Enum::new"), facts)     # ... whose values are rustc's (discriminant inference, C11.R3)
    # a std::function handed to Rust is moved to the heap and released through c_delete (rule of C03.R5 on the C++ Callback conversion)
    import c03
    sub3 = C.SubCheck(ck, "R6", "", ["R5"], key_re=r"Callback|c_delete")
    c03.run(sub3, facts)
    import c09
    sub4 = C.SubCheck(ck, "R6", "", ["R3", "R7", "R4", "R5"], key_re=r"^cpp/(include-guard|header-path-siblings)|^cpp::path_diff|own-declaration-first|^fmt_identifier/(tables|C\+\+-keywords|escape-form)|^cpp::special-members/|^c::gen_result_ty/")
    c09.run(sub4, facts)
    # the predicate behind the generated UTF-8 validation accepts exactly well-formed UTF-8 (C16.R3 on diplomat_is_str)
    import c16
    c16.run(C.SubCheck(ck, "R1", "", ["R3"], key_re=r"diplomat_is_str"), facts)

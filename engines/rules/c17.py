"""C17 — configuration precedence: file < CLI < #[diplomat::config]; language-scoped overrides; kebab == snake."""
import re
import common as C


def block_stmts(b):
    b = C.strip_keep_macro(b)
    if b.get("k") != "block":
        return [b]
    return list(b.get("s") or []) + ([b["e"]] if b.get("e") else [])


def mcalls_on(node, method, recv_name=None):
    out = []
    for x in C.walk(node):
        if x.get("k") == "mcall" and x.get("m") == method:
            r = C.strip(x["recv"])
            if recv_name is None or (r.get("k") == "local" and r.get("n") == recv_name):
                out.append(x)
    return out


def local_id(n):
    n = C.strip(n)
    while isinstance(n, dict) and n.get("k") in ("field", "mcall"):
        n = C.strip(n["e"] if n["k"] == "field" else n["recv"])
    return (n.get("n"), n.get("id")) if isinstance(n, dict) and n.get("k") == "local" else (None, None)


def self_field_assign(n):
    """assignment `self.<f> = ..` -> f"""
    if n.get("k") == "assign":
        l = C.strip(n["l"])
        if l.get("k") == "field" and C.strip(l["e"]).get("k") == "local" and C.strip(l["e"]).get("n") == "self":
            return l["n"]
    return None


TYPE_PRED = {"is_str", "is_bool", "is_integer", "is_float", "is_table", "is_array", "is_datetime"}


def cond_is_type_pred(c):
    c = C.strip(c)
    return c.get("k") == "mcall" and c.get("m") in TYPE_PRED and C.strip(c["recv"]).get("k") == "local" and C.strip(c["recv"]).get("n") == "value"


def refs_self(n):
    return any(x.get("k") == "local" and x.get("n") == "self" for x in C.walk(n))


def always_assigns(n, field):
    """Every path through n assigns self.<field> or diverges; only `value.is_*()` type guards may skip."""
    n = C.strip_keep_macro(n)
    if not isinstance(n, dict):
        return False
    if C.panic_macro_of(n) or n.get("nv"):
        return True
    k = n.get("k")
    if k == "semi":
        return always_assigns(n["e"], field)
    if k == "assign":
        return self_field_assign(n) == field
    if k == "block":
        return any(always_assigns(s, field) for s in block_stmts(n))
    if k == "if":
        if cond_is_type_pred(n["c"]):
            return always_assigns(n["t"], field) and (n.get("e") is None or always_assigns(n["e"], field))
        return always_assigns(n["t"], field) and n.get("e") is not None and always_assigns(n["e"], field)
    if k == "match":
        return all(always_assigns(a["b"], field) for a in n["arms"])
    if k == "macro":
        return always_assigns(n["inner"], field)
    return False


def key_arms(fn):
    """(key literal, arm body) pairs of a setter: `match key {"lit" => body}` and `if key == "lit" {body}`."""
    out = []
    for n in C.walk(C.fn_body(fn)):
        if n.get("k") == "match" and C.strip(n["s"]).get("k") == "local" and C.strip(n["s"]).get("n") == "key":
            for a in n["arms"]:
                p = a["pat"]
                lits = [p] if p.get("k") == "lit" else [x for x in p.get("alts", []) if x.get("k") == "lit"]
                for l in lits:
                    out.append((l["v"], a["b"], a.get("ln")))
        if n.get("k") == "if":
            c = C.strip(n["c"])
            if c.get("k") == "bin" and c.get("op") == "Eq":
                sides = [C.strip(c["l"]), C.strip(c["r"])]
                if any(s.get("k") == "local" and s.get("n") == "key" for s in sides):
                    lit = [s for s in sides if s.get("k") == "lit"]
                    if lit:
                        out.append((lit[0]["v"], n["t"], n.get("ln")))
            elif c.get("k") == "bin" and c.get("op") == "And":
                # key == "lit" && <more>: the extra conjunct guards the store
                parts = [C.strip(c["l"]), C.strip(c["r"])]
                for prt in parts:
                    if prt.get("k") == "bin" and prt.get("op") == "Eq":
                        ss = [C.strip(prt["l"]), C.strip(prt["r"])]
                        if any(s.get("k") == "local" and s.get("n") == "key" for s in ss):
                            lit = [s for s in ss if s.get("k") == "lit"]
                            other = [q for q in parts if q is not prt][0]
                            if lit:
                                out.append((lit[0]["v"], {"k": "if", "c": other, "t": n["t"], "e": None}, n.get("ln")))
    return out


def run(ck, facts):
    tool, tbin = facts.tool, facts.toolbin
    ck.units += ["diplomat_tool.lib", "diplomat_tool.bin"]
    ck.rule("R1", "sources are applied in the order file -> CLI -> #[diplomat::config] -> per-language override -> consumers; nothing is set after the override step")
    ck.rule("R2", "leaf setters are last-write-wins: the arm for a key always stores the incoming value into the field of the same name (only a type check of the value may skip it; the field's current content is never consulted)")
    ck.rule("R3", "scoping: `lang.key` goes to that language (shared keys to the override table, others to the language's own config with the same prefix); get_overridden applies exactly the overrides prefixed `target.`; every accepted target spelling reaches its overrides")
    ck.rule("R4", "read_file converts every key and sub-key to snake_case before `set`")

    # ---------------- R1 main
    main = tbin.fn("main")
    st = block_stmts(C.fn_body(main))
    idx = {}
    for i, s in enumerate(st):
        if s.get("k") == "letst" and s["pat"].get("n") == "config":
            init = C.strip(s["init"])
            if (C.callee(init) or "").endswith("Default>::default") or (C.callee(init) or "").endswith("Config::default") or "default" in (C.callee(init) or ""):
                idx["default"] = i
        if mcalls_on(s, "read_file", "config"):
            idx.setdefault("read_file", i)
        if mcalls_on(s, "read_cli_settings", "config"):
            idx.setdefault("read_cli", i)
        for x in C.calls_in(s):
            if x.get("k") == "call" and (C.callee(x) or "").endswith("diplomat_tool::gen"):
                idx["gen"] = i
                idx["gen_cfg"] = any(y.get("k") == "local" and y.get("n") == "config" for a in x["a"] for y in C.walk(a))
    order_ok = all(k in idx for k in ("default", "read_file", "read_cli", "gen")) and idx["default"] < idx["read_file"] < idx["read_cli"] < idx["gen"] and idx.get("gen_cfg")
    ck.expect(order_ok, "R1", "main/file<cli<gen", str({k: v for k, v in idx.items()}), "main no longer applies Config::default -> read_file -> read_cli_settings -> gen(config) in that order: %s" % idx, C.loc(main))
    other_sets = [x for s in st for x in mcalls_on(s, "set", "config")]
    ck.expect(not other_sets, "R1", "main/no-extra-set", "", "main sets config keys directly", C.loc(main))

    # ---------------- R1 gen
    gen = tool.fn("diplomat_tool::gen")
    gs = block_stmts(C.fn_body(gen))
    i_scan = i_over = None
    over_arg = None
    new_cfg_id = None
    for i, s in enumerate(gs):
        if s.get("k") == "for" or C.strip(s).get("k") == "for":
            f = C.strip(s)
            sets = mcalls_on(f["body"], "set", "config")
            it_local = C.strip(f["iter"])
            if sets:
                i_scan = i
                # the iterated value must come from find_top_level_attr
                src_ok = any((C.callee(x) or "").endswith("config::find_top_level_attr") for x in C.calls_in(f["iter"]))
                # the iterator expression may be a chain over a local (`cfg.into_iter().flat_map(..)`): follow the locals it mentions
                for loc_ in [x for x in C.walk(f["iter"]) if x.get("k") == "local"]:
                    for t in gs[:i]:
                        if t.get("k") == "letst" and isinstance(t.get("pat"), dict) and t["pat"].get("n") == loc_["n"] and t.get("init") is not None:
                            src_ok = src_ok or any((C.callee(x) or "").endswith("config::find_top_level_attr") for x in C.calls_in(t["init"]))
                short = [x.get("m") for x in C.walk(f["iter"]) if x.get("k") == "mcall" and x.get("m") in ("take", "skip", "find", "filter", "next", "first", "last", "nth", "step_by", "rev")]
                src_ok = src_ok and not short
                ck.expect(src_ok, "R1", "gen/scan-source", "loop over find_top_level_attr(module.items)", "the #[diplomat::config] loop does not iterate the result of find_top_level_attr", C.loc(gen, f.get("ln")))
        if s.get("k") != "for":
            ov = mcalls_on(s, "get_overridden")
            if ov and i_over is None:
                i_over = i
                over_arg = C.strip(ov[0]["a"][0])
                if s.get("k") == "letst":
                    new_cfg_id = (s["pat"].get("n"), s["pat"].get("id"))
                else:
                    new_cfg_id = local_id(ov[0]["recv"])
                recv = C.strip(ov[0]["recv"])
                ck.expect(recv.get("k") == "local" and recv.get("n") == "config", "R1", "gen/override-receiver", "", "get_overridden is not applied to the accumulated config", C.loc(gen, s.get("ln")))
    ck.expect(i_scan is not None and i_over is not None and i_scan < i_over, "R1", "gen/scan<override", "source attributes applied before the per-language override",
              "gen applies the per-language override (statement %s) before the #[diplomat::config] scan (statement %s): language-scoped keys from the source are never applied" % (i_over, i_scan), C.loc(gen))
    if i_over is not None:
        late_sets = [x for s in gs[i_over + 1:] for x in C.walk(s) if x.get("k") == "mcall" and x.get("m") in ("set", "read_file", "read_cli_settings") and "onfig" in (x.get("rty") or "")]
        ck.expect(not late_sets, "R1", "gen/no-set-after-override", "", "config is modified after the override step", C.loc(gen))
        # target language passed is the (suffix-stripped) target
        ck.expect(over_arg.get("k") == "local" and over_arg.get("n") == "target_language", "R1", "gen/override-target", "", "get_overridden is called with %s" % over_arg, C.loc(gen))
        # consumers use the overridden config
        uses = 0
        stale = 0
        for s in gs[i_over + 1:]:
            for x in C.walk(s):
                if x.get("k") == "local" and x.get("n") == "config":
                    uses += 1
                    if x.get("id") != new_cfg_id[1]:
                        stale += 1
        ck.expect(uses >= 5 and stale == 0, "R1", "gen/consumers-use-overridden", "%d uses" % uses, "%d of %d later uses of `config` refer to the pre-override value" % (stale, uses), C.loc(gen))
        # nothing is decided from the configuration before every source has been applied: the only things done to `config` before the override step are applying sources
        # (set / get_overridden); a value read earlier (a flag computed "up front") only reflects config.toml and --config
        early_reads = []
        for s_ in gs[:i_over]:
            if (s_.get("k") == "for" or C.strip(s_).get("k") == "for") and mcalls_on(C.strip(s_)["body"], "set", "config"):
                continue
            for x in C.walk(s_):
                if x.get("k") == "field" and C.strip(x["e"]).get("k") == "local" and C.strip(x["e"]).get("n") == "config":
                    early_reads.append((x.get("n"), s_.get("ln") or x.get("ln")))
                if x.get("k") == "mcall" and x.get("m") not in ("set", "get_overridden", "clone") and C.strip(x["recv"]).get("k") == "local" and C.strip(x["recv"]).get("n") == "config":
                    early_reads.append((x.get("m"), x.get("ln")))
        ck.expect(not early_reads, "R1", "gen/no-read-before-all-sources", "", "gen reads %s from the configuration before the #[diplomat::config] attributes and the per-language override are applied: "
                  "what it decides there ignores the highest-precedence source" % sorted({r_[0] for r_ in early_reads}), C.loc(gen, early_reads[0][1] if early_reads else None))
        lc = [s for s in gs[i_over + 1:] if s.get("k") == "letst" and mcalls_on(s.get("init") or {}, "lowering_config")]
        ck.expect(len(lc) == 1, "R1", "gen/lowering-config-after-override", "", "lowering_config() is not derived after the override step", C.loc(gen))

    # every setter looks its key up as it was given: the `match key` / `key == ".."` tests are on the key PARAMETER, not on a rewritten copy (stripping a dotted
    # prefix would let `cpp.lib_name` -- a key of a backend that has no such option -- overwrite the shared value for every backend)
    for fsfx in ("config::SharedConfig::set", "config::Config::set"):
        sf_ = tool.fn(fsfx, optional=True)
        if sf_ is None:
            continue
        pids = {p_.get("id") for p_ in sf_["hir"].get("params", []) if isinstance(p_, dict)}
        shadow = [n_ for n_ in C.walk(C.fn_body(sf_)) if n_.get("k") == "letst" and isinstance(n_.get("pat"), dict) and n_["pat"].get("k") == "bind" and n_["pat"].get("n") == "key" and n_["pat"].get("id") not in pids]
        tests = [n_ for n_ in C.walk(C.fn_body(sf_)) if n_.get("k") == "match" and C.strip(n_["s"]).get("k") == "local" and C.strip(n_["s"]).get("n") == "key"]
        derived = [n_ for n_ in tests if C.strip(n_["s"]).get("id") not in pids]
        if fsfx.endswith("SharedConfig::set"):
            ck.expect(not shadow and not derived and bool(tests), "R3", "SharedConfig::set/key-as-given", "matches on the key parameter", "SharedConfig::set rewrites the key before looking it up (%s): a key scoped to "
                      "another prefix is taken for the shared key" % ("`let key = ..` shadows the parameter" if shadow else "the match is on a derived value"), C.loc(sf_))

    # ---------------- R2 setters
    setters = [("config::SharedConfig::set", ["lib_name", "unsafe_references_in_callbacks"]),
               ("kotlin::KotlinConfig::set", ["domain", "use_finalizers_not_cleaners"]),
               ("js::JsConfig::set", ["abi"]),
               ("demo_gen::DemoConfig::set", ["explicit_generation", "hide_default_renderer", "module_name", "relative_js_path"])]
    ncell = 0
    for path, expected_keys in setters:
        f = tool.fn(path)
        arms = key_arms(f)
        seen = set()
        for lit, body, ln in arms:
            seen.add(lit)
            ncell += 1
            assigned = {self_field_assign(x) for x in C.walk(body) if x.get("k") == "assign"} - {None}
            key = "%s/%s" % (path.split("::")[-2], lit)
            if assigned != {lit}:
                ck.bad("R2", key, "key `%s` stores into %s (expected the field of the same name)" % (lit, sorted(assigned) or "nothing"), C.loc(f, ln))
                continue
            conds = [x["c"] for x in C.walk(body) if x.get("k") == "if"] + [x["s"] for x in C.walk(body) if x.get("k") == "match"]
            reads_self = any(refs_self(c) for c in conds)
            total = always_assigns(body, lit)
            ck.expect(total and not reads_self, "R2", key, "always stores the incoming value",
                      "setter for `%s` is not last-write-wins: %s" % (lit, "a condition reads the current state" if reads_self else "some incoming values leave the previous value in place"), C.loc(f, ln))
            # the stored value derives from `value`
            # locals that carry (part of) the incoming value: `value` itself, bindings of patterns matched against it, lets initialised from it
            derived = {y.get("id") for y in C.walk(body) if y.get("k") == "local" and y.get("n") == "value"}
            for _ in range(3):
                for y in C.walk(body):
                    src_, pats_ = None, []
                    if y.get("k") == "match":
                        src_, pats_ = y["s"], [a_["pat"] for a_ in y["arms"]]
                    elif y.get("k") in ("let", "letst") and y.get("init") is not None:
                        src_, pats_ = y["init"], [y.get("pat")]
                    if src_ is not None and any(z.get("k") == "local" and z.get("id") in derived for z in C.walk(src_)):
                        for p_ in pats_:
                            derived |= set(C.pat_bind_ids(p_) or [])
            for x in C.walk(body):
                if x.get("k") == "assign" and self_field_assign(x) == lit:
                    r = x["r"]
                    from_value = any(y.get("k") == "local" and (y.get("n") == "value" or y.get("id") in derived) for y in C.walk(r))
                    is_const_variant = C.strip(r).get("k") == "def" and C.strip(r).get("dk", "").startswith("Ctor")
                    if not (from_value or is_const_variant):
                        ck.bad("R2", key + "/source", "stored value does not derive from the incoming `value`", C.loc(f, ln))
        missing = set(expected_keys) - seen
        ck.expect(not missing, "R2", path.split("::")[-2] + "/keys", str(sorted(seen)), "documented keys %s are no longer handled" % sorted(missing), C.loc(f))
    if ncell < 9:
        ck.bad("R2", "floor", "only %d setter cells found (9 counted)" % ncell)

    # ---------------- R3 Config::set routing and get_overridden
    cs = tool.fn("config::Config::set")
    prefixes = {}
    for n in C.walk(C.fn_body(cs)):
        if n.get("k") == "if":
            c = C.strip(n["c"])
            if c.get("k") == "mcall" and c.get("m") == "starts_with" and C.strip(c["recv"]).get("n") == "key":
                lit = C.strip(c["a"][0])
                if lit.get("k") == "lit":
                    prefixes[lit["v"]] = n
    for pre, node in sorted(prefixes.items()):
        t = node["t"]
        inner_if = [x for x in C.walk(t) if x.get("k") == "if" and any((C.callee(y) or "").endswith("SharedConfig::overrides_shared") for y in C.calls_in(x["c"]))]
        ok = len(inner_if) == 1
        detail = ""
        if ok:
            ii = inner_if[0]
            ins = [x for x in C.walk(ii["t"]) if x.get("k") == "mcall" and x.get("m") == "insert"]
            ok = len(ins) == 1 and any(y.get("k") == "field" and y.get("n") == "language_overrides" for y in C.walk(ins[0]["recv"])) and any(y.get("k") == "local" and y.get("n") == "key" for y in C.walk(ins[0]["a"][0]))
            detail = "shared keys -> language_overrides[key]"
            if ok and ii.get("e"):
                sets = [x for x in C.walk(ii["e"]) if x.get("k") == "mcall" and x.get("m") == "set"]
                if sets:
                    rep = C.str_lits(sets[0]["a"][0])
                    recv_field = [y.get("n") for y in C.walk(sets[0]["recv"]) if y.get("k") == "field"]
                    lang = pre.rstrip(".")
                    ok = rep[:1] == [pre] and any(lang in (rf or "") for rf in recv_field)
                    detail += "; others -> %s.set(key - %r)" % (recv_field, rep[:1])
        ck.expect(ok, "R3", "Config::set/" + pre, detail, "routing of `%s*` keys is not {shared -> override table under the full key; other -> that language's config with the `%s` prefix removed}" % (pre, pre), C.loc(cs, node.get("ln")))
    LANGS = {"kotlin.", "demo_gen.", "nanobind.", "js."}
    if set(prefixes) >= LANGS:
        ck.ok("R3", "Config::set/prefixes", str(sorted(prefixes)), C.loc(cs))
    else:
        # table-driven form (an enum of languages with a prefix table and a dispatch match): decide the same routing facts on everything reachable from Config::set
        inl = list(C.walk_inl(tool, C.fn_body(cs), 2, exclude=[cs["path"]], max_nodes=600))
        lits_dot = {x["v"] for x in inl if x.get("k") == "lit" and x.get("t") == "str" and str(x.get("v", "")).endswith(".")} | \
                   {l_ for x in inl if x.get("k") == "match" for l_ in C.pattern_str_lits(x) if l_.endswith(".")}
        norm = lambda s_: re.sub(r"[^a-z]", "", s_.lower())
        # variant -> prefix literal (a match whose arms return the prefix), variant -> config field (a match whose arms call <field>.set)
        v2pre, v2cfg = {}, {}
        for x in inl:
            if x.get("k") != "match":
                continue
            for arm in x["arms"]:
                v = (arm["pat"].get("v") or "").split("::")[-1]
                if not v:
                    continue
                b = C.strip(arm["b"])
                if b.get("k") == "lit" and str(b.get("v", "")).endswith("."):
                    v2pre[v] = b["v"]
                for y in C.walk(arm["b"]):
                    if y.get("k") == "mcall" and y.get("m") == "set":
                        flds = [z.get("n") for z in C.walk(y["recv"]) if z.get("k") == "field"]
                        raw_key = C.strip(y["a"][0]).get("k") == "local" and C.strip(y["a"][0]).get("n") == "key" if y.get("a") else False
                        if flds:
                            v2cfg[v] = (flds[0], raw_key)
        pair_ok = all(norm(pre) == norm(v) for v, pre in v2pre.items()) and all(norm(fld).startswith(norm(v)) and not raw for v, (fld, raw) in v2cfg.items())
        shared_route = any(y.get("k") == "mcall" and y.get("m") == "insert" and any(z.get("k") == "field" and z.get("n") == "language_overrides" for z in C.walk(y["recv"]))
                           and any(z.get("k") == "local" and z.get("n") == "key" for z in C.walk(y["a"][0])) for y in inl) and \
            any((C.callee(y) or "").endswith("SharedConfig::overrides_shared") for y in inl if y.get("k") in ("call", "mcall"))
        ck.expect(lits_dot >= LANGS and pair_ok and shared_route and set(v2pre.values()) >= LANGS and {"Kotlin", "DemoGen", "Js"} <= set(v2cfg), "R3", "Config::set/prefixes",
                  "table-driven: %s -> %s" % (v2pre, {k_: v_[0] for k_, v_ in v2cfg.items()}),
                  "language routing of Config::set could not be established: prefixes %s, variant->prefix %s, variant->config %s, shared keys -> override table: %s" % (sorted(lits_dot), v2pre, v2cfg, shared_route), C.loc(cs))
        known_loose = {pre.rstrip(".") for pre in v2pre.values()}
    # final else -> shared_config.set(key, value)
    shared_sets = [x for x in C.walk(C.fn_body(cs)) if x.get("k") == "mcall" and x.get("m") == "set" and any(y.get("k") == "field" and y.get("n") == "shared_config" for y in C.walk(x["recv"]))]
    ck.expect(len(shared_sets) == 1 and C.strip(shared_sets[0]["a"][0]).get("n") == "key", "R3", "Config::set/unscoped->shared", "", "unscoped keys are not stored into the shared config under their own name", C.loc(cs))
    # the keys a language prefix may override are exactly the keys the shared config understands (sibling tables: overrides_shared <-> SharedConfig::set)
    osf = tool.fn("config::SharedConfig::overrides_shared")
    os_keys = {l_ for l_ in C.str_lits(C.fn_body(osf)) + C.pattern_str_lits(C.fn_body(osf)) if re.fullmatch(r"[a-z_]{3,}", l_)}
    set_keys = {lit for lit, _, _ in key_arms(tool.fn("config::SharedConfig::set"))}
    ck.expect(os_keys == set_keys and len(set_keys) >= 2, "R3", "SharedConfig/overrides_shared-keys", str(sorted(os_keys)),
              "overrides_shared recognises %s while SharedConfig::set understands %s: a language-scoped `%s` never reaches the override table and is silently ignored" %
              (sorted(os_keys), sorted(set_keys), "kotlin." + (sorted(set_keys - os_keys) or ["?"])[0]), C.loc(osf))
    # a language-scoped override, once read from any source, stays until get_overridden applies it: the override table only grows (insert overwrites the same
    # scoped key with a later source's value; nothing a later source says about the *shared* key may take a scoped one away)
    shrink = []
    nins = 0
    for f_ in tool.fn_list:
        if "hir" not in f_ or f_.get("dk") == "Closure" and False:
            continue
        for x in C.walk(C.fn_body(f_)) if "hir" in f_ else []:
            if x.get("k") == "mcall" and any(y.get("k") == "field" and y.get("n") == "language_overrides" for y in C.walk(x["recv"])):
                if x.get("m") in ("retain", "remove", "remove_entry", "clear", "drain", "extract_if", "retain_mut", "take"):
                    shrink.append((f_, x))
                elif x.get("m") == "insert":
                    nins += 1
            if x.get("k") == "assign" and C.strip(x["l"]).get("k") == "field" and C.strip(x["l"]).get("n") == "language_overrides":
                shrink.append((f_, x))
    ck.expect(not shrink and nins >= 1, "R3", "language_overrides/only-grows", "%d inserts, nothing removes" % nins, "%s the language override table in %s: a `<lang>.<key>` read from a weaker source "
              "(config.toml, --config) is dropped when a later source sets the un-scoped key, so the scoped key no longer wins for that language" %
              ("`.%s(..)` shrinks" % shrink[0][1].get("m") if shrink and shrink[0][1].get("k") == "mcall" else "an assignment replaces", shrink[0][0]["name"] if shrink else "?"),
              C.loc(shrink[0][0], shrink[0][1].get("ln")) if shrink else None)
    go = tool.fn("config::Config::get_overridden")
    gb = C.fn_body(go)
    def is_prefix_fmt(m_):
        return m_.get("k") == "macro" and m_.get("name") == "format" and re.fullmatch(r"\{[\w.&*]+\}\.", C.macro_fmt_canon(m_) or "") is not None
    okf = any(is_prefix_fmt(n) for n in C.walk(gb))
    loops = [n for n in C.walk(gb) if n.get("k") == "for" and any(y.get("k") == "field" and y.get("n") == "language_overrides" for y in C.walk(n["iter"]))]
    okl = len(loops) == 1
    if okl:
        body = loops[0]["body"]
        ifs = [x for x in C.walk(body) if x.get("k") == "if"]
        # the local holding `format!("{}.", target)` (whatever it is called)
        pre_names = {n["pat"].get("n") for n in C.walk(gb) if n.get("k") == "letst" and isinstance(n.get("pat"), dict) and n.get("init") is not None and
                     any(is_prefix_fmt(m_) for m_ in C.walk(n["init"]))}

        def is_pre(e):
            e = C.strip(e)
            while isinstance(e, dict) and e.get("k") in ("addr", "deref") or (isinstance(e, dict) and e.get("k") == "mcall" and e.get("m") in ("as_str", "as_ref", "clone")):
                e = C.strip(list(C.children(e))[0]) if e.get("k") != "mcall" else C.strip(e["recv"])
            return isinstance(e, dict) and e.get("k") == "local" and e.get("n") in pre_names
        sets = [x for x in C.walk(body) if x.get("k") == "mcall" and x.get("m") == "set"]

        def guarded_by_prefix(sx):
            # the only condition on the path to the `set` is `key.starts_with(prefix)` holding (`if p {set}` or `if !p {continue}; set`)
            conds = [(a_, b_) for n_, st_ in C.with_conditions(body) if n_ is sx for k_, a_, b_ in st_ if k_ == "if"]
            if len(conds) != 1:
                return False
            c_, br = C.strip(conds[0][0]), conds[0][1]
            neg = False
            while isinstance(c_, dict) and c_.get("k") == "un" and c_.get("op") == "Not":
                neg = not neg
                c_ = C.strip(c_["e"])
            return isinstance(c_, dict) and c_.get("k") == "mcall" and c_.get("m") == "starts_with" and is_pre(c_["a"][0]) and ((br == "t") != neg)
        okl = len(sets) == 1 and guarded_by_prefix(sets[0]) and any(y.get("k") == "field" and y.get("n") == "shared_config" for y in C.walk(sets[0]["recv"])) and \
            any(y.get("k") == "mcall" and y.get("m") in ("replace", "replacen", "strip_prefix", "trim_start_matches") and is_pre(y["a"][0]) for y in C.walk(sets[0]["a"][0]))
    ck.expect(okf and okl, "R3", "get_overridden/filter", "applies overrides whose key starts with `<target>.`", "get_overridden no longer applies exactly the overrides prefixed with `<target>.` to the shared config", C.loc(go))
    # accepted target spellings vs prefixes
    import c13
    groups = []
    for d_ in c13.gen_dispatch(tool).values():     # the target names gen dispatches on (string-keyed arms, in gen or in the name -> backend table it calls)
        if d_["group"] not in groups and d_["run"]:
            groups.append(d_["group"])
    ck.expect(len(groups) >= 7, "R3", "gen/targets", str(groups), "cannot read the accepted target names from gen", C.loc(gen))
    known = {p.rstrip(".") for p in prefixes} if set(prefixes) >= LANGS else known_loose
    # aliases canonicalised before the override step: let target_language = if target_language == "<alias>" { "<canonical>" } else { .. }
    canon = {}
    for s in gs[: (i_over or 0)]:
        if s.get("k") == "letst" and s["pat"].get("n") == "target_language" and s.get("init"):
            for x in C.walk_inl(tool, s["init"], 1, exclude=[gen["path"]]):
                if x.get("k") == "if":
                    c = C.strip(x["c"])
                    if c.get("k") == "bin" and c.get("op") == "Eq":
                        sides = [C.strip(c["l"]), C.strip(c["r"])]
                        lit = [q for q in sides if q.get("k") == "lit"]
                        loc_ = [q for q in sides if q.get("k") == "local"]
                        tv = C.strip(x["t"])
                        if lit and loc_ and tv.get("k") == "lit":
                            canon[lit[0]["v"]] = tv["v"]
                if x.get("k") == "match" and C.strip(x["s"]).get("k") == "local":
                    for a in x["arms"]:
                        if a["pat"].get("k") == "lit" and C.strip(a["b"]).get("k") == "lit":
                            canon[a["pat"]["v"]] = C.strip(a["b"])["v"]
    for g in groups:
        if any(t in known for t in g):
            for t in g:
                ck.expect(t in known or canon.get(t) in known, "R3", "target-alias/" + t, "canonicalised to %s" % canon.get(t) if t in canon else "",
                          "target `%s` is accepted as an alias of %s, but only the `%s.` prefix is routed to the override table and get_overridden filters on `%s.`: `%s.lib_name` is silently ignored when the tool is run as `%s`"
                          % (t, [x for x in g if x != t], [x for x in g if x in known][0], t, [x for x in g if x in known][0], t), C.loc(gen))

    # ---------------- R4 snake-casing
    rf = tool.fn("config::Config::read_file")
    rb = C.fn_body(rf)
    sets = [x for x in C.walk(rb) if x.get("k") == "mcall" and x.get("m") == "set" and C.strip(x["recv"]).get("n") == "self"]
    ck.expect(len(sets) == 2, "R4", "read_file/set-sites", "%d" % len(sets), "expected two `self.set` sites (table entries and scalars), found %d" % len(sets), C.loc(rf))
    snake = {}
    for n in C.walk(rb):
        if n.get("k") == "letst" and n["pat"].get("k") == "bind" and n.get("init"):
            if any((C.callee(x) or "").endswith("AsSnakeCase") or (x.get("k") == "call" and "AsSnakeCase" in (x.get("ctor") or x.get("p") or "")) for x in C.walk(n["init"]) if x.get("k") in ("call",)):
                snake[n["pat"]["id"]] = n["pat"]["n"]
    # which bindings of the loop patterns are shadowed by a snake-cased local?  every name flowing to set must be a snake local
    for i, sx in enumerate(sets):
        names = sorted(set(C.free_locals(sx["a"][0])))
        if not names:
            # format!("{}.{}", key, subkey): args are inside the macro inner
            pass
        bad = [n for n, i_ in names if i_ not in snake]
        ck.expect(names and not bad, "R4", "read_file/set#%d-keys-snake" % i, str([n for n, _ in names]), "key parts %s reach `set` without snake_case conversion (kebab-case keys in config.toml would be dropped)" % bad, C.loc(rf, sx.get("ln")))
    # the snake conversion of the outer key must not be inside only one branch: it has to dominate the table branch
    for n in C.walk(rb):
        if n.get("k") == "for" and all(any(x is sx for x in C.walk(n["body"])) for sx in sets) and not any(
                y.get("k") == "for" and y is not n and all(any(x is sx for x in C.walk(y["body"])) for sx in sets) for y in C.walk(n["body"])):
            # the innermost loop that contains both `set` sites: the loop over the top-level table
            top = block_stmts(n["body"])
            first_snake = next((i for i, s in enumerate(top) if s.get("k") == "letst" and s["pat"].get("id") in snake), None)
            first_if = next((i for i, s in enumerate(top) if any(any(x is sx for x in C.walk(s)) for sx in sets)), None)   # the table / scalar branch (if-let or match)
            ck.expect(first_snake is not None and first_if is not None and first_snake < first_if, "R4", "read_file/outer-key-snake-before-branch", "",
                      "the outer key is not snake_cased before the table/scalar branch", C.loc(rf))

    # ---------------- R5 values from the CLI and from #[diplomat::config] are parsed as TOML values (so typed keys can be set from every source)
    ck.rule("R5", "values given on the command line and in #[diplomat::config] go through toml_value_from_str, which parses the text as the right-hand side of an assignment (a bare scalar is not a TOML document), falling back to a string")
    import flow
    tv = tool.fn("config::toml_value_from_str")
    defs = flow.defs_of(tv)
    parses = [x for x in C.calls_in(C.fn_body(tv)) if (C.callee(x) or "").endswith("toml::de::from_str") or (C.callee(x) or "").endswith("toml::from_str") or re.search(r"FromStr>::from_str$", C.callee(x) or "")]
    okp = bool(parses)
    detail = ""
    for x in parses:
        leaves = flow.trace(x["a"][0], defs)
        lits = [l[1] for l in leaves if l[0] == "lit"]
        as_value = any(re.search(r"=\s*\{", s) for s in lits) or "ValueDeserializer" in (C.callee(x) or "")
        detail = "parses %s" % (lits or sorted(leaves)[:2])
        okp = okp and as_value and any(l == ("param", "string") for l in leaves)
    ck.expect(okp, "R5", "toml_value_from_str/parses-a-value", detail, "toml_value_from_str hands the raw text to the TOML *document* parser (%s): `true`, `5` and quoted strings can never parse, so boolean keys cannot be set from the CLI or from #[diplomat::config]" % detail, C.loc(tv))
    fallback = any(x.get("k") == "call" and (x.get("ctor") or "").endswith("Value::String") for x in C.walk(C.fn_body(tv)))
    ck.expect(fallback, "R5", "toml_value_from_str/string-fallback", "", "unparseable text no longer falls back to a string value", C.loc(tv))
    rc = tool.fn("config::Config::read_cli_settings")
    ck.expect(any((C.callee(x) or "").endswith("toml_value_from_str") for x in C.calls_in(C.fn_body(rc))), "R5", "read_cli_settings/uses-value-parser", "", "CLI values are not parsed with toml_value_from_str", C.loc(rc))
    # the text handed to the value parser for a #[diplomat::config(key = <expr>)] is the expression's token text: a string literal keeps its quotes and therefore stays a string
    # (`kotlin.domain = "2024"` must not turn into the integer 2024, which the string-typed setters then ignore or reject)
    kvp = tool.fn("<diplomat_tool::config::DiplomatBackendConfigKeyValue as syn::parse::Parse>::parse")
    kv_nodes = [x for b_ in C.bodies_inl(tool, C.fn_body(kvp), depth=1, exclude=[kvp["path"]]) for x in C.walk(b_)]
    unq = [x for x in kv_nodes if x.get("k") == "mcall" and x.get("m") == "value" and "LitStr" in (x.get("rty") or x.get("p") or "")]
    tok = [x for x in kv_nodes if x.get("k") == "mcall" and x.get("m") == "to_token_stream"]
    ck.expect(bool(tok) and not unq, "R5", "config-attr/value-is-token-text", "value = expr.to_token_stream().to_string()",
              "the value of a #[diplomat::config] entry is taken from the string literal's contents (LitStr::value) before it is parsed as TOML: a quoted value that looks like a number, boolean or date "
              "loses its string type, so the source attribute -- the highest-precedence source -- is ignored by string-typed keys", C.loc(kvp))
    ck.expect(any((C.callee(x) or "").endswith("toml_value_from_str") for s_ in gs for x in C.calls_in(s_)), "R5", "gen/uses-value-parser", "", "#[diplomat::config] values are not parsed with toml_value_from_str", C.loc(gen))

    # ---------------- R6 the scan for #[diplomat::config] sees every attribute of every struct / impl / mod item
    ck.rule("R6", "find_top_level_attr collects ALL #[diplomat::config] attributes (stacked ones too) of struct, impl and mod items: no short-circuiting adaptor, break or early return in the scan")
    fta = tool.fn("config::find_top_level_attr")
    fb = C.fn_body(fta)
    SHORT = {"find", "find_map", "next", "first", "last", "nth", "take", "position", "any", "all", "take_while", "skip", "skip_while", "step_by", "rfind", "min", "max", "pop", "get"}
    short = sorted({n["m"] for n in C.walk(fb) if n.get("k") == "mcall" and n.get("m") in SHORT and "Iterator" in (n.get("p") or "") + (n.get("ip") or "") or
                    (n.get("k") == "mcall" and n.get("m") in ("first", "last", "get", "pop") and ("slice" in (n.get("p") or "") or "Vec" in (n.get("p") or "")))})
    brk = [n.get("k") for n in C.walk(fb) if n.get("k") in ("break", "ret")]
    ck.expect(not short and not brk, "R6", "find_top_level_attr/exhaustive-scan", "no short-circuit",
              "the #[diplomat::config] scan uses %s %s: only the first matching attribute of an item (or the first item) is applied, later stacked attributes silently lose to lower-precedence sources" % (short, brk), C.loc(fta))
    kinds = set()
    for n in [x for b_ in C.bodies_inl(tool, fb, depth=2, exclude=[fta["path"]]) for x in C.walk(b_)]:     # the scan and the helpers it delegates to
        if n.get("k") == "match":
            for arm in n["arms"]:
                v = (arm["pat"].get("v") or "")
                if v and not C.diverges(arm.get("b")) and not ((C.strip(arm["b"]).get("ctor") or C.strip(arm["b"]).get("p") or "").endswith("Option::None")):
                    kinds.add(v.split("::")[-1])
    ck.expect({"Struct", "Impl", "Mod"} <= kinds, "R6", "find_top_level_attr/item-kinds", str(sorted(kinds)), "config attributes are no longer read from struct, impl and mod items (got %s)" % sorted(kinds), C.loc(fta))
    # every source is consumed to the end: loops that feed `set` (directly or through read_* helpers) never leave early
    for fname in ("config::Config::read_cli_settings", "config::Config::read_file", "diplomat_tool::gen"):
        f_ = tool.fn(fname, optional=True)
        if f_ is None:
            ck.bad("R6", "%s/anchor" % fname, "function not found", None)
            continue
        for lp in C.enclosing_loops(C.fn_body(f_)):
            body_ = C.loop_body(lp)
            feeds = any(x.get("k") == "mcall" and x.get("m") == "set" for x in C.walk(body_))
            if not feeds:
                continue
            exits = [x.get("k") for x in C.walk(body_) if x.get("k") in ("break", "ret")]
            # `?` on a Result inside the loop is an error path (read_file's toml errors happen before the loop)
            short_ = [x.get("m") for x in C.walk(lp.get("iter") or {}) if x.get("k") == "mcall" and x.get("m") in SHORT]
            key_ = "%s/loop-runs-to-completion#%d" % (fname.split("::")[-1], sum(1 for i in ck.instances if i["rule"] == "R6" and i["key"].startswith(fname.split("::")[-1] + "/loop")))
            ck.expect(not exits and not short_, "R6", key_, "no early exit",
                      "the loop that applies one configuration source leaves early (%s %s): after one malformed or special entry the remaining entries of that source are silently dropped, "
                      "so a lower-precedence source wins for them" % (exits, short_), C.loc(f_, lp.get("ln")))

"""Tiny C declaration reader for the templates diplomat emits (struct / union / typedef / fn-pointer fields,
object-like macro expansion with ## pasting).  Enough for capi.h.jinja, runtime.h.jinja, impl.h.jinja."""
import re


def join_continuations(text):
    return re.sub(r"\\\n", " ", text)


def parse_macros(text):
    """#define NAME(a,b) body  -> {NAME: ([params], body)}"""
    text = join_continuations(text)
    macros = {}
    for m in re.finditer(r"^[ \t]*#define[ \t]+(\w+)\(([^)]*)\)[ \t]*(.*)$", text, re.M):
        macros[m.group(1)] = ([p.strip() for p in m.group(2).split(",")], m.group(3))
    return macros


def expand(text, macros, depth=0):
    """Expand function-like macro invocations (outside #define lines)."""
    text = join_continuations(text)
    lines = []
    for line in text.split("\n"):
        if re.match(r"\s*#define", line):
            continue
        lines.append(line)
    body = "\n".join(lines)
    for _ in range(6):
        changed = False
        for name, (params, mbody) in macros.items():
            def sub(m):
                nonlocal changed
                args = [a.strip() for a in m.group(1).split(",")]
                if len(args) != len(params):
                    return m.group(0)
                changed = True
                out = mbody
                for p, a in zip(params, args):
                    out = re.sub(r"\b%s\b" % re.escape(p), a, out)
                out = re.sub(r"\s*##\s*", "", out)
                return out
            body = re.sub(r"\b%s\(([^()]*)\)" % re.escape(name), sub, body)
        if not changed:
            break
    return body


def invocations(text, name):
    text = join_continuations(text)
    out = []
    for line in text.split("\n"):
        if re.match(r"\s*#define", line):
            continue
        for m in re.finditer(r"\b%s\(([^()]*)\)" % re.escape(name), line):
            out.append([a.strip() for a in m.group(1).split(",")])
    return out


def _split_fields(body):
    """Split a struct body at top-level semicolons."""
    out = []
    depth = 0
    cur = []
    for ch in body:
        if ch in "{(":
            depth += 1
        elif ch in "})":
            depth -= 1
        if ch == ";" and depth == 0:
            s = "".join(cur).strip()
            if s:
                out.append(s)
            cur = []
        else:
            cur.append(ch)
    s = "".join(cur).strip()
    if s:
        out.append(s)
    return out


def parse_fields(body):
    """-> list of fields: dict(name, kind, ctype, sub) ; kind in ptr|fnptr|scalar|union|struct|named"""
    fields = []
    for decl in _split_fields(body):
        d = decl.strip()
        m = re.match(r"^(union|struct)\s*(\w+)?\s*\{(.*)\}\s*(\w+)?$", d, re.S)
        if m:
            fields.append({"name": m.group(4) or "", "kind": m.group(1), "ctype": m.group(2) or "", "sub": parse_fields(m.group(3))})
            continue
        m = re.match(r"^(.*?)\(\s*\*\s*(\w+)\s*\)\s*\((.*)\)$", d, re.S)
        if m:
            fields.append({"name": m.group(2), "kind": "fnptr", "ctype": d, "ret": m.group(1).strip(), "params": m.group(3).strip()})
            continue
        m = re.match(r"^(.*?)(\w+)$", d, re.S)
        if not m:
            fields.append({"name": "?", "kind": "unknown", "ctype": d})
            continue
        ty = m.group(1).strip()
        name = m.group(2)
        if "*" in ty:
            fields.append({"name": name, "kind": "ptr", "ctype": ty, "const": bool(re.search(r"\bconst\b", ty)), "pointee": re.sub(r"\bconst\b|\*|\bstruct\b", "", ty).strip()})
        else:
            fields.append({"name": name, "kind": "named", "ctype": re.sub(r"\bstruct\b", "", ty).strip()})
    return fields


def parse_structs(text):
    """All `typedef struct X { ... } Y;` and `struct X { ... };` at any nesting of the (macro-expanded) text."""
    out = {}
    i = 0
    pat = re.compile(r"(typedef\s+)?struct\s+(\w+)\s*\{")
    while True:
        m = pat.search(text, i)
        if not m:
            break
        j = m.end()
        depth = 1
        while j < len(text) and depth:
            if text[j] == "{":
                depth += 1
            elif text[j] == "}":
                depth -= 1
            j += 1
        body = text[m.end():j - 1]
        tail = re.match(r"\s*(\w+)?\s*;", text[j:])
        name = (tail.group(1) if tail and tail.group(1) else m.group(2))
        out[name] = parse_fields(body)
        i = j
    return out


def shape(fields, ft_c):
    """Sequence of field kinds with scalar (kind,bits) resolved through the foreign type table."""
    out = []
    for f in fields:
        if f["kind"] == "ptr":
            out.append(("ptr", f.get("pointee"), f.get("const")))
        elif f["kind"] == "fnptr":
            out.append(("fnptr",))
        elif f["kind"] == "union":
            out.append(("union", tuple(x["name"] for x in f["sub"])))
        elif f["kind"] == "named":
            if f["ctype"] in ft_c:
                out.append(("scalar",) + tuple(ft_c[f["ctype"]]))
            else:
                out.append(("named", f["ctype"]))
        else:
            out.append((f["kind"],))
    return out

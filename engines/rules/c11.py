"""C11 — enum variants carry the rustc discriminant in every binding (structural clauses)."""
import re
import common as C
import tmpl


def is_local(n, name=None):
    n = C.strip(n)
    return isinstance(n, dict) and n.get("k") == "local" and (name is None or n.get("n") == name)


def is_int(n, v):
    n = C.strip(n)
    if isinstance(n, dict) and n.get("k") == "lit" and n.get("t") == "int":
        return n["v"] == v
    if isinstance(n, dict) and n.get("k") == "un" and n.get("op") == "Neg":
        i = C.strip(n["e"])
        return i.get("k") == "lit" and -i["v"] == v
    return False


def contiguity_pred(closure):
    """closure |(i, v)| i as isize == v.discriminant  -> True if exactly that comparison."""
    if closure.get("k") != "closure":
        return False, "not a closure"
    binds = []
    for p in closure["params"]:
        binds += C.pat_binds(p)
    body = C.strip(closure["body"])
    return eq_index_discr(body, binds)


def eq_index_discr(body, binds=None):
    if body.get("k") != "bin" or body.get("op") != "Eq":
        return False, "body is not an equality"
    sides = [C.strip(body["l"]), C.strip(body["r"])]
    idx = [s for s in sides if s.get("k") == "cast" and is_local(s["e"])]
    dis = [s for s in sides if s.get("k") == "field" and s.get("n") == "discriminant"]
    if len(idx) == 1 and len(dis) == 1:
        return True, "%s as %s == .discriminant" % (C.strip(idx[0]["e"])["n"], idx[0]["ty"])
    if len(dis) == 1:
        # discriminant cast to the index type is equally fine:  i == v.discriminant as usize
        other = [s for s in sides if s is not dis[0]][0]
        if is_local(other):
            return True, "index == .discriminant"
    return False, "compares %s" % [s.get("k") for s in sides]


def run(ck, facts):
    core, tool = facts.core, facts.tool
    ck.units += ["diplomat_core.lib+hir", "diplomat_tool.lib", "templates/*/enum*"]
    ck.rule("R1", "every emitter prints the stored discriminant inside its loop over variants (never the loop position) except under the contiguity flag")
    ck.rule("R2", "the three contiguity predicates compare the enumerate index with .discriminant for ALL variants")
    ck.rule("R3", "discriminant inference: counter starts at -1; value = explicit literal or counter+1; counter := value for every variant")
    ck.rule("R4", "AST -> HIR copies the discriminant unchanged; Kotlin stores it unchanged")
    ck.not_decided += ["non-literal discriminant expressions (the tool panics on them)", "values for concrete enums (behaviour)"]

    # ---------- R3
    f = core.fn("ast::enums::Enum::new")
    body = C.fn_body(f)
    counter = None
    for n in C.walk(body):
        if n.get("k") == "letst" and n["pat"].get("k") == "bind" and n.get("init") and is_int(n["init"], -1):
            counter = n["pat"]["n"]
            break
    ck.expect(counter is not None, "R3", "Enum::new/counter-init", "counter `%s` = -1" % counter, "no counter initialised to -1 found (implicit discriminants start at previous+1 with previous = -1)", C.loc(f))
    if counter:
        # closure over variants
        clos = None
        for n in C.walk(body):
            if n.get("k") == "mcall" and n.get("m") == "map" and any(x.get("k") == "field" and x.get("n") == "variants" for x in C.walk(n["recv"])):
                c = C.strip(n["a"][0])
                if c.get("k") == "closure":
                    clos = c
        if clos is None:
            for n in C.walk(body):
                if n.get("k") == "for" and any(x.get("k") == "field" and x.get("n") == "variants" for x in C.walk(n["iter"])):
                    clos = {"k": "closure", "params": [n["pat"]], "body": n["body"]}
        if clos is None:
            ck.bad("R3", "Enum::new/variant-loop", "loop over enm.variants not found", C.loc(f))
        else:
            cb = C.strip_keep_macro(clos["body"])
            stmts = (cb.get("s") or []) + ([cb["e"]] if cb.get("e") else []) if cb.get("k") == "block" else [cb]
            # the local that holds the variant's value
            val_local = None
            val_init = None
            for st in stmts:
                if st.get("k") == "letst" and st["pat"].get("k") == "bind" and st.get("init"):
                    uses_discr = any(x.get("k") == "field" and x.get("n") == "discriminant" for x in C.walk(st["init"]))
                    if uses_discr:
                        val_local = st["pat"]["n"]
                        val_init = st["init"]
            ck.expect(val_local is not None, "R3", "Enum::new/value-local", "value local `%s`" % val_local, "no local computed from v.discriminant found in the per-variant closure", C.loc(f))
            if val_local:
                # implicit alternative = counter + 1
                plus1 = []
                for x in C.walk(val_init):
                    if x.get("k") == "bin" and x.get("op") == "Add":
                        if (is_local(x["l"], counter) and is_int(x["r"], 1)) or (is_local(x["r"], counter) and is_int(x["l"], 1)):
                            plus1.append(x)
                    if x.get("k") == "mcall" and x.get("m") in ("checked_add", "wrapping_add", "saturating_add") and is_local(x["recv"], counter) and is_int(x["a"][0], 1):
                        plus1.append(x)
                ck.expect(len(plus1) == 1, "R3", "Enum::new/implicit=counter+1", "", "the implicit discriminant is not `%s + 1` (found %d such expressions)" % (counter, len(plus1)), C.loc(f))
                # it must be the None alternative: inside unwrap_or_else/unwrap_or/map_or(_else) argument or a None arm
                ok_alt = False
                for x in C.walk(val_init):
                    if x.get("k") == "mcall" and x.get("m") in ("unwrap_or_else", "unwrap_or"):
                        ok_alt = ok_alt or any(y in plus1 for y in C.walk(x["a"][0]))
                    if x.get("k") == "mcall" and x.get("m") in ("map_or", "map_or_else"):
                        ok_alt = ok_alt or any(y in plus1 for y in C.walk(x["a"][0]))
                    if x.get("k") == "match":
                        for arm in x["arms"]:
                            if arm["pat"].get("v") == "None" or arm["pat"].get("k") == "wild":
                                ok_alt = ok_alt or any(y in plus1 for y in C.walk(arm["b"]))
                    if x.get("k") == "if" and x.get("e"):
                        ok_alt = ok_alt or any(y in plus1 for y in C.walk(x["e"]))
                ck.expect(ok_alt, "R3", "Enum::new/implicit-is-the-None-case", "", "`counter + 1` is not the alternative taken when the variant has no explicit discriminant", C.loc(f))
                # ... and ONLY then: an explicit discriminant is parsed or refused, it never falls back to `counter + 1` (Some stays Some between
                # `v.discriminant` and the fallback combinator; the closure that parses it yields a number on every path that does not diverge)
                only_none = True
                why_ = ""
                for x in C.walk(val_init):
                    if x.get("k") == "mcall" and x.get("m") in ("unwrap_or_else", "unwrap_or", "map_or", "map_or_else") and any(y in plus1 for y in C.walk(x["a"][0])):
                        r_ = C.strip(x["recv"])
                        while isinstance(r_, dict) and r_.get("k") == "mcall":
                            if r_.get("m") not in ("as_ref", "as_mut", "as_deref", "map", "cloned", "copied", "clone", "iter", "next"):
                                only_none, why_ = False, "`.%s(..)` can turn an explicit discriminant into None" % r_.get("m")
                            for a_ in r_.get("a") or []:
                                for y in C.walk(a_):
                                    if (y.get("k") == "def" and (y.get("p") or "").endswith("option::Option::None")) or (
                                            y.get("k") == "mcall" and y.get("m") in ("ok", "unwrap_or", "unwrap_or_else", "unwrap_or_default", "and_then", "filter", "then", "then_some")):
                                        only_none, why_ = False, "the closure handling an explicit discriminant can give up (%s) instead of refusing it" % (y.get("m") or "None")
                            r_ = C.strip(r_["recv"])
                ck.expect(only_none, "R3", "Enum::new/explicit-never-falls-back", "", "an explicit discriminant that is not understood silently becomes `%s + 1`: %s -- the enumerator the backends print "
                          "differs from the value rustc gives the variant" % (counter, why_), C.loc(f))
                # explicit literal parsed as a whole expression (negatives)
                parses = C.callees_transitive(core, val_init)
                ck.expect(any(p.endswith("base10_parse") for p in parses) and any("parse2" in p or p.endswith("syn::parse") for p in parses), "R3", "Enum::new/explicit-literal", "syn::parse2 + base10_parse", "explicit discriminants are no longer parsed as a signed literal (calls: %s)" % [p.split("::")[-1] for p in parses], C.loc(f))
                # counter := value, unconditionally, top level of the closure
                assigns = [st for st in stmts if C.strip_keep_macro(st).get("k") == "assign" or (st.get("k") == "semi" and C.strip_keep_macro(st["e"]).get("k") == "assign")]
                okas = False
                for st in assigns:
                    a = st["e"] if st.get("k") == "semi" else st
                    if is_local(a["l"], counter) and is_local(a["r"], val_local):
                        okas = True
                all_assigns = [x for x in C.walk(clos["body"]) if x.get("k") in ("assign", "assignop") and is_local(x["l"], counter)]
                ck.expect(okas and len(all_assigns) == 1, "R3", "Enum::new/counter:=value", "%s = %s for every variant" % (counter, val_local),
                          "the running counter is not set to the variant's value unconditionally for every variant (%d assignments to `%s`, top-level `%s = %s`: %s): implicit discriminants after an explicit one drift from rustc's" % (len(all_assigns), counter, counter, val_local, okas), C.loc(f))
                # the tuple stores the value local
                stored = False
                last = stmts[-1] if stmts else None
                if last is not None:
                    t = C.strip(last)
                    if t.get("k") == "tup" and len(t["a"]) >= 2:
                        stored = is_local(t["a"][1], val_local)
                ck.expect(stored, "R3", "Enum::new/stored", "", "the value stored for the variant is not `%s`" % val_local, C.loc(f))

    # ---------- R4 HIR copy
    f = core.fn("hir::lowering::LoweringContext::lower_enum")
    okc = False
    for n in C.walk(C.fn_body(f)):
        if n.get("k") == "for" and any(x.get("k") == "field" and x.get("n") == "variants" for x in C.walk(n["iter"])):
            pat = n["pat"]
            names = []
            if pat.get("k") == "tuple":
                names = [(s.get("n") if s.get("k") == "bind" else None) for s in pat["sub"]]
            elif pat.get("k") == "ref" and pat["sub"].get("k") == "tuple":
                names = [(s.get("n") if s.get("k") == "bind" else None) for s in pat["sub"]["sub"]]
            for x in C.walk(n["body"]):
                if x.get("k") == "struct" and (x.get("adt") or "").endswith("EnumVariant"):
                    for fl in x["fields"]:
                        if fl["n"] == "discriminant":
                            e = C.strip(fl["e"])
                            okc = len(names) > 1 and is_local(e, names[1])
    ck.expect(okc, "R4", "lower_enum/discriminant-copy", "EnumVariant.discriminant = *discriminant (tuple position 1)", "lower_enum does not copy the AST discriminant (tuple position 1) into hir::EnumVariant.discriminant unchanged", C.loc(f))

    # ---------- R2 contiguity predicates
    g = tool.fn("js::gen::TyGenContext::gen_enum")
    found = 0
    for n in C.walk(C.fn_body(g)):
        if n.get("k") == "letst" and n["pat"].get("n") == "is_contiguous":
            c = C.strip(n["init"])
            ok = c.get("k") == "mcall" and c.get("m") == "all"
            detail = "not `.all(..)`"
            if ok:
                r = C.strip(c["recv"])
                chain = []
                while r.get("k") == "mcall":
                    chain.append(r["m"])
                    r = C.strip(r["recv"])
                ok = chain == ["enumerate", "iter"] and r.get("k") == "field" and r.get("n") == "variants"
                detail = "chain %s" % chain
                if ok:
                    ok, detail = contiguity_pred(C.strip(c["a"][0]))
            found += 1
            ck.expect(ok, "R2", "js::gen_enum/is_contiguous", detail, "JS contiguity flag is not `variants.iter().enumerate().all(|(i,v)| i as isize == v.discriminant)`: " + detail, C.loc(g, n.get("ln")))
    if not found:
        ck.bad("R2", "js::gen_enum/is_contiguous", "anchor `let is_contiguous` not found", C.loc(g))
    d = tool.fn("dart::is_contiguous_enum")
    c = C.strip(C.fn_body(d))
    ok = c.get("k") == "mcall" and c.get("m") == "all"
    detail = "not `.all(..)`"
    if ok:
        r = C.strip(c["recv"])
        chain = []
        while r.get("k") == "mcall":
            chain.append(r["m"])
            r = C.strip(r["recv"])
        ok = chain == ["enumerate", "iter"] and r.get("k") == "field" and r.get("n") == "variants"
        detail = "chain %s" % chain
        if ok:
            ok, detail = contiguity_pred(C.strip(c["a"][0]))
    ck.expect(ok, "R2", "dart::is_contiguous_enum", detail, "Dart contiguity predicate is not `all(|(i,v)| i as isize == v.discriminant)`: " + detail, C.loc(d))
    k = tool.fn("EnumVariants::new")
    kb = C.fn_body(k)
    fold = [n for n in C.walk(kb) if n.get("k") == "mcall" and n.get("m") == "fold"]
    okk = False
    detail = "no fold"
    if fold:
        clo = C.strip(fold[0]["a"][1])
        mt = [n for n in C.walk(clo["body"]) if n.get("k") == "match"]
        if mt:
            arms = mt[0]["arms"]
            guarded = [a for a in arms if a.get("g") and a["pat"].get("v") == "Contiguous"]
            rest = [a for a in arms if not a.get("g")]
            okg = len(guarded) == 1 and eq_index_discr(C.strip(guarded[0]["g"]))[0]
            # unguarded arms must store v.discriminant (cast) as index
            stores = []
            for a in rest:
                for x in C.walk(a["b"]):
                    if x.get("k") == "struct" and (x.get("adt") or "").endswith("NonContiguousEnumVariant"):
                        for fl in x["fields"]:
                            if fl["n"] == "index":
                                e = C.strip(fl["e"])
                                src = C.strip(e["e"]) if e.get("k") == "cast" else e
                                stores.append("discriminant" if (src.get("k") == "field" and src.get("n") == "discriminant") else ("position" if src.get("k") == "local" else "other"))
            okk = okg and stores.count("discriminant") == 2 and stores.count("other") == 0 and stores.count("position") == 1
            detail = "guard ok=%s, index sources=%s" % (okg, stores)
    ck.expect(okk, "R2", "kotlin::EnumVariants::new", detail, "Kotlin variant classification: contiguity guard must be `i as isize == v.discriminant`, non-contiguous entries must store v.discriminant (prefix entries their position): " + detail, C.loc(k))
    # dart: every use of `.index` / `.values[` conversions is guarded by the predicate
    dm = [f for f in tool.fn_list if f["path"].startswith("diplomat_tool::dart::") and f.get("dk") != "Closure" and "hir" in f]
    n_short = 0
    for f in dm:
        for n in C.walk(C.fn_body(f)):
            if n.get("k") != "match":
                continue
            for arm in n["arms"]:
                lits = C.str_lits(arm["b"])
                direct = " ".join(lits)
                if re.search(r"\.index\b|\.values\[", direct) or direct.strip() == "index":
                    pv = arm["pat"]
                    if not (pv.get("v") == "Enum" or any(a.get("v") == "Enum" for a in pv.get("alts", []))):
                        continue
                    n_short += 1
                    g = arm.get("g")
                    okg = bool(g) and any((C.callee(x) or "").endswith("is_contiguous_enum") for x in C.calls_in(g))
                    if not okg:
                        # one arm for all enums with the test inside it: every piece of text that uses the shortcut sits on the branch where the predicate holds
                        def is_pred(c_):
                            return any((C.callee(x) or "").endswith("is_contiguous_enum") for x in C.calls_in(c_)) or (c_.get("k") in ("call", "mcall") and (C.callee(c_) or "").endswith("is_contiguous_enum"))
                        uses = [(n_, st_) for n_, st_ in C.with_conditions(arm["b"]) if (n_.get("k") == "lit" and isinstance(n_.get("v"), str) and re.search(r"\.index\b|\.values\[", n_["v"])) or
                                (n_.get("k") == "macro" and re.search(r"\.index\b|\.values\[", n_.get("src") or ""))]
                        import flow as _fl11
                        okg = bool(uses) and all(C.asserted(st_, is_pred, dict(_fl11.defs_of(f))) for _, st_ in uses)
                    ck.expect(okg, "R1", "%s/enum-shortcut@%s" % (f["path"].split("::")[-1], direct[:24]), "guarded by is_contiguous_enum", "Dart uses the positional shortcut `%s` for an enum without the contiguity guard" % direct[:40], C.loc(f, arm.get("ln")))
    if n_short < 3:
        ck.bad("R1", "dart/shortcut-floor", "only %d guarded positional shortcuts found in the Dart backend (3 counted)" % n_short)

    # ---------- R1 templates
    def check_loop(rel, var_re, min_discr, allow_flag=None):
        toks = tmpl.load(rel, resolve_includes=False)
        blocks = list(tmpl.for_blocks(toks, var_re))
        if not blocks:
            ck.bad("R1", rel + "/variant-loop", "no loop over variants found", "tool/templates/" + rel)
            return
        nd = 0
        for var, expr, sub in blocks:
            v = var.strip()
            for kind, h in sub:
                if kind == "stmt" and re.search(r"\bloop\.(index0?|revindex0?)\b", h) and re.search(r"discriminant", h):
                    ck.bad("R1", rel + "/position-compared", "the variant loop decides what to print by comparing the stored discriminant with the loop position (`%s`): a value left out because it "
                           "equals the position is re-derived by the target language from the PREVIOUS enumerator, not from the position" % h[:70], "tool/templates/" + rel)
                if kind != "hole":
                    continue
                if re.search(r"\bloop\.(index0?|revindex0?)\b", h):
                    ck.bad("R1", rel + "/position-printed", "template prints the loop position `%s` inside the variant loop: wrong for enums with explicit discriminants" % h, "tool/templates/" + rel)
                if re.fullmatch(r"%s\.discriminant" % re.escape(v), h.strip()):
                    nd += 1
        ck.expect(nd >= min_discr, "R1", rel + "/prints-discriminant", "%d holes print <variant>.discriminant" % nd, "only %d holes print the stored discriminant in the variant loops (expected >= %d)" % (nd, min_discr), "tool/templates/" + rel)

    check_loop("c/enum.h.jinja", r"\bty\.variants\b", 1)
    check_loop("cpp/enum_decl.h.jinja", r"\bty\.variants\b", 1)
    check_loop("js/enum.js.jinja", r"\benum_def\.variants\b", 4)
    check_loop("dart/enum.dart.jinja", r"\bty\.variants\b", 1)
    # JS: a discriminant used as an object-literal key is a computed key (`[d]:`), since discriminants may be negative and `{ -3: x }` does not parse
    fl_js = tmpl.strip_stmts(tmpl.flat_file("js/enum.js.jinja", resolve_includes=False))
    keys_js = re.findall(r"(\[?)\s*⟦\s*\w+\.discriminant\s*⟧\s*(\]?)\s*:(?!:)", fl_js)
    ck.expect(len(keys_js) >= 1 and all(a_ == "[" and b_ == "]" for a_, b_ in keys_js), "R1", "js/enum.js.jinja/computed-discriminant-keys", "%d keys" % len(keys_js),
              "a discriminant is printed as a bare object-literal key (%s): `{ -3: .. }` is a syntax error, so the module of an enum with a negative discriminant cannot be loaded" % keys_js, "tool/templates/js/enum.js.jinja")
    # value assignment shape in C / C++: `NAME = {{v.discriminant}},`
    for rel in ("c/enum.h.jinja", "cpp/enum_decl.h.jinja"):
        fl = tmpl.flat_file(rel, resolve_includes=False)
        ck.expect(re.search(r"⟧\s*=\s*⟦\s*\w+\.discriminant\s*⟧\s*,", fl) is not None, "R1", rel + "/enumerator=value", "", "enumerators are not declared as `NAME = <discriminant>,`", "tool/templates/" + rel)
        # and no enumerator is declared without its value (C / C++ would number it previous + 1)
        bare = re.findall(r"⟦[^⟧]*(?:fmt_enum_variant|\.name)[^⟧]*⟧\s*,", tmpl.strip_stmts(fl))
        ck.expect(not bare, "R1", rel + "/no-bare-enumerator", "", "an enumerator is declared without `= <discriminant>` (%s): C/C++ give it the previous enumerator's value + 1, not the Rust discriminant" % (bare[0][:50] if bare else ""), "tool/templates/" + rel)
    # js: positional lookup only under is_contiguous
    toks = tmpl.load("js/enum.js.jinja", resolve_includes=False)
    depth_flag = []
    bad_pos = []
    for kind, v in toks:
        if kind == "stmt":
            if re.match(r"if\b", v):
                depth_flag.append("C" if re.search(r"(?<!!)\bis_contiguous\b", v) and not re.search(r"!\s*is_contiguous", v) else ("N" if "is_contiguous" in v else "?"))
            elif re.match(r"else\b", v) and depth_flag:
                depth_flag[-1] = {"C": "N", "N": "C"}.get(depth_flag[-1], "?")
            elif re.match(r"endif\b", v) and depth_flag:
                depth_flag.pop()
        elif kind == "text" and re.search(r"keys\(\)\]\s*\[\s*this\.#value\s*\]", v):
            if "C" not in depth_flag:
                bad_pos.append(v.strip()[:60])
    ck.expect(not bad_pos, "R1", "js/enum.js.jinja/positional-only-if-contiguous", "", "JS looks the variant name up by position outside `if is_contiguous`: %s" % bad_pos, "tool/templates/js/enum.js.jinja")
    # dart: _ffi getter exists under !is_contiguous
    fl = tmpl.flat_file("dart/enum.dart.jinja", resolve_includes=False)
    m = re.search(r"⟪\s*-?\s*if\s+!\s*is_contiguous\s*-?\s*⟫(.*?)⟪\s*-?\s*endif", fl, re.S)
    ck.expect(bool(m) and "int get _ffi" in m.group(1) and re.search(r"return\s*⟦\s*\w+\.discriminant\s*⟧", m.group(1)) is not None, "R1", "dart/enum.dart.jinja/_ffi-getter", "non-contiguous enums return the stored discriminant", "the Dart `_ffi` getter for non-contiguous enums no longer returns the stored discriminant", "tool/templates/dart/enum.dart.jinja")
    # kotlin: NonContiguous arm prints variant.index, Contiguous uses ordinal/entries
    fl = tmpl.flat_file("kotlin/Enum.kt.jinja", resolve_includes=False)
    parts = re.split(r"⟪\s*-?\s*when\s+EnumVariants::(NonContiguous|Contiguous)[^⟫]*⟫", fl)
    seen = {"NonContiguous": [], "Contiguous": []}
    for i in range(1, len(parts) - 1, 2):
        seen[parts[i]].append(parts[i + 1].split("⟪- endmatch")[0].split("⟪-endmatch")[0])
    okk = len(seen["NonContiguous"]) == 2 and len(seen["Contiguous"]) == 2
    if okk:
        nc = "".join(seen["NonContiguous"])
        co = "".join(seen["Contiguous"])
        okk = nc.count("⟦variant.index⟧") >= 2 and "this.inner" in nc and "ordinal" not in nc and ".entries[" not in nc and ("ordinal" in co and ".entries[native]" in co)
    ck.expect(okk, "R1", "kotlin/Enum.kt.jinja/arms", "NonContiguous prints variant.index, Contiguous uses ordinal", "Kotlin enum template: positional (ordinal/entries) code must only appear in the Contiguous arm and the NonContiguous arm must print variant.index", "tool/templates/kotlin/Enum.kt.jinja")
    # nanobind: by name only
    fl = tmpl.flat_file("nanobind/enum_impl.cpp.jinja", resolve_includes=False)
    ck.expect(re.search(r"\.value\(\s*\"⟦\s*(\w+)\s*⟧\"\s*,\s*⟦\s*type_name\s*⟧::⟦\s*\1\s*⟧\s*\)", fl) is not None and "discriminant" not in fl and "loop.index" not in fl, "R1", "nanobind/enum_impl/by-name", "", "nanobind enum registration no longer maps names to the C++ enumerators by name", "tool/templates/nanobind/enum_impl.cpp.jinja")
    # cpp FromFFI: cases are the C enumerators, by name
    fl = tmpl.flat_file("cpp/enum_impl.h.jinja", resolve_includes=False)
    m_case = re.search(r"case\s*⟦\s*fmt\.fmt_c_enum_variant\(ctype,\s*\w+\)\s*⟧\s*:", fl)
    # ... for every enum: the per-variant switch is not one of two alternatives chosen by a template condition (a shortcut that skips it has to restate,
    # for each shape it covers, that the accepted values are exactly the variants')
    m_from = fl.find("::FromFFI(")
    m_end = fl.find("\n}", m_from) if m_from >= 0 else -1
    conds_in_fromffi = re.findall(r"⟪\s*(?:if|elif|else)\b[^⟫]*⟫", fl[m_from:m_end]) if m_from >= 0 else ["?"]
    ck.expect(m_case is not None and not conds_in_fromffi, "R1", "cpp/enum_impl/FromFFI-switch-unconditional", "", "C++ FromFFI validates the incoming value by a per-variant switch only under a template "
              "condition (%s): for the other enums a value is accepted by a range test, which is the variants' set only when they are 0..N-1" % conds_in_fromffi[:2], "tool/templates/cpp/enum_impl.h.jinja")
    ck.expect(m_case is not None and "static_cast<⟦type_name⟧::Value>(c_enum)" in fl, "R1", "cpp/enum_impl/FromFFI", "", "C++ FromFFI no longer switches over the C enumerators and casts the same value", "tool/templates/cpp/enum_impl.h.jinja")
    # js runtime: enum discriminants are read as signed 32-bit integers (negative discriminants)
    rtm = C.read_repo("tool/templates/js/runtime.mjs")
    m = re.search(r"export\s+function\s+enumDiscriminant\s*\(\s*wasm\s*,\s*ptr\s*\)\s*\{(.*?)\n\}", rtm, re.S)
    body = re.sub(r"//[^\n]*", "", m.group(1)) if m else ""
    ck.expect(bool(m) and re.search(r"return\s*\(?\s*new\s+Int32Array\s*\(\s*wasm\.memory\.buffer\s*,\s*ptr\s*,\s*1\s*\)\s*\)?\s*\[\s*0\s*\]", body) is not None, "R1", "js/runtime.mjs/enumDiscriminant-signed",
              "Int32Array read", "enumDiscriminant no longer reads a signed 32-bit value (`%s`): negative discriminants map to no variant" % body.strip()[:80], "tool/templates/js/runtime.mjs")
    # the generator that reads an enum out of memory must use that signed reader
    import c08
    c08.js_deref_rules(ck, "R1", facts, enum_only=True)
    # Kotlin: positional conversions live only in the template's Contiguous arm; the generator's own literals convert enums with toNative()/fromNative()
    kfns = [f for f in tool.fn_list if f["path"].startswith("diplomat_tool::kotlin::") and "hir" in f and f.get("dk") != "Closure" and not f.get("exp") and "render_into" not in f["path"]]
    pos_lits = []
    n_native = 0
    for f in kfns:
        for x in C.walk(C.fn_body(f)):
            txt = x.get("v") if x.get("k") == "lit" and x.get("t") == "str" else (x.get("src") if x.get("k") == "macro" and x.get("name") in ("format", "write", "writeln") else None)
            if not txt:
                continue
            if re.search(r"\.ordinal\b|\.entries\s*\[|\.values\(\)\s*\[", txt):
                pos_lits.append((C.norm_path(f["path"]).split("::")[-1], txt[:50]))
            if "toNative()" in txt or "fromNative(" in txt:
                n_native += 1
    ck.expect(not pos_lits and n_native >= 3, "R1", "kotlin/no-positional-conversion-in-generator", "%d toNative/fromNative literals, no .ordinal/.entries[]" % n_native,
              "the Kotlin generator converts an enum by position (%s): for an enum with explicit discriminants Rust receives/returns the wrong variant" % pos_lits[:3], None)
    # JS: in the non-contiguous branch the variant is found by comparing the stored discriminant, never by position in a derived array
    toks = tmpl.load("js/enum.js.jinja", resolve_includes=False)
    flags = []
    bad_js = []
    for kind, v in toks:
        if kind == "stmt":
            if re.match(r"if\b", v):
                flags.append("C" if re.search(r"(?<!!)\bis_contiguous\b", v) and not re.search(r"!\s*is_contiguous", v) else ("N" if "is_contiguous" in v else "?"))
            elif re.match(r"else\b", v) and flags:
                flags[-1] = {"C": "N", "N": "C"}.get(flags[-1], "?")
            elif re.match(r"endif\b", v) and flags:
                flags.pop()
        elif kind == "text" and "N" in flags and "C" not in flags:
            if re.search(r"Object\.(values|keys|entries)\([^)]*\)\s*(\.indexOf|\[)|\.keys\(\)\s*\]\s*\[|\.indexOf\(", v):
                bad_js.append(v.strip()[:70])
    ck.expect(not bad_js, "R1", "js/enum.js.jinja/non-contiguous-by-value", "", "the non-contiguous branch of the JS enum looks a variant up by its position in a derived array (%s): "
              "JS orders integer-like keys numerically, so positions and discriminants disagree" % bad_js[:2], "tool/templates/js/enum.js.jinja")
    # Kotlin: the number a variant is emitted with is its own: the stored discriminant of that variant, or -- for the contiguous prefix, where they coincide -- the
    # position enumerated together with the variant's name (same closure / pattern), never an index taken from an enclosing scope
    nk = 0
    for f in tool.fn_list:
        if "hir" not in f or not f["path"].startswith("diplomat_tool::kotlin::"):
            continue
        binders = {}
        for x in C.walk(C.fn_body(f)):
            if x.get("k") == "closure":
                for p_ in x.get("params", []):
                    for bid in C.pat_bind_ids(p_):
                        binders[bid] = id(x)
            elif x.get("k") == "for":
                for bid in C.pat_bind_ids(x.get("pat")):
                    binders[bid] = id(x)
            elif x.get("k") == "match":
                for a_ in x["arms"]:
                    for bid in C.pat_bind_ids(a_["pat"]):
                        binders[bid] = id(a_)
        for x in C.walk(C.fn_body(f)):
            if x.get("k") == "struct" and (x.get("adt") or "").endswith("NonContiguousEnumVariant"):
                flds = {fl["n"]: fl["e"] for fl in x["fields"]}
                if "index" not in flds or "name" not in flds:
                    continue
                nk += 1
                from_discr = any(y.get("k") == "field" and y.get("n") == "discriminant" for y in C.walk(flds["index"]))
                idx_ids = {y.get("id") for y in C.walk(flds["index"]) if y.get("k") == "local"}
                nm_ids = {y.get("id") for y in C.walk(flds["name"]) if y.get("k") == "local"}
                same_binder = bool(idx_ids) and bool(nm_ids) and {binders.get(i_) for i_ in idx_ids} == {binders.get(i_) for i_ in nm_ids} and None not in {binders.get(i_) for i_ in idx_ids}
                ck.expect(from_discr or same_binder, "R1", "kotlin::%s/variant-number#%d" % (f["name"], nk), "discriminant of the variant / position enumerated with its name",
                          "a Kotlin enum variant is numbered with a value that belongs neither to it (its `.discriminant`) nor to its own position (an index bound with its name): when an enum "
                          "stops being contiguous its earlier variants all get the same, wrong number", C.loc(f, x.get("ln")))
    if nk < 3:
        ck.bad("R1", "kotlin/variant-number-floor", "only %d NonContiguousEnumVariant constructions found (3 counted)" % nk)
    # Dart passes enums as signed 32-bit integers (negative discriminants come back sign-extended; rule of C07.R4)
    import c07
    c07.run(C.SubCheck(ck, "R4", "", ["R4"], key_re=r"fmt_enum_as_ffi"), facts)

"""C13 — backend-conditional attributes apply exactly where their condition holds (structural clauses)."""
import re
import common as C
import tables as T

CFG = "diplomat_core::ast::attrs::DiplomatBackendAttrCfg"


def is_call_to(n, suffix):
    n = C.strip(n)
    return isinstance(n, dict) and n.get("k") in ("call", "mcall") and (C.callee(n) or "").endswith(suffix)


def peel_try(n):
    n = C.strip(n)
    while isinstance(n, dict) and n.get("k") == "try":
        n = C.strip(n["e"])
    return n


def ok_payload(n):
    """x of `Ok(x)` (the evaluator may wrap each arm's value, or the whole match, in Ok); n itself otherwise"""
    n = C.strip(n)
    while isinstance(n, dict) and n.get("k") == "block" and not n.get("s") and n.get("e") is not None:
        n = C.strip(n["e"])
    if isinstance(n, dict) and n.get("k") == "call" and (n.get("ctor") or "").endswith("result::Result::Ok") and len(n.get("a") or []) == 1:
        return C.strip(n["a"][0])
    return n


def lit_bool(n):
    n = ok_payload(n)
    return n["v"] if isinstance(n, dict) and n.get("k") == "lit" and n.get("t") == "bool" else None


def returns_ok_bool(n):
    """`return Ok(<bool lit>)` -> bool"""
    n = C.strip(n)
    if isinstance(n, dict) and n.get("k") == "block":
        items = (n.get("s") or []) + ([n["e"]] if n.get("e") else [])
        if len(items) == 1:
            return returns_ok_bool(items[0])
        return None
    if isinstance(n, dict) and n.get("k") == "ret" and n.get("e"):
        e = C.strip(n["e"])
        if e.get("k") == "call" and (e.get("ctor") or "").endswith("Result::Ok"):
            return lit_bool(e["a"][0])
    return None


def block_items(n):
    n = C.strip_keep_macro(n)
    if isinstance(n, dict) and n.get("k") == "block":
        return (n.get("s") or []) + ([n["e"]] if n.get("e") else [])
    return [n]


def gen_dispatch(tool):
    """How diplomat_tool::gen routes a target name: {name: {"group": [spellings of the same arm], "support": {modules}, "run": {modules}, "extra": [other backend names]}}.
    Read from the dispatch tables of gen and the helpers it calls: matches whose arms are keyed by string literals (target names) or by the variants of a private
    backend enum (a name -> variant table plus variant-keyed tables compose)."""
    gen = tool.fn("diplomat_tool::gen")
    bodies = C.bodies_inl(tool, C.fn_body(gen), depth=2, exclude=[gen["path"]], max_nodes=3000)
    name_groups, name2var = [], {}
    by_key = {}      # key ("lit", name) | ("var", Variant) -> {"support": set, "run": set, "extra": list}

    def pat_keys(p):
        out = []
        for q in (p.get("alts") if p.get("k") == "or" else [p]) or []:
            while isinstance(q, dict) and q.get("k") == "ref":
                q = q["sub"]
            if q.get("k") == "lit" and q.get("t") == "str":
                out.append(("lit", q["v"]))
            elif q.get("k") == "variant" and q.get("enum") and (q.get("adt") or "").startswith("diplomat_tool::"):
                out.append(("var", q["v"]))
        return out

    def effects(body):
        e = {"support": set(), "run": set(), "extra": [], "vars": set()}
        for x in C.walk(body):
            if x.get("k") in ("call", "mcall"):
                mm = re.match(r"^diplomat_tool::(\w+)::(attr_support|run)$", C.callee(x) or "")
                if mm:
                    e["support" if mm.group(2) == "attr_support" else "run"].add(mm.group(1))
            if x.get("k") == "assign" and any(y.get("k") == "field" and y.get("n") == "other_backend_names" for y in C.walk(list(C.children(x))[0])):
                e["extra"] += sorted(set(C.str_lits(list(C.children(x))[1])))
            if x.get("k") in ("def", "call") and (x.get("ctor") or "").startswith("diplomat_tool::") and x.get("k") == "def":
                e["vars"].add(x["ctor"].split("::")[-1])
        return e
    for b_ in bodies:
        for n, st in C.with_conditions(b_):
            arms = []
            if n.get("k") == "match":
                arms = [(pat_keys(a["pat"]), a["b"]) for a in n["arms"]]
            elif n.get("k") == "if":
                c_ = C.strip_keep_macro(n["c"])
                if isinstance(c_, dict) and c_.get("k") == "let":
                    arms = [(pat_keys(c_["pat"]), n["t"])]
            for keys, body in arms:
                if not keys:
                    continue
                e = effects(body)
                lits = [v for k, v in keys if k == "lit"]
                if lits and len(lits) == len(keys) and (e["support"] or e["run"] or e["vars"] or e["extra"]):
                    if lits not in name_groups:
                        name_groups.append(lits)
                    if len(e["vars"]) == 1:
                        for l_ in lits:
                            name2var[l_] = next(iter(e["vars"]))
                for k_ in keys:
                    d = by_key.setdefault(k_, {"support": set(), "run": set(), "extra": []})
                    d["support"] |= e["support"]
                    d["run"] |= e["run"]
                    d["extra"] += [x for x in e["extra"] if x not in d["extra"]]
    out = {}
    for grp in name_groups:
        for nm in grp:
            d = {"group": grp, "support": set(), "run": set(), "extra": []}
            for k_ in [("lit", nm)] + ([("var", name2var[nm])] if nm in name2var else []):
                e = by_key.get(k_, {})
                d["support"] |= e.get("support", set())
                d["run"] |= e.get("run", set())
                d["extra"] += [x for x in e.get("extra", []) if x not in d["extra"]]
            if d["support"] or d["run"]:      # other string-keyed tables (ABI names, ...) route nothing to a backend
                out[nm] = d
    return out


AST_ATTRS_T = "ast::attrs::Attrs"


def run(ck, facts):
    core, tool, mac = facts.core, facts.tool, facts.macro
    adts = facts.all_adts()
    ck.units += ["diplomat_core.lib+hir", "diplomat_core.lib (as compiled for the macro)", "diplomat.lib", "diplomat_tool.lib"]
    ck.rule("R1", "condition evaluator: one arm per formula constructor with the documented meaning (not = negation, any = first true else false, all = first false else true, * = true, name = is_backend, k=v = is_name_value); is_backend is equality with the primary or an extra name", exhaustive=True)
    ck.rule("R2", "`supports = x` answers with the support flag of the same name; gen() pairs each target's attr_support() with the same backend's run()", exhaustive=True)
    ck.rule("R3", "condition parser maps the keywords not/any/all/auto, `*`, `k = v` and bare names to the constructors the evaluator interprets")
    ck.rule("R4", "disable is honoured: disabled methods are skipped during lowering; every backend loop over types/traits tests `disable` before generating")
    ck.rule("R5", "the proc macro never consults backend-conditional attributes (the Rust library exports the function regardless)")
    ck.rule("R6", "inheritance: disable inherits everywhere except to variants; every type lowerer takes the type-parent attrs, every method list the method-parent attrs")
    ck.rule("R8", "inherited attribute lists only grow on the way down (no retain/remove/filter on ast::Attrs in core::ast: an item's own attribute never hides the same-named attribute of its "
                  "parent, whose condition may differ); a backend answers only to its own name, except the triaged extra names (demo_gen also answers to `js`)")
    ck.rule("R7", "attribute evaluation of one item is independent of its siblings: inherited-attribute accumulators (ast::Attrs) and the `auto` flag are "
                  "re-created per item (never loop-carried), and nothing happens for a method before its `disable` test except attribute evaluation")
    ck.not_decided += ["byte-identity of other backends' output (behaviour; follows from R1-R4 and C14)"]

    # ---------------- R1
    sc = core.fn("hir::attrs::AttributeValidator::satisfies_cfg")
    ms = T.find_matches(sc, "ast::attrs::DiplomatBackendAttrCfg")
    if not ms:
        raise C.CheckError("satisfies_cfg: no match on DiplomatBackendAttrCfg")
    m = ms[0]
    table = C.decision_table(m, adts)
    by_variant = {}
    for v, hits in table:
        arm = next((i for i, cond in hits if not cond), None)
        by_variant[v.variant] = arm
    expected = {"Not", "Any", "All", "Auto", "Star", "BackendName", "NameValue"}
    ck.expect(set(by_variant) == expected and all(a is not None for a in by_variant.values()), "R1", "satisfies_cfg/coverage", str(sorted(by_variant)), "formula constructors handled: %s (expected %s)" % (sorted(by_variant), sorted(expected)), C.loc(sc))

    def arm_of(v):
        i = by_variant.get(v)
        return m["arms"][i] if i is not None else None

    def binds(arm):
        return C.pat_binds(arm["pat"])

    def rec_call(n, first_arg_name=None):
        n = peel_try(n)
        if not (isinstance(n, dict) and n.get("k") == "mcall" and n.get("m") == "satisfies_cfg"):
            return False
        if first_arg_name is not None:
            a0 = C.strip(n["a"][0])
            return a0.get("k") == "local" and a0.get("n") == first_arg_name
        return True

    a = arm_of("Not")
    if a:
        b = ok_payload(a["b"])
        ok = b.get("k") == "un" and b.get("op") == "Not" and rec_call(b["e"], binds(a)[0] if binds(a) else None)
        ck.expect(ok, "R1", "satisfies_cfg/Not", "!satisfies_cfg(c)", "`not(c)` is not evaluated as the negation of c", C.loc(sc, a.get("ln")))
    for name, cond_neg, ret_val, tail_val in (("Any", False, True, False), ("All", True, False, True)):
        a = arm_of(name)
        if not a:
            continue
        items = block_items(a["b"])
        loops = [x for x in items if C.strip(x).get("k") == "for"]
        ok = len(loops) == 1 and len(items) >= 2
        detail = ""
        if ok:
            lp = C.strip(loops[0])
            it = C.strip(lp["iter"])
            ok = it.get("k") == "local" and it.get("n") in binds(a)
            lv = C.pat_binds(lp["pat"])
            body_items = block_items(lp["body"])
            ifs = [C.strip(x) for x in body_items if C.strip(x).get("k") == "if"]
            ok = ok and len(ifs) == 1 and len(body_items) == 1
            if ok:
                c = C.strip(ifs[0]["c"])
                neg = False
                if c.get("k") == "un" and c.get("op") == "Not":
                    neg = True
                    c = c["e"]
                ok = rec_call(c, lv[0] if lv else None) and neg == cond_neg and returns_ok_bool(ifs[0]["t"]) == ret_val and not ifs[0].get("e")
                detail = "if %ssatisfies(c) return Ok(%s)" % ("!" if neg else "", returns_ok_bool(ifs[0]["t"]))
            tail = lit_bool(items[-1])
            ok = ok and tail == tail_val and items[-1] is not loops[0]
            detail += "; after loop: %s" % tail
        ck.expect(ok, "R1", "satisfies_cfg/" + name, detail, "`%s(..)` is not evaluated as %s: %s" % (name.lower(), "first-true-else-false" if name == "Any" else "first-false-else-true", detail), C.loc(sc, a.get("ln")))
    a = arm_of("Star")
    if a:
        ck.expect(lit_bool(a["b"]) is True, "R1", "satisfies_cfg/Star", "true", "`*` does not evaluate to true", C.loc(sc, a.get("ln")))
    a = arm_of("BackendName")
    if a:
        b = peel_try(ok_payload(a["b"]))
        ok = b.get("k") == "mcall" and b.get("m") == "is_backend" and C.strip(b["a"][0]).get("n") in binds(a)
        ck.expect(ok, "R1", "satisfies_cfg/BackendName", "is_backend(n)", "a bare backend name is not evaluated by is_backend(name)", C.loc(sc, a.get("ln")))
    a = arm_of("NameValue")
    if a:
        b = peel_try(a["b"])
        bs = binds(a)
        ok = b.get("k") == "mcall" and b.get("m") == "is_name_value" and len(bs) == 2 and [C.strip(x).get("n") for x in b["a"]] == bs
        ck.expect(ok, "R1", "satisfies_cfg/NameValue", "is_name_value(n, v)", "`k = v` is not evaluated by is_name_value(k, v) in that order", C.loc(sc, a.get("ln")))
    a = arm_of("Auto")
    if a:
        b = C.strip_keep_macro(a["b"])
        param_ids = {p_.get("id") for p_ in sc["hir"].get("params", []) if isinstance(p_, dict)}
        # the one test of the `Option<&mut bool>` parameter: `if let Some(f) = p {..} else {..}` or `let Some(f) = p else {..}; ..`
        tests = []
        for x in C.walk(b):
            if x.get("k") == "if":
                c = C.strip(x["c"])
                if c.get("k") == "let" and c["pat"].get("v") == "Some" and C.strip(c["init"]).get("k") == "local" and C.strip(c["init"]).get("id") in param_ids:
                    tests.append((x["t"], x.get("e")))
            elif x.get("k") == "match" and C.strip(x["s"]).get("k") == "local" and C.strip(x["s"]).get("id") in param_ids:
                some_a = next((a_ for a_ in x["arms"] if a_["pat"].get("v") == "Some"), None)
                none_a = next((a_ for a_ in x["arms"] if a_["pat"].get("v") == "None" or a_["pat"].get("k") == "wild"), None)
                if some_a and none_a:
                    sb = C.strip(some_a["b"])
                    tests.append((sb if sb.get("k") == "block" else {"k": "block", "s": [], "e": sb}, none_a["b"]))
            elif x.get("k") == "block":
                for i_, s_ in enumerate(x.get("s") or []):
                    if s_.get("k") == "letst" and s_.get("els") is not None and isinstance(s_.get("pat"), dict) and s_["pat"].get("v") == "Some" and \
                            C.strip(s_.get("init") or {}).get("k") == "local" and C.strip(s_["init"]).get("id") in param_ids:
                        tests.append(({"k": "block", "s": x["s"][i_ + 1:], "e": x.get("e")}, s_["els"]))
        ok = len(tests) == 1
        if ok:
            some_r, none_r = tests[0]
            sets_flag = any(x.get("k") == "assign" and lit_bool(x["r"]) is True for x in C.walk(some_r))
            ret_true = any(returns_ok_bool(x) is True for x in C.walk(some_r) if x.get("k") == "ret") or lit_bool(some_r.get("e") or {}) is True
            else_err = none_r is not None and any(x.get("k") == "call" and (x.get("ctor") or "").endswith("Result::Err") for x in C.walk(none_r))
            ok = sets_flag and ret_true and else_err
        ck.expect(ok, "R1", "satisfies_cfg/Auto", "true only where auto is allowed, else an error", "`auto` handling changed", C.loc(sc, a.get("ln")))
    ib = core.fn("<diplomat_core::hir::attrs::BasicAttributeValidator as diplomat_core::hir::attrs::AttributeValidator>::is_backend")
    b = C.strip(C.fn_body(ib))
    ok = b.get("k") == "bin" and b.get("op") == "Or"
    detail = ""
    if ok:
        l, r = C.strip(b["l"]), C.strip(b["r"])
        def eq_names(e):
            e = C.strip(e)
            if e.get("k") != "bin" or e.get("op") != "Eq":
                return None
            out = []
            for s in (C.strip(e["l"]), C.strip(e["r"])):
                if s.get("k") == "field":
                    out.append("self." + s["n"])
                elif s.get("k") == "local":
                    out.append(s["n"])
                else:
                    out.append("?")
            return sorted(out)
        ok = eq_names(l) == ["backend_name", "self.backend_name"]
        ok = ok and r.get("k") == "mcall" and r.get("m") == "any" and any(x.get("k") == "field" and x.get("n") == "other_backend_names" for x in C.walk(r["recv"]))
        if ok:
            clo = C.strip(r["a"][0])
            cn = eq_names(clo["body"]) if clo.get("k") == "closure" else None
            ok = cn is not None and "backend_name" in cn and len(cn) == 2 and "?" not in cn
        detail = "backend_name == name || other_backend_names.any(|n| n == name)"
    ck.expect(ok, "R1", "BasicAttributeValidator::is_backend", detail, "is_backend is not exact equality with the primary or an additional backend name (prefix/contains matching makes `cpp` conditions fire for `c`)", C.loc(ib))

    # ---------------- R2
    inv = core.fn("<diplomat_core::hir::attrs::BasicAttributeValidator as diplomat_core::hir::attrs::AttributeValidator>::is_name_value")
    bodyn = C.fn_body(inv)
    # destructuring binds field -> same-named local
    destr = None
    for n in C.walk(bodyn):
        if n.get("k") == "letst" and n["pat"].get("k") == "variant" and (n["pat"].get("adt") or "").endswith("BackendAttrSupport"):
            destr = n
    field_to_local = {}
    if destr:
        for fl in destr["pat"]["fields"]:
            if fl["p"].get("k") == "bind":
                field_to_local[fl["n"]] = (fl["p"]["n"], fl["p"]["id"])
        src = C.strip(destr["init"])
        ck.expect(src.get("k") == "field" and src.get("n") == "support", "R2", "is_name_value/source", "self.support", "the flags are not read from self.support", C.loc(inv))
    ncell = 0
    for n in C.walk(bodyn):
        if n.get("k") == "match" and C.strip(n["s"]).get("k") == "local" and C.strip(n["s"]).get("n") == "value":
            for arm in n["arms"]:
                if arm["pat"].get("k") != "lit":
                    continue
                lit = arm["pat"]["v"]
                ncell += 1
                b = C.strip(arm["b"])
                want = field_to_local.get(lit)
                ok = want is not None and b.get("k") == "local" and (b.get("n"), b.get("id")) == want
                ck.expect(ok, "R2", "supports/" + lit, "-> support.%s" % lit, "`supports = %s` answers with %s instead of the `%s` flag" % (lit, b.get("n") if b.get("k") == "local" else b.get("k"), lit), C.loc(inv, arm.get("ln")))
    ck.floor("R2", 24)
    sup = core.adt("hir::attrs::BackendAttrSupport")
    flags = [f["name"] for f in sup["variants"][0]["fields"]]
    ck.expect(set(flags) == set(field_to_local), "R2", "supports/all-flags-destructured", "%d flags" % len(flags), "BackendAttrSupport fields %s are not all reachable through `supports =`" % sorted(set(flags) - set(field_to_local)), C.loc(sup))
    gen = tool.fn("diplomat_tool::gen")
    disp = gen_dispatch(tool)
    for tgt in sorted(disp):
        s_mod, r_mod = disp[tgt]["support"], disp[tgt]["run"]
        ck.expect(len(s_mod) == 1 and s_mod == r_mod, "R2", "gen/target-pairing/" + tgt, "%s" % sorted(s_mod), "target `%s` takes attr_support() from %s but runs %s" % (tgt, sorted(s_mod), sorted(r_mod)), C.loc(gen))
    if len(disp) < 7:
        ck.bad("R2", "gen/target-pairing", "cannot read the target dispatch of gen (%d target names found)" % len(disp), C.loc(gen))

    # ---------------- R3 parser
    pf = core.fn("<diplomat_core::ast::attrs::DiplomatBackendAttrCfg as syn::parse::Parse>::parse")
    kw = {}
    pf_nodes = [x for b_ in C.bodies_inl(core, C.fn_body(pf), depth=2, exclude=[pf["path"]]) for x in C.walk(b_)]   # the parser and the phase helpers it delegates to
    for n in pf_nodes:
        if n.get("k") == "if":
            c = C.strip(n["c"])
            lits = [x["v"] for x in C.walk(c) if x.get("k") == "lit" and x.get("t") == "str"]
            ctors = []
            for x in C.walk(n["t"]):
                if x.get("k") in ("call", "def") and (x.get("ctor") or "").startswith(CFG + "::"):
                    ctors.append(x["ctor"].split("::")[-1])
            for l in lits:
                kw.setdefault(l, set()).update(ctors)
    ok = kw.get("auto") == {"Auto"} and kw.get("not") == {"Not"} and "Any" in kw.get("any", ()) and "All" in kw.get("all", ())
    # any/all share a branch: the inner `if name == "any"` decides
    inner_ok = False
    for n in pf_nodes:
        if n.get("k") == "if":
            c = C.strip(n["c"])
            lits = [x["v"] for x in C.walk(c) if x.get("k") == "lit" and x.get("t") == "str"]
            if lits in (["any"], ["all"]) and n.get("e"):
                t_c = [x["ctor"].split("::")[-1] for x in C.walk(n["t"]) if x.get("ctor", "").startswith(CFG)]
                e_c = [x["ctor"].split("::")[-1] for x in C.walk(n["e"]) if x.get("ctor", "").startswith(CFG)]
                # `name == "any"` / `name != "any"` / `name == "all"` ... : the branch taken when the keyword IS the literal builds the literal's node
                ne = (c.get("k") == "bin" and c.get("op") == "Ne") or (c.get("k") == "un" and c.get("op") == "Not")
                if ne:
                    t_c, e_c = e_c, t_c
                mine, other = ("Any", "All") if lits == ["any"] else ("All", "Any")
                inner_ok = set(t_c) == {mine} and set(e_c) == {other}
    ck.expect(ok and inner_ok, "R3", "parse/keywords", str({k: sorted(v) for k, v in kw.items()}), "keyword -> constructor mapping changed: %s" % {k: sorted(v) for k, v in kw.items()}, C.loc(pf))
    # the parser only BUILDS formula nodes; it never takes one apart (flattening `all(any(a, b), c)` into `all(a, b, c)` changes the truth table)
    def _pats(n_):
        if isinstance(n_, dict):
            if n_.get("k") == "variant" and (n_.get("adt") or "") == CFG:
                yield n_
            for v_ in n_.values():
                for r_ in _pats(v_):
                    yield r_
        elif isinstance(n_, list):
            for v_ in n_:
                for r_ in _pats(v_):
                    yield r_
    taken_apart = sorted({p_.get("v") for x in pf_nodes for key_ in ("pat", "arms", "params") if key_ in x for p_ in _pats(x[key_])})
    ck.expect(not taken_apart, "R3", "parse/formula-built-not-rewritten", "no pattern on DiplomatBackendAttrCfg in the parser", "the condition parser matches on already parsed sub-formulas (%s) and rebuilds them: "
              "the stored formula is not the one that was written (e.g. a nested `any(..)` spliced into its parent `all(..)`)" % taken_apart, C.loc(pf))
    all_ctors = [x["ctor"].split("::")[-1] for x in pf_nodes if x.get("ctor", "").startswith(CFG + "::")]
    ck.expect(set(all_ctors) == expected, "R3", "parse/constructs-all", str(sorted(set(all_ctors))), "parser constructs %s, evaluator interprets %s" % (sorted(set(all_ctors)), sorted(expected)), C.loc(pf))

    # ---------------- R4 disable honoured
    lam = core.fn("hir::lowering::LoweringContext::lower_all_methods")
    okd = False
    for n in C.walk(C.fn_body(lam)):
        if n.get("k") == "for":
            items = block_items(n["body"])
            idx_if = next((i for i, x in enumerate(items) if C.strip(x).get("k") == "if" and C.strip(C.strip(x)["c"]).get("k") == "field" and C.strip(C.strip(x)["c"]).get("n") == "disable"
                           and any(y.get("k") == "continue" for y in C.walk(C.strip(x)["t"]))), None)
            idx_lower = next((i for i, x in enumerate(items) if any(is_call_to(y, "lower_method") for y in C.walk(x))), None)
            if idx_if is not None and idx_lower is not None:
                okd = idx_if < idx_lower
    ck.expect(okd, "R4", "lower_all_methods/disable-before-lower", "`if attrs.disable { continue }` precedes lower_method", "disabled methods are no longer skipped before lowering", C.loc(lam))
    # backends: loops over all_types()/all_traits()
    nloops = 0
    run_fns, seen_run = [], set()
    for f0 in tool.fn_list:
        if f0.get("dk") == "Closure" or "hir" not in f0:
            continue
        if not re.search(r"^diplomat_tool::(c|cpp|js|dart|kotlin|nanobind|demo_gen)(::\w+)*::(run|gen|run_gen)$", C.norm_path(f0["path"])):
            continue
        for g_ in C.fns_inl(tool, f0, depth=1):       # the driver and the phase functions it is split into
            if g_["path"] not in seen_run and re.search(r"^diplomat_tool::(c|cpp|js|dart|kotlin|nanobind|demo_gen)::", C.norm_path(g_["path"])):
                seen_run.add(g_["path"])
                run_fns.append(g_)
    for f in run_fns:
        for n in C.walk(C.fn_body(f)):
            if n.get("k") != "for":
                continue
            it_calls = [C.callee(x) or "" for x in C.calls_in(n["iter"])]
            if not any(c.endswith("TypeContext::all_types") or c.endswith("TypeContext::all_traits") for c in it_calls):
                continue
            nloops += 1
            items = block_items(n["body"])
            # first statement that generates anything
            gen_idx = next((i for i, x in enumerate(items) if any(x2.get("k") == "mcall" and x2.get("m") in ("add_file", "gen_struct_def", "gen_enum_def", "gen_opaque_def", "gen_impl", "gen_trait_def", "gen_enum", "gen_struct", "gen_opaque", "generate", "gen_ty", "render", "push", "insert", "attempt_build") for x2 in C.walk(x))), None)
            dis_idx = next((i for i, x in enumerate(items) if any(y.get("k") == "field" and y.get("n") == "disable" for y in C.walk(x)) and any(y.get("k") == "continue" for y in C.walk(x))), None)
            # `for .. in all_types().filter(|(_, ty)| !ty.attrs().disable)`: disabled items never enter the body
            for fc in C.walk(n["iter"]):
                if fc.get("k") == "mcall" and fc.get("m") == "filter" and fc.get("a") and C.strip(fc["a"][0]).get("k") == "closure":
                    cb = C.strip(C.strip(fc["a"][0])["body"])
                    while cb.get("k") == "block" and not cb.get("s") and cb.get("e") is not None:
                        cb = C.strip(cb["e"])
                    if cb.get("k") == "un" and cb.get("op") == "Not" and any(y.get("k") == "field" and y.get("n") == "disable" for y in C.walk(cb["e"])):
                        dis_idx = -1
            key = "%s/loop@%s" % (C.norm_path(f["path"]).replace("diplomat_tool::", ""), "traits" if any(c.endswith("all_traits") for c in it_calls) else "types")
            key += "#%d" % sum(1 for i in ck.instances if i["key"].startswith(key))
            ck.expect(dis_idx is not None and (gen_idx is None or dis_idx <= gen_idx), "R4", key, "tests disable first", "backend loop over %s generates output without first skipping disabled items" % ("traits" if "traits" in key else "types"), C.loc(f, n.get("ln")))
            # nothing that can fail (name formatting panics on reserved names, generators report errors) runs for an item before its disable test
            BENIGN = {"set_context_ty", "name", "as_str", "into", "attrs", "resolve_type", "resolve_trait", "clone", "to_string", "as_ref", "deref", "borrow", "try_into", "unwrap", "from", "id", "clear", "new", "methods", "default"}
            early = sorted({(x2.get("m") or (C.callee(x2) or "").split("::")[-1]) for x in items[:max(dis_idx or 0, 0)] for x2 in C.walk(x) if x2.get("k") in ("mcall", "call")} - BENIGN)
            if dis_idx is not None:
                ck.expect(not early, "R4", key + "/nothing-before-disable", "only context bookkeeping precedes the test", "for every item, also one disabled for this backend, the loop first calls %s: "
                          "an item switched off because this backend cannot represent it (reserved name, unsupported shape) still makes the run fail" % early, C.loc(f, n.get("ln")))
    # ... and what a backend derives from the type list outside its item loop (an index of part files, a list of includes) leaves disabled items out as well:
    # every other walk over all_types() / all_traits() filters on `disable`
    nside = 0
    for f in tool.fn_list:
        if "hir" not in f or f.get("exp") or f.get("dk") == "Closure" or not re.match(r"^diplomat_tool::(c|cpp|js|dart|kotlin|nanobind|demo_gen)::", C.norm_path(f["path"])):
            continue
        loop_iters = {id(x) for lp in C.walk(C.fn_body(f)) if lp.get("k") == "for" for x in C.walk(lp["iter"])}
        subs_ = {id(C.strip(n["recv"])) for n in C.walk(C.fn_body(f)) if n.get("k") == "mcall"}
        for n in C.walk(C.fn_body(f)):
            if n.get("k") != "mcall" or id(n) in subs_ or id(n) in loop_iters:
                continue
            ch, r = [], n
            while isinstance(r, dict) and r.get("k") == "mcall":
                ch.append(r)
                r = C.strip(r["recv"])
            roots = [c_ for c_ in ch if c_.get("m") in ("all_types", "all_traits") and (C.callee(c_) or "").endswith(("TypeContext::all_types", "TypeContext::all_traits"))]
            if not roots or len(ch) < 2:
                continue
            nside += 1
            filtered = any(c_.get("m") in ("filter", "filter_map") and any(y.get("k") == "field" and y.get("n") == "disable" for y in C.walk(c_["a"][0])) for c_ in ch if c_.get("a"))
            ck.expect(filtered, "R4", "%s/side-walk-skips-disabled#%d" % (C.norm_path(f["path"]).replace("diplomat_tool::", ""), nside), "filters on disable",
                      "%s walks all_types()/all_traits() outside its item loop without skipping disabled items: what it derives (part directives, includes, an index) still names a type "
                      "that is disabled for this backend and whose file is not generated" % f["name"], C.loc(f, n.get("ln")))
    ck.note("R4: %d walks over all_types()/all_traits() outside the item loops" % nside)
    if nloops < 8:
        ck.bad("R4", "loops-floor", "only %d backend loops over all_types/all_traits found (8 counted)" % nloops)

    # in the backends that render renamed names every name formatter that applies `attrs.rename` applies it on EVERY path (an explicitly given accessor /
    # constructor name is renamed like the Rust name; only operator names, selected by `special_method`, are fixed spellings)
    def is_rename_apply(x):
        return x.get("k") == "mcall" and x.get("m") == "apply" and any(y.get("k") == "field" and y.get("n") == "rename" for y in C.walk(x["recv"]))

    def paths(n, a):
        """(fall-through states, return states): was rename applied when control leaves n?"""
        if not isinstance(n, dict):
            return {a}, set()
        k = n.get("k")
        if k == "closure":
            return {a}, set()
        if k == "macro" and n.get("name") in C.HARD_PANIC_MACROS:
            return set(), set()
        if k == "ret":
            f_, r_ = paths(n.get("e"), a)
            return set(), r_ | f_
        if k == "if":
            fc, rc = paths(n["c"], a)
            falls, rets = set(), set(rc)
            for a2 in fc:
                for br in (n["t"], n.get("e")):
                    if br is None:
                        falls.add(a2)
                        continue
                    f_, r_ = paths(br, a2)
                    falls |= f_
                    rets |= r_
            return falls, rets
        if k == "match":
            fs, rs = paths(n["s"], a)
            exempt = any(y.get("k") == "field" and y.get("n") == "special_method" for y in C.walk(n["s"]))
            falls, rets = set(), set(rs)
            for a2 in fs:
                for arm in n["arms"]:
                    f_, r_ = paths(arm["b"], a2)
                    if exempt and not any(is_rename_apply(y) for y in C.walk(arm["b"])):
                        f_, r_ = ({True} if f_ else set()), ({True} if r_ else set())
                    falls |= f_
                    rets |= r_
            return falls, rets
        kids = list(C.children(n))
        if k == "block":
            kids = list(n.get("s") or []) + ([n["e"]] if n.get("e") is not None else [])
        states, rets = {a}, set()
        for c_ in kids:
            nxt = set()
            for a2 in states:
                f_, r_ = paths(c_, a2)
                nxt |= f_
                rets |= r_
            states = nxt
            if not states:
                break
        if is_rename_apply(n) and states:
            states = {True}
        if k in ("for", "while", "loop"):
            states |= {a}
        return states, rets
    nfmt = 0
    for f in tool.fn_list:
        if "hir" not in f or f.get("dk") == "Closure" or not re.match(r"^diplomat_tool::(cpp|js|dart|nanobind)::formatter::", C.norm_path(f["path"])):
            continue
        if not any(is_rename_apply(x) for x in C.walk(C.fn_body(f))):
            continue
        nfmt += 1
        fl_, rt_ = paths(C.fn_body(f), False)
        ck.expect(False not in (fl_ | rt_), "R4", "%s/rename-on-every-path" % C.norm_path(f["path"]).replace("diplomat_tool::", ""), "applied on every path",
                  "`%s` applies attrs.rename on some paths only: a name given explicitly (accessor / constructor name) or selected by another test escapes a rename whose condition holds for "
                  "this backend, while sibling backends render it" % f["name"], C.loc(f))
    if nfmt < 12:
        ck.bad("R4", "rename-formatters/floor", "only %d name formatters applying attrs.rename found in cpp/js/dart/nanobind (14 counted)" % nfmt)

    # a renamed method is called by its renamed name everywhere in the backend's own output: the C++ comparison operators call the comparator through `method_name` (C02.R6)
    if isinstance(ck, C.Check):
        import c02
        c02.run(C.SubCheck(ck, "R4", "", ["R6"], key_re=r"comparison-operators"), facts)
    # the pure C backend does not render `rename` at all (every C name -- typedefs, file names, references, symbols -- stays the Rust name): each application of
    # attrs.rename in the C formatter sits under `if self.is_for_cpp`
    nren = 0
    for f in tool.fn_list:
        if "hir" not in f or not C.norm_path(f["path"]).startswith("diplomat_tool::c::formatter::"):
            continue
        for n, st in C.with_conditions(C.fn_body(f)):
            if n.get("k") == "mcall" and n.get("m") == "apply" and C.strip(n["recv"]).get("k") == "field" and C.strip(n["recv"]).get("n") == "rename":
                nren += 1
                cpp_only = C.asserted(st, lambda c_: c_.get("k") == "field" and c_.get("n") == "is_for_cpp")     # `if cpp {..}` or after `if !cpp { return .. }`
                key = "c::formatter::%s/rename-cpp-only#%d" % (f["name"], sum(1 for i in ck.instances if i["rule"] == "R4" and i["key"].startswith("c::formatter::%s/rename-cpp-only" % f["name"])))
                ck.expect(cpp_only, "R4", key, "under is_for_cpp", "the C formatter applies `rename` outside `if self.is_for_cpp` in %s: a rename whose condition holds for `c` changes some C names (type references) "
                          "but not others (typedefs, file names), so the C output changes and stops compiling" % f["name"], C.loc(f, n.get("ln")))
    if nren < 1:
        ck.bad("R4", "c::formatter/rename-floor", "no application of attrs.rename found in the C formatter (3 counted)")

    # ---------------- R5 macro
    cn = facts.core_nohir
    hir_fns = [f["path"] for f in cn.fn_list if f["path"].startswith("diplomat_core::hir::")]
    ck.expect(not hir_fns, "R5", "macro-core/no-hir", "diplomat_core as linked into the macro has no hir module", "the macro's diplomat_core now contains hir code: %s" % hir_fns[:3])
    bad_reads = []
    for f in mac.fn_list:
        if "hir" not in f:
            continue
        for n in C.walk(C.fn_body(f)):
            if n.get("k") == "field" and n.get("n") == "attrs" and (n.get("bty") or "").replace("&", "").strip().endswith("ast::attrs::Attrs"):
                bad_reads.append((f["path"], n))
            if n.get("k") in ("match", "let") or n.get("k") == "def":
                s = str(n.get("sadt") or n.get("ctor") or n.get("p") or "")
                if "DiplomatBackendAttr" in s:
                    bad_reads.append((f["path"], n))
            if n.get("k") in ("call", "mcall") and "DiplomatBackendAttr" in (C.callee(n) or ""):
                bad_reads.append((f["path"], n))
    ck.expect(not bad_reads, "R5", "macro/no-backend-attr-reads", "macro reads only .cfg/.abi_rename of ast::Attrs", "the proc macro inspects backend-conditional attributes in %s: exports would depend on #[diplomat::attr]" % sorted({p for p, _ in bad_reads}), None)
    n_attr_uses = sum(1 for f in mac.fn_list if "hir" in f for n in C.walk(C.fn_body(f)) if n.get("k") == "field" and (n.get("bty") or "").replace("&", "").strip().endswith("ast::attrs::Attrs"))
    ck.expect(n_attr_uses >= 1, "R5", "macro/attrs-anchor", "%d field reads of ast::Attrs" % n_attr_uses, "anchor lost: the macro no longer reads any field of ast::Attrs (rule cannot see what it should)", None)

    # ---------------- R6 inheritance
    fi = core.fn("hir::attrs::Attrs::for_inheritance")
    import exprval
    okdis = False
    ictx = next((a for p_, a in adts.items() if p_.endswith("::AttrInheritContext")), None)
    ctxs = [v["name"] for v in ictx["variants"]] if ictx else []
    dis_init = None
    for n in C.walk(C.fn_body(fi)):
        if n.get("k") == "letst" and isinstance(n.get("pat"), dict) and n["pat"].get("n") == "disable" and n.get("init"):
            dis_init = n["init"]
    if dis_init is None:
        # the value may be written directly into the struct literal
        for n in C.walk(C.fn_body(fi)):
            if n.get("k") == "struct" and (n.get("adt") or "").endswith("hir::attrs::Attrs"):
                for fl in n.get("fields", []):
                    if fl["n"] == "disable":
                        dis_init = fl["e"]
    if dis_init is not None and ctxs:
        try:
            okdis = all(exprval.bev(dis_init, {"context": c, "disable": d}) == (d and c != "Variant") for c in ctxs for d in (True, False)) and "Variant" in ctxs
        except exprval.Unknown as e:
            okdis = False
            ck.note("for_inheritance/disable not evaluable: %s" % e)
    ck.expect(okdis, "R6", "for_inheritance/disable", "false for variants, inherited otherwise", "`disable` inheritance changed (must inherit everywhere except to variants)", C.loc(fi))
    # AST level: #[diplomat::attr] lists travel from an impl block to its methods and nowhere else (everything else is inherited during lowering)
    afi = core.fn("ast::attrs::Attrs::attrs_for_inheritance")
    for fld in ("attrs", "demo_attrs"):
        init = None
        comp = None
        for n in C.walk(C.fn_body(afi)):
            if n.get("k") == "letst" and isinstance(n.get("pat"), dict) and n["pat"].get("n") == fld and n.get("init") is not None:
                init = n["init"]
            if n.get("k") == "letst" and isinstance(n.get("pat"), dict) and n["pat"].get("k") == "tuple" and n.get("init") is not None:
                names_ = [q.get("n") if isinstance(q, dict) and q.get("k") == "bind" else None for q in (n["pat"].get("sub") or [])]
                if fld in names_:
                    init, comp = n["init"], names_.index(fld)
        if init is None:
            for n in C.walk(C.fn_body(afi)):
                if n.get("k") == "struct" and (n.get("adt") or "").endswith("ast::attrs::Attrs"):
                    for fl in n.get("fields", []):
                        if fl["n"] == fld:
                            init = fl["e"]
        sel = {}
        i0 = C.strip(init) if init is not None else {}
        for c in ctxs:
            try:
                if i0.get("k") == "if":
                    br = i0["t"] if exprval.bev(i0["c"], {"context": c}) else i0.get("e")
                elif i0.get("k") == "match":
                    br = None
                    is_bool = any(a_["pat"].get("k") == "lit" and isinstance(a_["pat"].get("v"), bool) for a_ in i0["arms"])
                    bval = exprval.bev(i0["s"], {"context": c}) if is_bool else None
                    for arm in i0["arms"]:
                        pv = arm["pat"]
                        if is_bool:
                            if pv.get("k") in ("wild", "bind") or (pv.get("k") == "lit" and pv.get("v") is bval):
                                br = arm["b"]
                                break
                            continue
                        names = [v.split("::")[-1] for v in [pv.get("v")] + [a_.get("v") for a_ in (pv.get("alts") or [])] if isinstance(v, str)]
                        if pv.get("k") in ("wild", "bind") or c in names:
                            br = arm["b"]
                            break
                else:
                    br = i0
                if comp is not None and br is not None:
                    b0 = C.strip(br)
                    while b0.get("k") == "block" and not b0.get("s") and b0.get("e") is not None:
                        b0 = C.strip(b0["e"])
                    if b0.get("k") == "tup" and len(b0.get("a", [])) > comp:
                        br = b0["a"][comp]
                sel[c] = "copied" if br is not None and any(x.get("k") == "mcall" and x.get("m") in ("clone", "to_vec", "to_owned") for x in C.walk(br)) else "dropped"
            except exprval.Unknown as e:
                sel[c] = "?%s" % e
        want_ = {c: ("copied" if c == "MethodFromImpl" else "dropped") for c in ctxs}
        ck.expect(bool(ctxs) and sel == want_, "R6", "ast::Attrs::attrs_for_inheritance/%s" % fld, str(sel),
                  "the `%s` list of an item is handed down in contexts %s (expected only MethodFromImpl): conditions written on an impl block no longer reach its methods, or module-level "
                  "attribute lists are applied twice" % (fld, sorted(c for c, v in sel.items() if v == "copied")), C.loc(afi))

    # RenameAttr::attrs_for_inheritance(context, is_abi_rename): the flag says which of the two pattern kinds is being handed down -- `rename` stops at
    # module -> method (a module-level rename names types only), `abi_rename` does not.  Every call passes the flag of the field it is called on.
    nflag = 0
    for f_ in core.fn_list:
        if "hir" not in f_ or f_.get("dk") == "Closure":
            continue
        for x in C.walk(C.fn_body(f_)):
            if x.get("k") == "mcall" and C.norm_path(x.get("p") or "").endswith("RenameAttr::attrs_for_inheritance") and len(x.get("a") or []) == 2:
                r_ = C.strip(x["recv"])
                fld_ = r_.get("n") if r_.get("k") == "field" else None
                flag_ = lit_bool(x["a"][1])
                if fld_ not in ("rename", "abi_rename"):
                    continue
                nflag += 1
                ck.expect(flag_ is (fld_ == "abi_rename"), "R6", "%s/%s-inherits-as-%s" % (C.norm_path(f_["path"]).replace("diplomat_core::", ""), fld_, fld_), "is_abi_rename = %s" % flag_,
                          "`%s.attrs_for_inheritance(.., is_abi_rename = %s)`: the %s pattern is handed down with the other kind's rule (a module-level `rename` then also renames every method of "
                          "the module's types; a module-level `abi_rename` would stop applying to methods)" % (fld_, flag_, fld_), C.loc(f_, x.get("ln")))
    if nflag < 2:
        ck.bad("R6", "rename-inheritance-flags/floor", "only %d calls of RenameAttr::attrs_for_inheritance on a rename / abi_rename field found (2 counted)" % nflag)

    # type lowerers use ty_parent_attrs for the type, method_parent_attrs for its methods
    for fname in ("lower_enum", "lower_opaque", "lower_struct", "lower_out_struct", "lower_trait"):
        f = core.fn("hir::lowering::LoweringContext::" + fname, optional=True)
        if not f:
            ck.bad("R6", fname, "anchor missing", None)
            continue
        tops = []
        for n in C.walk(C.fn_body(f)):
            if n.get("k") == "letst" and n["pat"].get("n") == "attrs" and n.get("init"):
                c = C.strip(n["init"])
                if c.get("k") == "mcall" and c.get("m") == "attr_from_ast" and len(c["a"]) >= 2:
                    par = C.strip(c["a"][1])
                    tops.append(par.get("n") if par.get("k") == "field" else par.get("k"))
        ok = tops[:1] == ["ty_parent_attrs"]
        ck.expect(ok, "R6", fname + "/type-parent", str(tops[:1]), "%s builds the type's attributes from `%s` instead of the type-parent attributes: module-level disable/rename conditions no longer reach this kind of type" % (fname, tops[:1]), C.loc(f))
        if fname != "lower_trait":
            mp = []
            for e in C.args_reaching(core, f, "lower_all_methods", 2):
                par = C.strip(e)
                while par.get("k") in ("addr", "deref", "paren"):
                    par = C.strip(list(C.children(par))[0])
                mp.append(par.get("n") if par.get("k") in ("field", "local") else par.get("k"))
            ck.expect(mp == ["method_parent_attrs"], "R6", fname + "/method-parent", str(mp), "%s passes %s as the methods' parent attributes" % (fname, mp), C.loc(f))
            # a type disabled for this backend gets no methods lowered at all (its methods may use shapes the backend does not support: lowering them would reject a
            # module whose author disabled the type precisely for that backend) -- the four lowerers agree on this
            guarded = []
            for n, st in C.with_conditions_inl(core, C.fn_body(f), depth=1):
                if n.get("k") == "mcall" and n.get("m") == "lower_all_methods":
                    g_ = False
                    for kind, a_, b_ in st:
                        if kind == "if" and any(x.get("k") == "field" and x.get("n") == "disable" for x in C.walk(a_)):
                            neg = any(x.get("k") in ("un", "unary") and x.get("op") == "Not" for x in C.walk(a_))
                            g_ = g_ or ((b_ == "e") != neg)
                    guarded.append(g_)
            ck.expect(bool(guarded) and all(guarded), "R4", fname + "/no-methods-when-disabled", "lower_all_methods only when !attrs.disable",
                      "%s lowers the methods of a type even when the type is disabled for the backend (%s): a conditional `disable` on the type no longer keeps methods with unsupported shapes "
                      "(callbacks, options, ...) away from that backend's lowering, the run aborts" % (fname, guarded), C.loc(f))

    # every AST constructor that receives its parent's attributes stores the parent's attributes PLUS the item's own (`add_attrs` on the value it stores): a `disable` / `rename`
    # written on the item itself is what the per-backend evaluation has to see (sibling constructors: Method::from_syn, Struct::new, OpaqueType::new_struct / new_enum, Enum::new, Trait::new)
    nown = 0
    for f in core.fn_list:
        if "hir" not in f or not f["path"].startswith("diplomat_core::ast::") or (f.get("impl_self") or "").endswith(AST_ATTRS_T):
            continue
        if not any("ast::attrs::Attrs" in (t_ or "") and (t_ or "").startswith("&") for t_ in f.get("inputs", [])):
            continue
        adds = {C.strip(n["recv"]).get("id") for n in C.walk(C.fn_body(f)) if n.get("k") == "mcall" and n.get("m") in ("add_attrs", "add_attr") and C.strip(n["recv"]).get("k") == "local"}
        for n in C.walk(C.fn_body(f)):
            if n.get("k") != "struct" or not (n.get("adt") or "").startswith("diplomat_core::ast::"):
                continue
            for fl in n["fields"]:
                if fl["n"] != "attrs":
                    continue
                e = C.strip(fl["e"])
                nown += 1
                ck.expect(e.get("k") == "local" and e.get("id") in adds, "R6", "ast::%s/%s-own-attrs-added" % (C.norm_path(f["path"]).split("::", 2)[-1], (n.get("adt") or "").split("::")[-1]), "parent.clone() + add_attrs(item.attrs)",
                          "%s stores attributes to which the item's own attributes were never added: a #[diplomat::attr(..)] written on this kind of item (not on its module) is ignored in every backend" % C.norm_path(f["path"]).split("::", 1)[-1], C.loc(f, n.get("ln")))
    if nown < 6:
        ck.bad("R6", "ast/own-attrs-floor", "only %d AST constructors storing inherited attributes found (7 counted)" % nown)

    # ---------------- R7 sibling independence (no attribute state carried from one item to the next)
    AST_ATTRS = "ast::attrs::Attrs"
    n7 = 0
    for unit in (core, mac, tool):
        for f in unit.fn_list:
            if "hir" not in f or f.get("dk") == "Closure":
                continue
            if (f.get("impl_self") or "").endswith(AST_ATTRS):
                continue  # the accumulator's own methods iterate over ONE item's attribute list
            body = C.fn_body(f)
            loops = C.enclosing_loops(body)
            if not loops:
                continue
            ltypes = {}
            for x in C.walk(body):
                if x.get("k") in ("letst", "let") and isinstance(x.get("pat"), dict) and x["pat"].get("k") == "bind":
                    ltypes[x["pat"].get("id")] = x.get("ty") or ""
            fkey = C.norm_path(f["path"]).split("::", 1)[1]
            for lp in loops:
                inner = C.bound_inside(lp)
                for r, path, kind, node in C.mutations(C.loop_body(lp)):
                    if r is None:
                        continue
                    is_attr = False
                    if kind.startswith("mcall:"):
                        is_attr = (node.get("rty") or "").replace("&mut ", "").strip().endswith(AST_ATTRS) and not path
                    elif kind in ("assign", "assignop"):
                        lhs = list(C.children(node))[0]
                        is_attr = any(y.get("k") == "field" and (y.get("bty") or "").replace("&mut ", "").replace("&", "").strip().endswith(AST_ATTRS) for y in C.walk(lhs))
                        # a whole attribute set (AST or HIR level) re-assigned per item and read by the next one
                        l0 = C.strip(lhs)
                        if l0.get("k") == "local" and not path and re.search(r"(ast|hir)::attrs::Attrs$", (ltypes.get(l0.get("id")) or "").replace("&mut ", "").strip()):
                            is_attr = True
                    elif kind == "&mut":
                        is_attr = not path and (ltypes.get(r.get("id")) or "").endswith(AST_ATTRS)
                    if not is_attr:
                        continue
                    n7 += 1
                    key = "%s/%s(%s)" % (fkey, r.get("n"), kind)
                    ck.expect(r.get("id") in inner, "R7", key, "accumulator is created inside the loop (fresh per item)",
                              "`%s` (ast::Attrs) is declared outside the loop over sibling items and mutated inside it by %s: attributes of one "
                              "item (e.g. a conditional disable/rename on one impl block) leak onto every later item" % (r.get("n"), kind), C.loc(f, node.get("ln")))
                # the `auto` flag handed to satisfies_cfg
                for x in C.walk(C.loop_body(lp)):
                    if x.get("k") == "mcall" and x.get("m") == "satisfies_cfg":
                        for a in x.get("a", []):
                            for y in C.walk(a):
                                if y.get("k") == "addr" and str(y.get("mut")) == "True":
                                    r, path = C.place_root(list(C.children(y))[0])
                                    if r is None:
                                        continue
                                    n7 += 1
                                    ck.expect(r.get("id") in inner, "R7", "%s/satisfies_cfg(&mut %s)" % (fkey, r.get("n")), "flag is fresh per attribute",
                                              "the `auto` flag `%s` passed to satisfies_cfg is declared outside the loop over attributes: once one attribute is gated on "
                                              "`auto`, every later attribute of the item is treated as auto-gated" % r.get("n"), C.loc(f, x.get("ln")))
    if n7 < 2:
        ck.bad("R7", "floor", "only %d attribute-accumulator / auto-flag sites found in loops (2 counted: Module::from_syn impl_attrs, Attrs::from_ast auto_found)" % n7)
    # nothing but attribute evaluation happens for a method before its disable test
    for n in C.walk(C.fn_body(lam)):
        if n.get("k") != "for":
            continue
        items = block_items(n["body"])
        idx_if = next((i for i, x in enumerate(items) if C.strip(x).get("k") == "if" and any(y.get("k") == "field" and y.get("n") == "disable" for y in C.walk(C.strip(x)["c"]))
                       and any(y.get("k") == "continue" for y in C.walk(C.strip(x)["t"]))), None)
        if idx_if is None:
            continue
        inner = C.bound_inside(n)
        offenders = []
        for st in items[:idx_if]:
            for r, path, kind, node in C.mutations(st):
                if r is None or r.get("id") in inner:
                    continue
                if path[:1] == ["errors"] and (kind in ("mcall:set_subitem", "mcall:set_item") or kind == "&mut"):
                    continue  # error context, and the store handed to the attribute evaluator
                offenders.append("%s%s %s" % (r.get("n"), "".join("." + p for p in path), kind))
        ck.expect(not offenders, "R7", "lower_all_methods/nothing-before-disable", "only attribute evaluation precedes the disable test",
                  "state is changed for a method before its `disable` test (%s): a method disabled for this backend still influences the output "
                  "(e.g. occupies the single-constructor slot or raises errors)" % sorted(set(offenders)), C.loc(lam, n.get("ln")))


    # ---------------- R8 inherited attribute lists are append-only; extra backend names are triaged
    REMOVERS = {"retain", "retain_mut", "remove", "swap_remove", "drain", "truncate", "clear", "pop", "dedup", "dedup_by", "dedup_by_key", "split_off", "filter", "filter_map", "skip", "take", "skip_while", "take_while"}
    n8 = 0
    for f in core.fn_list:
        if "hir" not in f or not f["path"].startswith("diplomat_core::ast::") or f.get("dk") == "Closure":
            continue
        for n in C.walk(C.fn_body(f)):
            if n.get("k") != "mcall" or n.get("m") not in REMOVERS:
                continue
            # receiver chain mentions the `attrs` list of an ast::Attrs (field access whose base type is ast::attrs::Attrs)
            hit = [y for y in C.walk(n["recv"]) if y.get("k") == "field" and y.get("n") == "attrs" and (y.get("bty") or "").replace("&", "").replace("mut ", "").strip().endswith("ast::attrs::Attrs")]
            if hit:
                n8 += 1
                ck.bad("R8", "%s/%s-on-attrs" % (C.norm_path(f["path"]).split("::", 1)[1], n["m"]),
                       "`%s` is applied to the attribute list of an ast::Attrs: inherited #[diplomat::attr] entries are dropped or filtered on the way to an item, so a condition placed on the parent (e.g. "
                       "`attr(cpp, disable)` on the impl block) stops applying when the item carries an attribute of the same name" % n["m"], C.loc(f, n.get("ln")))
    ck.ok("R8", "core::ast/attrs-append-only", "no removal/filter on ast::Attrs.attrs in core::ast (%d violations)" % n8)
    # positive control: the append API exists and is the only mutation used by the AST constructors
    adders = sum(1 for f in core.fn_list if "hir" in f and f["path"].startswith("diplomat_core::ast::") for n in C.walk(C.fn_body(f)) if n.get("k") == "mcall" and n.get("m") in ("add_attrs", "add_attr"))
    ck.expect(adders >= 5, "R8", "core::ast/add_attrs-sites", "%d add_attrs sites" % adders, "only %d add_attrs/add_attr call sites found in core::ast (anchor lost)" % adders)
    extra = {}
    for nm_, d_ in gen_dispatch(tool).items():
        if d_["extra"]:
            extra[tuple(sorted(d_["group"]))] = sorted(d_["extra"])
    ck.expect(extra == {("demo_gen",): ["js"]}, "R8", "gen/other_backend_names", str(extra),
              "extra backend names are %s (triaged: demo_gen also answers to `js`): conditions written for one backend now also select another backend's output" % extra, C.loc(gen))

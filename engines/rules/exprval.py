"""Evaluate a loop-free arithmetic expression tree extracted from the typed HIR under an environment of integers.
Used to decide closed-form layout formulas (padding, option size) exhaustively over a finite grid of operand values.
This is term evaluation of an extracted formula, not execution of the program."""
import common as C

MASK = (1 << 64) - 1


UNITS = []      # units whose private helper functions `ev` may evaluate through (set by the rule module)
_depth = [0]


class Unknown(Exception):
    pass


def ev(n, env, methods=None):
    n = C.strip(n)
    k = n.get("k")
    if k == "lit":
        if n.get("t") in ("int", "bool"):
            return int(n["v"])
        raise Unknown("literal " + str(n.get("t")))
    if k == "local":
        if n["n"] in env:
            return env[n["n"]]
        raise Unknown("free variable " + n["n"])
    if k == "cast":
        return ev(n["e"], env, methods)
    if k == "un":
        v = ev(n["e"], env, methods)
        if n["op"] == "Not":
            return (~v) & MASK
        if n["op"] == "Neg":
            return -v
        raise Unknown("unary " + n["op"])
    if k == "bin":
        a = ev(n["l"], env, methods)
        b = ev(n["r"], env, methods)
        op = n["op"]
        if op == "Add":
            return a + b
        if op == "Sub":
            if a - b < 0:
                raise Unknown("underflow")
            return a - b
        if op == "Mul":
            return a * b
        if op == "Div":
            if b == 0:
                raise Unknown("div0")
            return a // b
        if op == "Rem":
            if b == 0:
                raise Unknown("rem0")
            return a % b
        if op == "BitAnd":
            return a & b
        if op == "BitOr":
            return a | b
        if op == "BitXor":
            return a ^ b
        if op == "Shl":
            return (a << b) & MASK
        if op == "Shr":
            return a >> b
        if op in ("Eq", "Ne", "Lt", "Le", "Gt", "Ge"):
            return int({"Eq": a == b, "Ne": a != b, "Lt": a < b, "Le": a <= b, "Gt": a > b, "Ge": a >= b}[op])
        raise Unknown("binop " + op)
    if k == "mcall":
        m = n["m"]
        r = ev(n["recv"], env, methods)
        args = [ev(a, env, methods) for a in n.get("a", [])]
        if m == "next_multiple_of":
            return ((r + args[0] - 1) // args[0]) * args[0]
        if m == "max":
            return max(r, args[0])
        if m == "min":
            return min(r, args[0])
        if m in ("wrapping_add", "saturating_add"):
            return r + args[0]
        if m == "div_ceil":
            return -(-r // args[0])
        if m == "pow":
            return r ** args[0]
        if m == "is_power_of_two":
            return int(r > 0 and r & (r - 1) == 0)
        raise Unknown("method " + m)
    if k == "call":
        p = (C.callee(n) or "")
        args = [ev(a, env, methods) for a in n.get("a", [])]
        if p.endswith("cmp::max"):
            return max(args)
        if p.endswith("cmp::min"):
            return min(args)
        # a pure private helper of the analysed crate (`padding_to_align(offset, align)`): its body evaluated with the arguments bound to its parameters
        for u in UNITS:
            g = u.norm.get(C.norm_path(n.get("p") or p))
            if g and "hir" in g and _depth[0] < 4:
                ps = [q.get("n") for q in g["hir"].get("params") or [] if isinstance(q, dict) and q.get("k") == "bind"]
                if len(ps) == len(args):
                    _depth[0] += 1
                    try:
                        return ev(g["hir"]["body"], dict(zip(ps, args)), methods)
                    finally:
                        _depth[0] -= 1
        raise Unknown("call " + p)
    if k == "if":
        c = ev(n["c"], env, methods)
        return ev(n["t"], env, methods) if c else ev(n["e"], env, methods)
    if k == "block" and not n.get("s") and n.get("e"):
        return ev(n["e"], env, methods)
    if k == "block" and n.get("e") is not None and all(isinstance(x, dict) and x.get("k") == "letst" and isinstance(x.get("pat"), dict) and x["pat"].get("k") == "bind" and x.get("init") is not None
                                                    and x.get("els") is None for x in n["s"]):
        env2 = dict(env)
        for x in n["s"]:
            env2[x["pat"]["n"]] = ev(x["init"], env2, methods)
        return ev(n["e"], env2, methods)
    if k == "block" and n.get("s") and n.get("e") is not None:
        # statements that return early: `if c { return v; }` followed by the rest
        env2 = dict(env)
        for x in n["s"]:
            x0 = C.strip(x["e"]) if x.get("k") == "semi" else C.strip(x)
            if x.get("k") == "letst" and isinstance(x.get("pat"), dict) and x["pat"].get("k") == "bind" and x.get("init") is not None and x.get("els") is None:
                env2[x["pat"]["n"]] = ev(x["init"], env2, methods)
            elif x0.get("k") == "if" and not x0.get("e"):
                if ev(x0["c"], env2, methods):
                    t_ = C.strip(x0["t"])
                    items = (t_.get("s") or []) + ([t_["e"]] if t_.get("e") is not None else [])
                    r0 = C.strip(items[0]["e"]) if items and items[0].get("k") == "semi" else (C.strip(items[0]) if items else {})
                    if len(items) == 1 and r0.get("k") == "ret" and r0.get("e") is not None:
                        return ev(r0["e"], env2, methods)
                    raise Unknown("statement branch")
            else:
                raise Unknown("block with statements")
        return ev(n["e"], env2, methods)
    if k == "ret" and n.get("e") is not None:
        return ev(n["e"], env, methods)
    raise Unknown("node " + str(k))



def bev(n, env):
    """Evaluate a loop-free boolean / enum-valued expression (==, !=, &&, ||, !, if/else, match / matches! on unit variants)
    under an environment {local or field name -> bool | int | variant name}.  Unit-variant paths evaluate to their last segment."""
    n = C.strip(n)
    if not isinstance(n, dict):
        raise Unknown("not an expression")
    k = n.get("k")
    if k == "lit":
        if n.get("t") == "bool":
            return str(n["v"]).lower() == "true"
        if n.get("t") == "int":
            return int(n["v"])
        raise Unknown("literal " + str(n.get("t")))
    if k == "local":
        if n["n"] in env:
            return env[n["n"]]
        raise Unknown("free variable " + n["n"])
    if k == "field":
        key = n["n"]
        if key in env:
            return env[key]
        raise Unknown("field " + key)
    if k == "def" or (k in ("path", "call") and n.get("ctor") and not n.get("a")):
        return (n.get("ctor") or n.get("p") or "").split("::")[-1]
    if k == "macro":
        inner = n.get("inner") or n.get("e")
        if inner is None:
            raise Unknown("macro without expansion")
        return bev(inner, env)
    if k in ("block",):
        if n.get("s"):
            raise Unknown("block with statements")
        return bev(n["e"], env)
    if k in ("un", "unary"):
        v = bev(n["e"], env)
        if n.get("op") == "Not":
            return not v
        raise Unknown("unary " + str(n.get("op")))
    if k == "bin":
        op = n["op"]
        if op in ("And", "Or"):
            a = bev(n["l"], env)
            if op == "And":
                return bool(a) and bool(bev(n["r"], env))
            return bool(a) or bool(bev(n["r"], env))
        a = bev(n["l"], env)
        b = bev(n["r"], env)
        if op == "Eq":
            return a == b
        if op == "Ne":
            return a != b
        if op in ("Lt", "Le", "Gt", "Ge") and isinstance(a, int) and isinstance(b, int):
            return {"Lt": a < b, "Le": a <= b, "Gt": a > b, "Ge": a >= b}[op]
        raise Unknown("binop " + op)
    if k == "mcall" and n.get("m") == "len" and "len" in env:
        return env["len"]
    if k == "mcall" and n.get("m") == "is_empty" and "len" in env:
        return env["len"] == 0
    if k == "mcall" and not n.get("a") and ("()" + str(n.get("m"))) in env:
        return env["()" + n["m"]]      # a zero-argument predicate method given a value by the caller (`ty.is_consuming()`)
    if k == "if":
        c = bev(n["c"], env)
        if c:
            return bev(n["t"], env)
        if n.get("e") is None:
            raise Unknown("if without else")
        return bev(n["e"], env)
    if k == "match":
        v = bev(n["s"], env)

        def pm(p):
            pk = p.get("k")
            if pk == "wild" or pk == "bind":
                return True
            if pk == "or":
                return any(pm(a) for a in p.get("alts", []))
            if p.get("v"):
                return p["v"].split("::")[-1] == v
            if pk == "lit":
                return str(p.get("v")).lower() == str(v).lower()
            raise Unknown("pattern " + str(pk))
        for arm in n["arms"]:
            if pm(arm["pat"]):
                if arm.get("g") is not None and not bev(arm["g"], env):
                    continue
                return bev(arm["b"], env)
        raise Unknown("no arm matched")
    if k == "mcall" and n.get("m") in ("clone", "to_owned", "borrow", "as_ref", "deref") and not n.get("a"):
        return bev(n["recv"], env)
    if k in ("addr", "deref", "paren", "cast", "use"):
        return bev(list(C.children(n))[0], env)
    raise Unknown("node " + str(k))

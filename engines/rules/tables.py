"""Decision-table helpers shared by the table-driven properties (C01, C07, C08, C10, C11, C13, C15)."""
import json
import os
import re
import common as C

PRIM_ADT = "diplomat_core::hir::primitives::PrimitiveType"

# hir::PrimitiveType value -> the Rust type it stands for on the ABI
_PRIM_MAP = {
    "Bool": "bool", "Char": "u32", "Byte": "u8",
    "Int(I8)": "i8", "Int(I16)": "i16", "Int(I32)": "i32", "Int(I64)": "i64",
    "Int(U8)": "u8", "Int(U16)": "u16", "Int(U32)": "u32", "Int(U64)": "u64",
    "IntSize(Isize)": "isize", "IntSize(Usize)": "usize",
    "Int128(I128)": "i128", "Int128(U128)": "u128",
    "Float(F32)": "f32", "Float(F64)": "f64",
}
ALL_PRIMS = list(_PRIM_MAP)


def rust_kind(rust_ty, prims_layout):
    """(kind, bits) of a Rust scalar, widths taken from rustc's layout_of (facts), pointer-sized = 'ptr'."""
    lay = prims_layout.get(rust_ty)
    if rust_ty in ("usize", "isize"):
        return ("uint" if rust_ty[0] == "u" else "int", "ptr")
    if rust_ty == "bool":
        return ("bool", lay["size"] * 8)
    if rust_ty[0] == "f":
        return ("float", lay["size"] * 8)
    if rust_ty == "char":
        return ("uint", lay["size"] * 8)
    return ("uint" if rust_ty[0] == "u" else "int", lay["size"] * 8)


def prims_layout(unit):
    return {p["name"]: p["layout"] for p in unit.data["prims"]}


def foreign_types():
    with open(os.path.join(C.VERIF, "spec", "foreign_types.json")) as f:
        return json.load(f)


def expand_prim_vals(vals):
    """Expand partially refined PrimitiveType values (e.g. Int128(_)) to all concrete primitives."""
    out = []
    for v in vals:
        s = v.show() if hasattr(v, "show") else v
        if s in _PRIM_MAP:
            out.append(s)
        else:
            head = s.split("(")[0]
            out.extend(k for k in _PRIM_MAP if k.split("(")[0] == head)
    return out


def arm_result(body):
    """Summarise what an arm evaluates to: ('panic', msg) | ('str', literal) | ('expr', node)."""
    pm = C.panic_macro_of(body)
    if pm:
        return ("panic", pm[1])
    n = C.strip(body)
    if isinstance(n, dict):
        if n.get("k") == "lit" and n.get("t") == "str":
            return ("str", n["v"])
        if n.get("k") == "mcall" and n.get("m") in ("into", "to_string", "to_owned", "into_owned") and not n.get("a"):
            return arm_result(n["recv"])
        if n.get("k") == "call" and len(n.get("a", [])) == 1 and (n.get("p") or "").endswith(("::from", "Cow::Borrowed", "::Some")):
            return arm_result(n["a"][0])
        if C.diverges(body):
            return ("panic", "")
    return ("expr", n)


def find_matches(fn, adt_suffix):
    out = []
    for n in C.walk(C.fn_body(fn)):
        if n.get("k") == "match" and (n.get("sadt") or "").endswith(adt_suffix):
            out.append(n)
    return out


def prim_table(fn, adts, which=0, scrut_filter=None):
    """{hir prim value name -> arm_result} for the `which`-th match on PrimitiveType in fn."""
    ms = find_matches(fn, "hir::primitives::PrimitiveType")
    if scrut_filter:
        ms = [m for m in ms if scrut_filter(m)]
    if len(ms) <= which:
        raise C.CheckError("no match on hir::PrimitiveType #%d in %s" % (which, fn["path"]))
    m = ms[which]
    table = C.decision_table(m, adts)
    out = {}
    for v, hits in table:
        names = expand_prim_vals([v])
        arm = None
        for i, cond in hits:
            if not cond:
                arm = i
                break
        for nme in names:
            if arm is None:
                out[nme] = ("nomatch", "")
            else:
                r = arm_result(m["arms"][arm]["b"])
                out[nme] = r + (m["arms"][arm].get("ln"),)
    return out, m


def variant_table(match_node, adts, adt_path=None):
    """{value tree string -> (arm index, arm node)} with guards reported."""
    table = C.decision_table(match_node, adts, adt_path)
    out = []
    for v, hits in table:
        out.append((v.show(), hits))
    return out
